/- C14 driver: evaluates the CRT model and the specification checkers on every line of harness/h_crt.cpp. -/
import Driver.Common
import GivaroModel.Model.CRT
import GivaroModel.Spec.CRTSpec
-- @driver-mode crt Driver.CRT.crtLine
namespace Driver.CRT
open Driver
open Givaro.Model.CRT
open Givaro.Spec.CRT

private def showL (xs : List Int) : String := String.intercalate " " (xs.map hexInt)

private def verdict (specOk modelOk : Bool) (model : String) (line : String) : String :=
  if specOk && modelOk then "OK"
  else
    let kind := if !specOk && !modelOk then "BOTH" else if !specOk then "SPEC" else "MODEL"
    s!"DIFF kind={kind} model={model} | {line.trimAscii.toString}"

/-- split `n x_1 … x_n rest` -/
private def takeCounted (xs : List Int) : Option (List Int × List Int) :=
  match xs with
  | [] => none
  | n :: rest =>
    if n < 0 || rest.length < n.toNat then none else some (rest.take n.toNat, rest.drop n.toNat)

private def cof := cofEuclid

/-- history of an `IntRNSsystem` object (letters as in h_crt.cpp) -/
private def intHist (A B : List Int) (a : Int) : List Char → Option IntSys → Option IntSys
  | [], s => s
  | op :: ops, s =>
    let touch (t : IntSys) : IntSys := (t.rnsToRing cof (t.toRns a)).1
    let next : Option IntSys :=
      match op, s with
      | 'D', _ => some (IntSys.ofPrimes A)
      | 'T', _ => some (IntSys.ofPrimes A)
      | 'O', _ => some (IntSys.ofPrimes B)
      | 'V', some c => some (IntSys.assign c (IntSys.ofPrimes A))
      | 'q', some c => some (touch c)
      | 'k', some c => some (c.reciprocals cof).1
      | 'm', some c => some c.product.1
      | 'C', some c => some c.copy
      | 'K', some c => some c
      | 'A', some c => some (IntSys.assign IntSys.empty c)
      | 'B', some c => some (IntSys.assign (IntSys.ofPrimes B) c)
      | 'b', some c => some (IntSys.assign (touch (IntSys.ofPrimes B)).product.1 c)
      | _, _ => none
    match next with
    | none => none
    | some n => intHist A B a ops (some n)

private def rnsHist (A B : List Int) (a : Int) : List Char → Option RnsSys → Option RnsSys
  | [], s => s
  | op :: ops, s =>
    let touch (t : RnsSys) : RnsSys := (t.rnsToRing cof (t.toRns a)).1
    let next : Option RnsSys :=
      match op, s with
      | 'D', _ => some (RnsSys.ofPrimes A)
      | 'E', _ => some (RnsSys.setPrimes RnsSys.empty A)
      | 'O', _ => some (RnsSys.ofPrimes B)
      | 'S', some c => some (c.setPrimes A)
      | 'V', some c => some (RnsSys.assign c (RnsSys.ofPrimes A))
      | 'q', some c => some (touch c)
      | 'k', some c => some (c.reciprocals cof).1
      | 'C', some c => some c.copy
      | 'K', some c => some c
      | 'A', some c => some (RnsSys.assign RnsSys.empty c)
      | 'B', some c => some (RnsSys.assign (RnsSys.ofPrimes B) c)
      | 'b', some c => some (RnsSys.assign (touch (RnsSys.ofPrimes B)) c)
      | _, _ => none
    match next with
    | none => none
    | some n => rnsHist A B a ops (some n)

private def polyHist (p : Int) (as rs : List Int) : List Char → Option PolySys → Option PolySys
  | [], s => s
  | op :: ops, s =>
    let next : Option PolySys :=
      match op, s with
      | 'D', _ => some (PolySys.ofPoints p as)
      | 'q', some c => some (c.rnsToRing cof rs).1
      | 'k', some c => some (c.computeCk cof)
      | 'C', some c => some c.copy
      | 'K', some c => some c
      | _, _ => none
    match next with
    | none => none
    | some n => polyHist p as rs ops (some n)

private def parseSlot (c : Char) : Option Nat :=
  if '0' ≤ c ∧ c ≤ '3' then some (c.toNat - '0'.toNat) else none

/-- a program over several `IntRNSsystem` objects (operation codes as in h_crt.cpp `run_mirns`), executed with the model's
    `intStep`; returns the final object -/
private def intProg (A B : List Int) (a : Int) : List String → IntEnv → Option Nat → Option IntSys
  | [], e, some f => some (e f)
  | [], _, none => none
  | op :: ops, e, f =>
    let pick (x : Char) : List Int := if x == 'B' then B else A
    match op.toList with
    | ['n', s, x] => (parseSlot s).bind fun S => intProg A B a ops (intStep cof e (.construct S (pick x))) f
    | ['t', s, x] => (parseSlot s).bind fun S => intProg A B a ops (intStep cof e (.construct S (pick x))) f
    | ['d', s] => (parseSlot s).bind fun S => intProg A B a ops (intStep cof e (.default S)) f
    | ['c', s, t] => (parseSlot s).bind fun S => (parseSlot t).bind fun T => intProg A B a ops (intStep cof e (.copyConstruct S T)) f
    | ['a', s, t] => (parseSlot s).bind fun S => (parseSlot t).bind fun T => intProg A B a ops (intStep cof e (.assign S T)) f
    | ['q', s] => (parseSlot s).bind fun S =>
        intProg A B a ops (intStep cof (intStep cof e (.toRns S a)) (.toRing S ((e S).toRns a))) f
    | ['k', s] => (parseSlot s).bind fun S => intProg A B a ops (intStep cof e (.reciprocals S)) f
    | ['m', s] => (parseSlot s).bind fun S => intProg A B a ops (intStep cof e (.product S)) f
    | ['f', s] => (parseSlot s).bind fun S => intProg A B a ops e (some S)
    | _ => none

private def rnsProg (A B : List Int) (a : Int) : List String → RnsEnv → Option Nat → Option RnsSys
  | [], e, some f => some (e f)
  | [], _, none => none
  | op :: ops, e, f =>
    let pick (x : Char) : List Int := if x == 'B' then B else A
    match op.toList with
    | ['n', s, x] => (parseSlot s).bind fun S => rnsProg A B a ops (rnsStep cof e (.construct S (pick x))) f
    | ['d', s] => (parseSlot s).bind fun S => rnsProg A B a ops (rnsStep cof e (.default S)) f
    | ['c', s, t] => (parseSlot s).bind fun S => (parseSlot t).bind fun T => rnsProg A B a ops (rnsStep cof e (.copyConstruct S T)) f
    | ['a', s, t] => (parseSlot s).bind fun S => (parseSlot t).bind fun T => rnsProg A B a ops (rnsStep cof e (.assign S T)) f
    | ['s', s, x] => (parseSlot s).bind fun S => rnsProg A B a ops (rnsStep cof e (.setPrimes S (pick x))) f
    | ['q', s] => (parseSlot s).bind fun S =>
        rnsProg A B a ops (rnsStep cof (rnsStep cof e (.toRns S a)) (.toRing S ((e S).toRns a))) f
    | ['k', s] => (parseSlot s).bind fun S => rnsProg A B a ops (rnsStep cof e (.reciprocals S)) f
    | ['f', s] => (parseSlot s).bind fun S => rnsProg A B a ops e (some S)
    | _ => none

/-- reciprocals are determined only modulo `p_k` for the Bezout cofactor of `mpz_gcdext` -/
private def ckEquiv (ps cm ci : List Int) : Bool :=
  cm.length == ci.length && ((ps.drop 1).zip (cm.zip ci)).all (fun x => (x.2.1 - x.2.2) % x.1 == 0)

private def sysLine (isInt isProg : Bool) (hist : String) (nums : List Int) (res : List Int) (line : String) : String :=
  match takeCounted nums with
  | none => "BAD args | " ++ line
  | some (A, rest) =>
    match takeCounted rest with
    | none => "BAD args | " ++ line
    | some (B, rest2) =>
      let n := A.length
      if rest2.length != n + 1 then "BAD args | " ++ line else
      let R := rest2.take n
      let a := rest2.getD n 0
      -- precondition of the property: non-empty list of pairwise coprime positive moduli, canonical residues
      let pre := n ≥ 1 && allPos A && allPos B && pairwiseCoprime A && pairwiseCoprime B && B.length ≥ 1 &&
        (if isInt then (match A, R with | p0 :: _, r0 :: _ => decide (0 ≤ r0) && decide (r0 < p0) | _, _ => false)
         else canonical A R && A.all (fun p => decide (2 ≤ p)) && B.all (fun p => decide (2 ≤ p)))
      if !pre then "PRE" else
      let expectLen := if isInt then 3 * n + 3 else 3 * n + 2
      if res.length != expectLen then "BAD result | " ++ line else
      let x := res.getD 0 0
      let ms := (res.drop 1).take n
      let cs := (res.drop (1 + n)).take (n - 1)
      let ts := (res.drop (2 * n)).take n
      let prodI := res.getD (3 * n) 0
      let y := res.getD (if isInt then 3 * n + 1 else 3 * n) 0
      -- accessor agreements (NumOfPrimes/size, Primes, ith, reciprocal, MixedRadixToRing, RnsToRing from another container):
      -- in the model these are projections of the state the other outputs are computed from, so every bit is expected
      let acc := res.getD (if isInt then 3 * n + 2 else 3 * n + 1) 0
      let accOk := acc == 63
      -- specification
      let M := prod A
      let specOk := accOk && crtChk A R x && digitsChk A ms x && ckChk A cs && residuesChk A a ts && y == a % M &&
        (if isInt then prodI == M else cs.all (fun c => decide (0 ≤ c)) && ((A.drop 1).zip cs).all (fun pc => decide (pc.2 < pc.1)))
      -- model
      if isInt then
        match (if isProg then intProg A B a (hist.splitOn ",") IntEnv.init none else intHist A B a hist.toList none) with
        | none => "BAD hist | " ++ line
        | some s =>
          if s.primes != A then "BAD hist-primes | " ++ line else
          let (s1, mx) := s.rnsToRing cof R
          let (s2, mm) := s1.rnsToMixedRadix cof R
          let (s3, mc) := s2.reciprocals cof
          let mt := s3.toRns a
          let (s4, mp) := s3.product
          let (_, my) := s4.rnsToRing cof mt
          let modelOk := mx == x && mm == ms && ckEquiv A (mc.drop 1) cs && mt == ts && mp == prodI && my == y
          verdict specOk modelOk s!"{hexInt mx} {showL mm} {showL (mc.drop 1)} {showL mt} {hexInt mp} {hexInt my}" line
      else
        match (if isProg then rnsProg A B a (hist.splitOn ",") RnsEnv.init none else rnsHist A B a hist.toList none) with
        | none => "BAD hist | " ++ line
        | some s =>
          if s.primes != A then "BAD hist-primes | " ++ line else
          let (s1, mx) := s.rnsToRing cof R
          let (s2, mm) := s1.rnsToMixedRadix cof R
          let (s3, mc) := s2.reciprocals cof
          let mt := s3.toRns a
          let (_, my) := s3.rnsToRing cof mt
          let modelOk := mx == x && mm == ms && mc.drop 1 == cs && mt == ts && my == y
          verdict specOk modelOk s!"{hexInt mx} {showL mm} {showL (mc.drop 1)} {showL mt} {hexInt my}" line

/-- history of an `RNSsystemFixed` object -/
private def fixedHist (A R : List Int) : List Char → Option FixedSys → Option FixedSys
  | [], s => s
  | op :: ops, s =>
    let next : Option FixedSys :=
      match op, s with
      | 'D', _ => some (FixedSys.ofPrimes cof A)
      | 'q', some c => some (c.rnsToRing cof R).1
      | 'A', some c => some (FixedSys.assign FixedSys.empty c)
      | 'C', some c => some c.copy
      | 'K', some c => some c
      | _, _ => none
    match next with
    | none => none
    | some n => fixedHist A R ops (some n)

/-- `L s_0 e.. s_1 e.. …` -/
private def parseLevels : Nat → List Int → Option (List (List Int) × List Int)
  | 0, rest => some ([], rest)
  | k + 1, rest =>
    match takeCounted rest with
    | none => none
    | some (lev, rest2) =>
      match parseLevels k rest2 with
      | none => none
      | some (levs, rest3) => some (lev :: levs, rest3)

private def fixedLine (hist : String) (nums res : List Int) (line : String) : String :=
  match takeCounted nums with
  | none => "BAD args | " ++ line
  | some (A, R) =>
    let n := A.length
    if R.length != n then "BAD args | " ++ line else
    if !(n ≥ 1 && allPos A && pairwiseCoprime A && canonical A R && A.all (fun p => decide (2 ≤ p))) then "PRE" else
    match res with
    | x :: nl :: rest =>
      if nl < 0 then "BAD result | " ++ line else
      match parseLevels nl.toNat rest with
      | none => "BAD result | " ++ line
      | some (tree, rest2) =>
        if rest2.length != n + 2 then "BAD result | " ++ line else
        let sz := rest2.getD 0 0
        let iths := (rest2.drop 1).take n
        let x' := rest2.getD (n + 1) 0
        match fixedHist A R hist.toList none with
        | none => "BAD hist | " ++ line
        | some s =>
          let mx := (s.rnsToRing cof R).2
          let mIth := (List.range n).map s.ith
          -- the property speaks about the conversion; the table, `size()` and `ith()` are compared with the model of the code
          -- (which returns the number of levels / the overwritten slots), and with the verified Garner conversion on the same input
          let gx := ((RnsSys.ofPrimes A).rnsToRing cof R).2
          let modelOk := mx == x && s.tree == tree && (s.size : Int) == sz && mIth == iths && gx == x
          verdict (crtChk A R x && x' == x) modelOk s!"{hexInt mx} size={s.size} tree={tree == s.tree}" line
    | _ => "BAD result | " ++ line

private def craLine (hist : String) (nums res : List Int) (line : String) : String :=
  match nums, res with
  | [M, d, A, e], [r1, r0] =>
    if !(decide (1 ≤ M) && decide (2 ≤ d) && Int.gcd M d == 1 && decide (0 ≤ e) && decide (e < d)) then "PRE" else
    if !(hist.toList.all (fun c => c == 'D' || c == 'C' || c == 'A' || c == 'q') && hist.toList.head? == some 'D') then "BAD hist | " ++ line else
    let c12 := craInit cof M d
    let m1 := craApply c12 d A e
    let m0 := craApplyNoReduce c12 A e
    verdict (craChk M d A e r1 && craChk M d A e r0) (m1 == r1 && m0 == r0) s!"{hexInt m1} {hexInt m0}" line
  | _, _ => "BAD args | " ++ line

private def pcrtLine (hist : String) (nums res : List Int) (line : String) : String :=
  match nums with
  | p :: rest =>
    match takeCounted rest with
    | none => "BAD args | " ++ line
    | some (as, rs) =>
      let n := as.length
      if rs.length != n then "BAD args | " ++ line else
      let Pm := as.map (fun _ => p)
      if !(n ≥ 1 && decide (2 ≤ p) && canonical Pm as && canonical Pm rs && distinctMod p as) then "PRE" else
      match takeCounted res with
      | none => "BAD result | " ++ line
      | some (P, tsAcc) =>
        if tsAcc.length != n + 1 then "BAD result | " ++ line else
        let ts := tsAcc.take n
        let accOk := tsAcc.getD n 0 == 63
        match polyHist p as rs hist.toList none with
        | none => "BAD hist | " ++ line
        | some s =>
          let (s1, mP) := s.rnsToRing cof rs
          let mN := polyNorm mP
          let mt := s1.toRns mP
          verdict (accOk && polyChk p as rs P && ts == rs) (mN == P && mt == ts) s!"{hexNat mN.length} {showL mN} {showL mt}" line
  | _ => "BAD args | " ++ line

/-- `prt.<dom> hist p n a.. k c.. = t.. k' c'..`: RingToRns of a polynomial, then RnsToRing -/
private def prtLine (hist : String) (nums res : List Int) (line : String) : String :=
  match nums with
  | p :: rest =>
    match takeCounted rest with
    | none => "BAD args | " ++ line
    | some (as, rest2) =>
      match takeCounted rest2 with
      | none => "BAD args | " ++ line
      | some (P, extra) =>
        let n := as.length
        if !extra.isEmpty then "BAD args | " ++ line else
        let Pm := as.map (fun _ => p)
        let Pk := P.map (fun _ => p)
        if !(n ≥ 1 && decide (2 ≤ p) && canonical Pm as && canonical Pk P && distinctMod p as) then "PRE" else
        if res.length < n + 1 then "BAD result | " ++ line else
        let ts := res.take n
        match takeCounted (res.drop n) with
        | none => "BAD result | " ++ line
        | some (Q, extra2) =>
          if !extra2.isEmpty then "BAD result | " ++ line else
          match polyHist p as ts hist.toList none with
          | none => "BAD hist | " ++ line
          | some s =>
            let mt := s.toRns P
            let (_, mQ) := s.rnsToRing cof mt
            let mN := polyNorm mQ
            -- specification: residues are the values of P; the polynomial returned interpolates them, has degree < n, and is P itself
            -- (normalised) whenever deg P < n
            let specOk := ts == as.map (evalRef p P) && polyChk p as ts Q && (if P.length ≤ n then Q == polyNorm P else true)
            verdict specOk (mt == ts && mN == Q) s!"{showL mt} {hexNat mN.length} {showL mN}" line
  | _ => "BAD args | " ++ line

def crtLine (line : String) : String :=
  match splitLine line with
  | none => "BAD empty"
  | some (key, args, res) =>
    match args with
    | [] => "BAD args | " ++ line
    | hist :: numArgs =>
      -- the harness runs cases in child processes: a crash / sanitizer abort is reported on the exact input line
      if res == ["CRASH"] then "DIFF kind=SPEC model=- implementation crashed or was aborted by a sanitizer | " ++ line.trimAscii.toString else
      if res == ["BADSTATE"] then "DIFF kind=SPEC model=- the final object does not hold the moduli list the program gave it | " ++ line.trimAscii.toString else
      match parseAll numArgs, parseAll res with
      | some nums, some rs =>
        if key == "irns" then sysLine true false hist nums rs line
        else if key.startsWith "rns." then sysLine false false hist nums rs line
        else if key == "mirns" then sysLine true true hist nums rs line
        else if key.startsWith "mrns." then sysLine false true hist nums rs line
        else if key.startsWith "prt." then prtLine hist nums rs line
        else if key == "fixed" then fixedLine hist nums rs line
        else if key.startsWith "cra." then craLine hist nums rs line
        else if key.startsWith "pcrt." then pcrtLine hist nums rs line
        else "BAD key | " ++ line
      | _, _ => "BAD parse | " ++ line

end Driver.CRT
