/- C05 driver: reads the lines of harness/h_gfq.cpp.  Stateful: a `fld` line carries the tables of a
   constructed field object (checked with `tablesValid`); the operation lines that follow name the field
   by its six-token descriptor and are evaluated with the Zech model on those tables (model) and with
   schoolbook arithmetic modulo the field's polynomial on p-adic codes (specification). -/
import Driver.Common
import GivaroModel.Model.Zech
import GivaroModel.Model.GFqExt
import GivaroModel.Model.GFqCtor
import GivaroModel.Model.GFqInit
import GivaroModel.Model.GFqKron
import GivaroModel.Model.GFqExtension
import GivaroModel.Prim.Word
import GivaroModel.Spec.GFqSpec
import GivaroModel.Spec.GFqExtSpec
-- @driver-mode-io gfq Driver.GFq.gfqMain
namespace Driver.GFq
open Driver
open Givaro Givaro.Model.Zech Givaro.Spec.GFq Givaro.Spec.GFqExt

structure FieldSt where
  key : String
  T : Tables
  dom : Dom
  /-- the word-level transcription with the conversion of the object's `TT` (int32_t / int64_t) -/
  wd : Word.WDom

def mkDom (T : Tables) : Dom := T.dom

/-- prime factors of `n` by trial division (specification side of the factor list `lowest_prim_root` works with) -/
def primeFactorsTD (n : Nat) : List Nat :=
  let rec go (fuel n d : Nat) (acc : List Nat) : List Nat :=
    match fuel with
    | 0 => acc
    | fuel + 1 =>
      if n ≤ 1 then acc
      else if d * d > n then n :: acc
      else if n % d == 0 then
        let rec strip (f m : Nat) : Nat := match f with
          | 0 => m
          | f + 1 => if m % d == 0 && m > 0 then strip f (m / d) else m
        go fuel (strip 64 n) (d + 1) (d :: acc)
      else go fuel n (d + 1) acc
  (go (n + 2) n 2 []).reverse

def splitBar (xs : List String) : List (List String) :=
  xs.foldr (fun s acc => if s == "|" then [] :: acc else
    match acc with
    | [] => [[s]]
    | h :: t => (s :: h) :: t) [[]]

def natsOf (xs : List String) : Option (List Nat) := xs.mapM parseHexNat

def cut (line : String) : String :=
  let l := line.trimAscii.toString
  if l.length > 400 then (l.take 400).toString ++ "…" else l

def diff (kind model line : String) : String := s!"DIFF kind={kind} model={model} | {cut line}"

/-- `fld T P K C Fc Gc = q char expo irred zero one mOne gen card size residu | log2pol | pol2log | plus1` -/
def handleFld (args res : List String) (line : String) : Option FieldSt × String :=
  let key := " ".intercalate args
  match splitBar res with
  | [hd, l2p, p2l, pl1] =>
    match parseAll hd, natsOf l2p, natsOf p2l, parseAll pl1, parseAll args with
    | some [q, char, expo, irred, zero, one, mOne, gen, card, size, residu], some l2p, some p2l, some pl1, some [_, p, k, _, _, _] =>
      let F : Field := { p := char.toNat, k := expo.toNat, irred := irred.toNat }
      let T : Tables := { F := F, mOne := mOne, log2pol := l2p.toArray, pol2log := p2l.toArray, plus1 := pl1.toArray }
      let wconv : Int → Int := if key.startsWith "20 " then wrapS32 else wrapS64
      let st : FieldSt := { key := key, T := T, dom := mkDom T, wd := { F := mkDom T, w := wconv } }
      let pk : Int := (p.toNat ^ k.toNat : Nat)
      let metaOk := char == p && expo == k && q == pk && card == pk && size == pk && residu == pk &&
        zero == 0 && one == pk - 1 && gen == (T.l2p 1 : Nat) &&
        -- mOne is the element whose polynomial is -1, i.e. the code p-1
        (T.l2p mOne.toNat : Int) == p - 1 &&
        (k == 1 || (irred.toNat / p.toNat ^ k.toNat == 1))
      let tabOk := T.tablesValid
      -- for small fields, an independent test that the quotient is a field (the modulus is irreducible)
      let irrOk := if k.toNat ≥ 2 && pk ≤ 128 then allInvertible F else true
      -- model of the constructors' table fill (Model/GFqCtor.lean), run on the modulus and generator the object reports
      let M := Givaro.Model.GFqCtor.construct F (T.l2p 1)
      -- for the automatic prime-field constructor also the generator search (`lowest_prim_root`, Model/GFqCtor.lean)
      let seedOk := if k == 1 && args.getD 3 "" == "0" && p.toNat ≤ 70000 then
          Givaro.Model.GFqCtor.lowestPrimRoot p.toNat (p.toNat - 1) (primeFactorsTD (p.toNat - 1)) == T.l2p 1
        else true
      let modelOk := M.log2pol == T.log2pol && M.pol2log == T.pol2log && M.plus1 == T.plus1 && M.mOne == T.mOne && seedOk
      let specOk := metaOk && tabOk && irrOk
      if specOk && modelOk then (some st, "OK")
      else (some st, diff (if !specOk && !modelOk then "BOTH" else if !specOk then "SPEC" else "MODEL")
        s!"meta={metaOk},tablesValid={tabOk},chain={T.chainOk},bij={T.bijOk},plus1={T.plus1Ok},irreducible={irrOk},constructModel={modelOk}" line)
    | _, _, _, _, _ => (none, "BAD fld numbers | " ++ cut line)
  | _ => (none, "BAD fld shape | " ++ cut line)

/-- the eighteen scalar member functions at `(a, b, c)`: (name, model, spec check of an output `r`, applicable) -/
def scalarTable (st : FieldSt) (a b c : Int) : List (String × Int × (Int → Bool) × Bool) :=
  let D := st.dom
  let T := st.T
  let F := T.F
  let A := T.l2p a.toNat; let B := T.l2p b.toNat; let C := T.l2p c.toNat
  let is (x : Nat) : Int → Bool := fun r => T.l2p r.toNat == x
  let ab := F.cmul A B
  [ ("mul", D.mul a b, is ab, true),
    ("mulin", D.mulin a b, is ab, true),
    ("div", D.div a b, (fun r => F.cmul (T.l2p r.toNat) B == A), b != 0),
    ("divin", D.divin a b, (fun r => F.cmul (T.l2p r.toNat) B == A), b != 0),
    ("add", D.add a b, is (F.cadd A B), true),
    ("addin", D.addin a b, is (F.cadd A B), true),
    ("sub", D.sub a b, is (F.csub A B), true),
    ("subin", D.subin a b, is (F.csub A B), true),
    ("neg", D.neg a, is (F.cneg A), true),
    ("negin", D.negin a, is (F.cneg A), true),
    ("inv", D.inv a, (fun r => F.cmul (T.l2p r.toNat) A == 1 % F.q), a != 0),
    ("invin", D.invin a, (fun r => F.cmul (T.l2p r.toNat) A == 1 % F.q), a != 0),
    ("axpy", D.axpy a b c, is (F.cadd ab C), true),
    ("axpyin", D.axpyin c a b, is (F.cadd C ab), true),
    ("maxpyin", D.maxpyin c a b, is (F.csub C ab), true),
    ("axmyin", D.axmyin c a b, is (F.csub ab C), true),
    ("axmy", D.axmy a b c, is (F.csub ab C), true),
    ("maxpy", D.maxpy a b c, is (F.csub C ab), true) ]

/-- the same eighteen functions in the word-level model, in the order of `scalarTable` -/
def wordTable (st : FieldSt) (a b c : Int) : List Int :=
  let D := st.wd
  [D.mul a b, D.mulin a b, D.div a b, D.divin a b, D.add a b, D.addin a b, D.sub a b, D.subin a b, D.neg a, D.negin a,
   D.inv a, D.invin a, D.axpy a b c, D.axpyin c a b, D.maxpyin c a b, D.axmyin c a b, D.axmy a b c, D.maxpy a b c]

def canon (st : FieldSt) (x : Int) : Bool := 0 ≤ x && x < (st.T.q : Int)

def handleOps (st : FieldSt) (rest res : List String) (line : String) : String :=
  match parseAll rest, parseAll res with
  | some [a, b, c], some rs =>
    if !(canon st a && canon st b && canon st c) then "PRE" else
    let tab := scalarTable st a b c
    if rs.length != tab.length then "BAD ops count | " ++ cut line else
    -- the word-level model is evaluated on every line of the large fields (where a too narrow word would show) and on a
    -- quarter of the others; elsewhere it is replaced by the implementation's own outputs (trivially equal)
    let wt := if st.T.q ≥ 4096 || (a + b + c) % 4 == 0 then wordTable st a b c else rs
    let bad := ((tab.zip wt).zip rs).filterMap (fun (((name, m, chk, app), wm), r) =>
      if !app then none else
      let specOk := canon st r && chk r
      let modelOk := m == r && wm == r
      if specOk && modelOk then none else some (name, specOk, modelOk, m))
    if bad.isEmpty then "OK" else
    let anySpec := bad.any (fun (_, s, _, _) => !s)
    let anyModel := bad.any (fun (_, _, m, _) => !m)
    let kind := if anySpec && anyModel then "BOTH" else if anySpec then "SPEC" else "MODEL"
    diff kind (" ".intercalate (bad.map (fun (n, s, m, v) => s!"{n}:spec={s},model={m},modelval={hexInt v}"))) line
  | _, _ => "BAD ops numbers | " ++ cut line

def fn (l : List Int) : Nat → Int := let a := l.toArray; fun i => a.getD i 0

/-- array member functions: name ↦ (model result as function, per-index spec, precondition) -/
def handleArr (st : FieldSt) (rest res : List String) (line : String) : String :=
  match rest with
  | op :: nums =>
    match parseAll nums with
    | some (sz :: s :: s2 :: arrs) =>
      let n := sz.toNat
      if arrs.length != 3 * n then "BAD arr length | " ++ cut line else
      let X := arrs.take n; let Y := (arrs.drop n).take n; let R0 := arrs.drop (2 * n)
      if !((s :: s2 :: arrs).all (canon st)) then "PRE" else
      let D := st.dom
      let x := fn X; let y := fn Y; let r0 := fn R0
      -- (model, scalar operands of the specification at index i : (opname, a, b, c), precondition)
      let sel : Option ((Nat → Int) × (Nat → String × Int × Int × Int) × Bool) :=
        match op with
        | "mulVV" => some (D.mulVV n r0 x y, (fun i => ("mul", x i, y i, 0)), true)
        | "mulVS" => some (D.mulVS n r0 x s, (fun i => ("mul", x i, s, 0)), true)
        | "divVV" => some (D.divVV n r0 x y, (fun i => ("div", x i, y i, 0)), Y.all (· != 0))
        | "divVS" => some (D.divVS n r0 x s, (fun i => ("div", x i, s, 0)), s != 0)
        | "addVV" => some (D.addVV n r0 x y, (fun i => ("add", x i, y i, 0)), true)
        | "addVS" => some (D.addVS n r0 x s, (fun i => ("add", x i, s, 0)), true)
        | "subVV" => some (D.subVV n r0 x y, (fun i => ("sub", x i, y i, 0)), true)
        | "subVS" => some (D.subVS n r0 x s, (fun i => ("sub", x i, s, 0)), true)
        | "negV" => some (D.negV n r0 x, (fun i => ("neg", x i, 0, 0)), true)
        | "invV" => some (D.invV n r0 x, (fun i => ("inv", x i, 0, 0)), X.all (· != 0))
        | "axpyVV" => some (D.axpyVV n r0 s x y, (fun i => ("axpy", s, x i, y i)), true)
        | "axpyVS" => some (D.axpyVS n r0 s x s2, (fun i => ("axpy", s, x i, s2)), true)
        | "axpyinV" => some (D.axpyinV n r0 s x, (fun i => ("axpyin", s, x i, r0 i)), true)
        | "axmyVV" => some (D.axmyVV n r0 s x y, (fun i => ("axmy", s, x i, y i)), true)
        | "axmyVS" => some (D.axmyVS n r0 s x s2, (fun i => ("axmy", s, x i, s2)), true)
        | "maxpyinV" => some (D.maxpyinV n r0 s x, (fun i => ("maxpyin", s, x i, r0 i)), true)
        | _ => none
      match sel with
      | none => "BAD arr op | " ++ cut line
      | some (m, spec, pre) =>
        if !pre then "PRE" else
        let mvals := (List.range n).map m
        let mstr := " ".intercalate (mvals.map hexInt)
        if res == ["CRASH"] then diff "BOTH" mstr line else
        match parseAll res with
        | none => "BAD arr result | " ++ cut line
        | some out =>
          if out.length != n then diff "BOTH" mstr line else
          let specOk := (List.range n).all (fun i =>
            let (name, a, b, c) := spec i
            let r := out.getD i 0
            match (scalarTable st a b c).find? (fun e => e.1 == name) with
            | some (_, _, chk, _) => canon st r && chk r
            | none => false)
          let modelOk := mvals == out
          if specOk && modelOk then "OK"
          else diff (if !specOk && !modelOk then "BOTH" else if !specOk then "SPEC" else "MODEL") mstr line
    | _ => "BAD arr numbers | " ++ cut line
  | [] => "BAD arr empty | " ++ cut line

/-- `dot fs sz X.. Y.. = r` -/
def handleDot (st : FieldSt) (rest res : List String) (line : String) : String :=
  match parseAll rest, res with
  | some (sz :: arrs), res =>
    let n := sz.toNat
    if arrs.length != 2 * n then "BAD dot length | " ++ cut line else
    if !(arrs.all (canon st)) then "PRE" else
    let X := arrs.take n; let Y := arrs.drop n
    let T := st.T
    let want := (X.zip Y).foldl (fun acc (a, b) => T.F.cadd acc (T.F.cmul (T.l2p a.toNat) (T.l2p b.toNat))) 0
    let m := st.dom.dotprod n (fn X) (fn Y)
    let mstr := match m with | some v => hexInt v | none => "RUNS-OFF"
    if res == ["CRASH"] then diff "BOTH" mstr line else
    match parseAll res with
    | some [r] =>
      let specOk := canon st r && T.l2p r.toNat == want
      let modelOk := m == some r
      if specOk && modelOk then "OK"
      else diff (if !specOk && !modelOk then "BOTH" else if !specOk then "SPEC" else "MODEL") mstr line
    | _ => "BAD dot result | " ++ cut line
  | _, _ => "BAD dot numbers | " ++ cut line

def b2i (b : Bool) : Int := if b then 1 else 0

/-- `gf2 a b c = 12 results (Element& forms) 12 results (BitReference forms) card char` -/
def handleGF2 (args res : List String) (line : String) : String :=
  match parseAll args, parseAll res with
  | some [a, b, c], some rs =>
    let A := a != 0; let B := b != 0; let C := c != 0
    let m2 (x : Int) : Int := x % 2
    -- specification: arithmetic of Z/2 on {0,1}
    let spec : List Int := [m2 (a + b), m2 (a - b), m2 (a * b), a, m2 (-a), a,
      m2 (a * b + c), m2 (a * b - c), m2 (c - a * b), m2 (c + a * b), m2 (a * b - c), m2 (c - a * b)]
    let pre : List Bool := [true, true, true, B, true, A, true, true, true, true, true, true]
    let model : List Int := [GF2.add A B, GF2.sub A B, GF2.mul A B, GF2.div A B, GF2.neg A, GF2.inv A,
      GF2.axpy A B C, GF2.axmy A B C, GF2.maxpy A B C, GF2.axpyin C A B, GF2.axmyin C A B, GF2.maxpyin C A B].map b2i
    if rs.length != 26 then "BAD gf2 count | " ++ line else
    let chk (out : List Int) : Bool × Bool :=
      let z := (out.zip (spec.zip (model.zip pre)))
      (z.all (fun (r, s, _, p) => !p || r == s), z.all (fun (r, _, m, p) => !p || r == m))
    let (s1, m1) := chk (rs.take 12)
    let (s2, m2') := chk ((rs.drop 12).take 12)
    let metaOk := rs.drop 24 == [2, 2]
    let specOk := s1 && s2 && metaOk
    let modelOk := m1 && m2'
    if specOk && modelOk then "OK"
    else diff (if !specOk && !modelOk then "BOTH" else if !specOk then "SPEC" else "MODEL") (" ".intercalate (model.map hexInt)) line
  | _, _ => "BAD gf2 numbers | " ++ line


/-- read `n x_1 … x_n` groups -/
def readGroups : Nat → List Nat → Option (List (List Nat))
  | _, [] => some []
  | 0, _ => none
  | fuel + 1, n :: rest => if rest.length < n then none else
      (readGroups fuel (rest.drop n)).map (fun gs => rest.take n :: gs)

/-- `ext P Kb Fb E | f | a | b | c = card char expo | 18 results` (polynomials as `n c_0 … c_{n-1}`, coefficients = p-adic
    codes of base-field elements).  Specification only: schoolbook arithmetic of (F_p[X]/(g))[Y]/(f). -/
def handleExt (args res : List String) (line : String) : String :=
  match natsOf args, natsOf res with
  | some (p :: kb :: fb :: e :: ops), some (card :: char :: expo :: outs) =>
    match readGroups (ops.length + 1) ops, readGroups (outs.length + 1) outs with
    | some [f, a, b, c], some rs =>
      let B : Field := { p := p, k := kb, irred := fb }
      let E : Ext := { B := B, f := f, e := e }
      if !(E.isElt a && E.isElt b && E.isElt c) then "PRE" else
      if rs.length != 18 then "BAD ext count | " ++ cut line else
      let a := pnorm a; let b := pnorm b; let c := pnorm c
      let ab := E.mul a b
      let one := if e == 0 then [] else [1 % B.q]
      let az := a.isEmpty; let bz := b.isEmpty
      -- (name, check, applicable)
      let want : List (String × (List Nat → Bool) × Bool) := [
        ("add", (· == E.add a b), true), ("sub", (· == E.sub a b), true), ("neg", (· == E.neg a), true),
        ("mul", (· == ab), true), ("inv", (fun r => E.mul r a == one), !az), ("div", (fun r => E.mul r b == a), !bz),
        ("axpy", (· == E.add ab c), true), ("maxpy", (· == E.sub c ab), true), ("axmy", (· == E.sub ab c), true),
        ("addin", (· == E.add a b), true), ("subin", (· == E.sub a b), true), ("negin", (· == E.neg a), true),
        ("mulin", (· == ab), true), ("invin", (fun r => E.mul r a == one), !az), ("divin", (fun r => E.mul r b == a), !bz),
        ("axpyin", (· == E.add c ab), true), ("maxpyin", (· == E.sub c ab), true), ("axmyin", (· == E.sub ab c), true)]
      let bad := (want.zip rs).filterMap (fun ((name, chk, app), r) =>
        if !app then none else if E.isElt r && chk (pnorm r) then none else some name)
      -- model: the compositions of extension.h (Model/GFqExtension.lean) over coefficient-list `Poly1Dom` operations
      let P : Givaro.Model.GFqExtension.PolyOps (List Nat) :=
        { add := padd B, sub := psub B, neg := pneg B, mul := pmul B, modin := fun a g => pmod B a g,
          invmod := fun a g => pinvmod B a g, maxpy := fun a b c => psub B c (pmul B a b) }
      let M : Givaro.Model.GFqExtension.Ext (List Nat) := { pD := P, irred := f }
      let model : List (List Nat) := [M.add a b, M.sub a b, M.neg a, M.mul a b, M.inv a, M.div a b, M.axpy a b c, M.maxpy a b c,
        M.axmy a b c, M.addin a b, M.subin a b, M.negin a, M.mulin a b, M.invin a, M.divin a b, M.axpyin c a b,
        M.maxpyin c a b, M.axmyin c a b]
      let apps := want.map (fun (_, _, app) => app)
      let badModel := ((want.zip apps).zip (model.zip rs)).filterMap (fun (((name, _, _), app), (m, r)) =>
        if !app then none else if pnorm m == pnorm r then none else some name)
      let metaOk := card == p ^ (kb * e) && char == p && expo == kb * e && (pnorm f).length == e + 1
      -- the stored modulus is irreducible: checked through the inverse of every generated non-zero operand above, and
      -- for small fields by exhaustion in the harness' operand set
      let specOk := bad.isEmpty && metaOk
      let modelOk := badModel.isEmpty
      if specOk && modelOk then "OK"
      else diff (if !specOk && !modelOk then "BOTH" else if !specOk then "SPEC" else "MODEL")
        (s!"meta={metaOk} spec:" ++ " ".intercalate bad ++ " model:" ++ " ".intercalate badModel) line
    | _, _ => "BAD ext groups | " ++ cut line
  | _, _ => "BAD ext numbers | " ++ cut line

/-- GFqExt / GFqExtFast q-adic conversions (gfqext.h) and GFqKronecker conversions (gfqkronecker.h); `w` = 53 or 64:
      `… P K irred conv a = bits d code`            d = convert(d, a), code = the object's p-adic code of a
      `… P K irred init bits c_0 … c_m = code`      code of init(Σ c_i 2^(bits·i))
    specification (the packing): `bits = w / (2K-1)`, `d = Σ coeff_i(a)·2^(bits·i)`, and `init` yields the element
    `Σ (c_i mod p) X^i mod f`. -/
def handlePack (w : Nat) (args res : List String) (line : String) : String :=
  if res == ["NOBUILD"] then diff "SPEC" "the header of this field does not compile against the tree" line else
  match args with
  | p :: k :: irred :: op :: rest =>
    match natsOf [p, k, irred], natsOf rest, natsOf res with
    | some [p, k, irred], some rest, some res =>
      let wantBits := w / (2 * k - 1)
      if op == "conv" then
        match rest, res with
        | [_], [bits, d, code] =>
          if bits == wantBits && code < p ^ k && d == evalAt (2 ^ bits) (digits p k code) then "OK"
          else diff "SPEC" s!"bits={wantBits} d={hexNat (evalAt (2 ^ bits) (digits p k code))}" line
        | _, _ => "BAD pack conv | " ++ cut line
      else if op == "init" || op == "initd" then
        match rest, res with
        | bits :: cs, [code] =>
          let B : Field := { p := p, k := 1, irred := 0 }
          let f := digits p (k + 1) irred
          let want := pmod B (cs.map (· % p)) f
          let got := pnorm (digits p k code)
          -- model: GFqExtFast::init is the packing itself; GFqExt::init first reduces d (Model/GFqExt.lean)
          let model :=
            if op == "initd" then
              let d := evalAt (2 ^ bits) cs
              pmod B ((Givaro.Model.GFqExt.qadicDigits k (Givaro.Model.GFqExt.defensiveArg p k d)).map (· % p)) f
            else want
          let specOk := bits == wantBits && code < p ^ k && got == want
          let modelOk := got == model
          if specOk && modelOk then "OK"
          else diff (if !specOk && !modelOk then "BOTH" else if !specOk then "SPEC" else "MODEL")
            ("bits=" ++ toString wantBits ++ " want=" ++ " ".intercalate (want.map hexNat) ++ " model=" ++ " ".intercalate (model.map hexNat)) line
        | _, _ => "BAD pack init | " ++ cut line
      else "BAD pack op | " ++ cut line
    | _, _, _ => "BAD pack numbers | " ++ cut line
  | _ => "BAD pack | " ++ cut line


/-- `vin fs n c_0 … c_{n-1} = r` — `GFqDom::init(Rep&, const Vector&)`; model `Model/GFqInit.lean` (with `Pdom.mod` = the
    remainder modulo the reported polynomial), specification: the polynomial of `r` is `Σ c_i X^i mod f` -/
def handleVin (st : FieldSt) (rest res : List String) (line : String) : String :=
  match natsOf rest with
  | some (n :: cs) =>
    if cs.length != n then "BAD vin length | " ++ cut line else
    let T := st.T
    let F := T.F
    if !(cs.all (· < F.p)) || F.k < 2 then "PRE" else
    let B : Field := { p := F.p, k := 1, irred := 0 }
    let f := digits F.p (F.k + 1) F.irred
    let modF : List Nat → List Nat := fun a => let r := pmod B a f; r ++ List.replicate (F.k - r.length) 0
    let want := undigits F.p (modF cs)
    let m := Givaro.Model.GFqInit.initVec T modF cs
    let mstr := match m with | some v => hexNat v | none => "OUT-OF-TABLE"
    match parseAll res with
    | some [r] =>
      let specOk := canon st r && T.l2p r.toNat == want
      let modelOk := m == some r.toNat
      if specOk && modelOk then "OK"
      else diff (if !specOk && !modelOk then "BOTH" else if !specOk then "SPEC" else "MODEL") mstr line
    | _ => "BAD vin result | " ++ cut line
  | _ => "BAD vin numbers | " ++ cut line

/-- `krh P K irred nops (0 i | 1 n)… n a_1 b_1 … = shift maxn acc code expected` — GFqKronecker history; model: the state
    machine of `Model/GFqKron.lean`; specification: `init(Σ convert(a_t)·convert(b_t))` is the dot product `Σ a_t b_t` of the
    field whenever `n ≤ getMaxn()` -/
def handleKrh (args res : List String) (line : String) : String :=
  if res == ["NOBUILD"] then diff "SPEC" "the header of this field does not compile against the tree" line else
  match natsOf args, natsOf res with
  | some (p :: k :: irred :: nops :: rest), some [shift, maxn, acc, code, expd] =>
    if rest.length < 2 * nops + 1 then "BAD krh shape | " ++ cut line else
    let opsRaw := rest.take (2 * nops)
    let n := rest.getD (2 * nops) 0
    let ab := rest.drop (2 * nops + 1)
    if ab.length != 2 * n then "BAD krh operands | " ++ cut line else
    let rec mkOps : List Nat → List Givaro.Model.GFqKron.Op
      | t :: v :: more => (if t == 0 then .shift v else .maxn v) :: mkOps more
      | _ => []
    let s := Givaro.Model.GFqKron.run (Givaro.Model.GFqKron.ctor p k) (mkOps opsRaw)
    let F : Field := { p := p, k := k, irred := irred }
    let rec pairs : List Nat → List (Nat × Nat)
      | a :: b :: more => (a, b) :: pairs more
      | _ => []
    let ps := pairs ab
    if !(ab.all (· < F.q)) then "PRE" else
    if n > s.maxn then "PRE" else
    let macc := ps.foldl (fun t (a, b) =>
      t + Givaro.Model.GFqKron.convert s (digits p k a) * Givaro.Model.GFqKron.convert s (digits p k b)) 0
    let B : Field := { p := p, k := 1, irred := 0 }
    let f := digits p (k + 1) irred
    let red := pmod B (Givaro.Model.GFqKron.unpack s macc) f
    let mcode := undigits p red
    let want := ps.foldl (fun t (a, b) => F.cadd t (F.cmul a b)) 0
    let modelOk := s.shift == shift && s.maxn == maxn && macc == acc && mcode == code
    let specOk := code == want && expd == want
    if specOk && modelOk then "OK"
    else diff (if !specOk && !modelOk then "BOTH" else if !specOk then "SPEC" else "MODEL")
      s!"shift={s.shift},maxn={s.maxn},mask={hexNat s.mask},acc={hexNat macc},code={hexNat mcode},want={hexNat want}" line
  | _, _ => "BAD krh numbers | " ++ cut line


/-- `exm T P Kb E E2 = card char exponent order` — meta data of `Extension<GFqDom<T>>(GFqDom<T>(P,Kb), E)` (and a second
    extension of degree `E2` on top when `E2 > 1`); model `extMeta`, specification `p^(Kb·E·E2), p, Kb·E·E2, last degree` -/
def handleExm (args res : List String) (line : String) : String :=
  match natsOf args, natsOf res with
  | some [_, p, kb, e, e2], some [card, ch, ex, od] =>
    let base : Givaro.Model.GFqExtension.FieldMeta := { card := p ^ kb, char := p, expo := kb }
    let (m1, o1) := Givaro.Model.GFqExtension.extMeta base e
    let (m, o) := if e2 > 1 then Givaro.Model.GFqExtension.extMeta m1 e2 else (m1, o1)
    let tot := kb * e * (if e2 > 1 then e2 else 1)
    let specOk := card == p ^ tot && ch == p && ex == tot && od == (if e2 > 1 then e2 else e)
    let modelOk := card == m.card && ch == m.char && ex == m.expo && od == o
    if specOk && modelOk then "OK"
    else diff (if !specOk && !modelOk then "BOTH" else if !specOk then "SPEC" else "MODEL")
      s!"card={hexNat m.card},char={hexNat m.char},exponent={hexNat m.expo},order={hexNat o}" line
  | _, _ => "BAD exm numbers | " ++ cut line

/-- `exi P Kb Fb E nf f… = 1` — the modulus an `Extension` object chose, re-checked with Ben-Or's test -/
def handleExi (args : List String) (line : String) : String :=
  match natsOf args with
  | some (p :: kb :: fb :: e :: nf :: f) =>
    if f.length != nf then "BAD exi shape | " ++ cut line else
    let B : Field := { p := p, k := kb, irred := fb }
    if (pnorm f).length == e + 1 && isIrreducible B f then "OK"
    else diff "SPEC" "the stored modulus is not irreducible of the advertised degree" line
  | _ => "BAD exi numbers | " ++ cut line

/-- `qdt T P K irred n a_1 b_1 … = bits maxdot d code expected` — GFqExt: `GFqExtFast::init` of the accumulated double
    `Σ convert(a_t)·convert(b_t)`; model: the q-adic packing (`Model/GFqExt.lean`), specification: the field dot product,
    for `n ≤ maxdot()` -/
def handleQdt (args res : List String) (line : String) : String :=
  match natsOf args, natsOf res with
  | some (_ :: p :: k :: irred :: n :: ab), some [bits, maxdot, d, code, expd] =>
    if ab.length != 2 * n then "BAD qdt operands | " ++ cut line else
    let F : Field := { p := p, k := k, irred := irred }
    if !(ab.all (· < F.q)) || n > maxdot then "PRE" else
    let rec pairs : List Nat → List (Nat × Nat)
      | a :: b :: more => (a, b) :: pairs more
      | _ => []
    let ps := pairs ab
    let base := 2 ^ bits
    let md := ps.foldl (fun t (a, b) => t + evalAt base (digits p k a) * evalAt base (digits p k b)) 0
    let B : Field := { p := p, k := 1, irred := 0 }
    let f := digits p (k + 1) irred
    let mcode := undigits p (pmod B ((Givaro.Model.GFqExt.qadicDigits k md).map (· % p)) f)
    let want := ps.foldl (fun t (a, b) => F.cadd t (F.cmul a b)) 0
    let modelOk := bits == Givaro.Model.GFqExt.bits k && maxdot == Givaro.Model.GFqExt.maxdot p k && md == d && mcode == code
    let specOk := code == want && expd == want
    if specOk && modelOk then "OK"
    else diff (if !specOk && !modelOk then "BOTH" else if !specOk then "SPEC" else "MODEL")
      s!"d={hexNat md},code={hexNat mcode},want={hexNat want}" line
  | _, _ => "BAD qdt numbers | " ++ cut line

def lookup (key : String) : List FieldSt → Option FieldSt
  | [] => none
  | f :: fs => if f.key == key then some f else lookup key fs

partial def gfqLoop (h : IO.FS.Stream) (fields : List FieldSt) : IO Unit := do
  let line ← h.getLine
  if line.isEmpty then return ()
  match splitLine line with
  | none => IO.println "BAD empty"; gfqLoop h fields
  | some (kind, args, res) =>
    if res == ["CRASH"] && kind != "arr" then
      IO.println (diff "SPEC" "the library crashed (sanitizer abort or fatal signal) or did not return (watchdog) in this call" line); gfqLoop h fields
    else if kind == "fld" then
      let (st, v) := handleFld args res line
      IO.println v
      match st with
      | some s => gfqLoop h (s :: (fields.filter (fun f => f.key != s.key)).take 8)
      | none => gfqLoop h fields
    else if kind == "gf2" then
      IO.println (handleGF2 args res line); gfqLoop h fields
    else if kind == "ext" then
      IO.println (handleExt args res line); gfqLoop h fields
    else if kind == "qad" then
      IO.println (handlePack 53 (args.drop 1) res line); gfqLoop h fields
    else if kind == "exm" then
      IO.println (handleExm args res line); gfqLoop h fields
    else if kind == "exi" then
      IO.println (handleExi args line); gfqLoop h fields
    else if kind == "qdt" then
      IO.println (handleQdt args res line); gfqLoop h fields
    else if kind == "krh" then
      IO.println (handleKrh args res line); gfqLoop h fields
    else if kind == "kro" then
      IO.println (handlePack 64 args res line); gfqLoop h fields
    else
      let key := " ".intercalate (args.take 6)
      match lookup key fields with
      | none => IO.println ("BAD unknown field | " ++ cut line); gfqLoop h fields
      | some st =>
        let rest := args.drop 6
        let v := if kind == "ops" then handleOps st rest res line
                 else if kind == "arr" then handleArr st rest res line
                 else if kind == "dot" then handleDot st rest res line
                 else if kind == "vin" then handleVin st rest res line
                 else "BAD kind | " ++ cut line
        IO.println v
        gfqLoop h fields

def gfqMain (h : IO.FS.Stream) : IO Unit := gfqLoop h []

end Driver.GFq
