/- C17 driver: evaluates the Array0 / FreeList / Leak models and the value-semantics specification on every line
   produced by harness/h_array.cpp. -/
import Driver.Common
import GivaroModel.Model.Array0
import GivaroModel.Model.FreeList
import GivaroModel.Model.Leak
import GivaroModel.Model.RefPtr
import GivaroModel.Model.RefPtrArray0
import GivaroModel.Spec.Array0Spec
import GivaroModel.Model.Array0ToV
import GivaroModel.Model.Array0Pool
-- @driver-mode array Driver.Array.arrayLine
namespace Driver.Array
open Driver
open Givaro.Model Givaro.Spec

def dotFields (tok : String) : Option (String × List Nat) :=
  match tok.splitOn "." with
  | [] => none
  | k :: rest => (rest.mapM parseHexNat).map (fun xs => (k, xs))

def bigUnit : Int := 1208925819614629174706177      -- 2^80 + 1

/-- element value denoted by the token value `v` for element type `T` -/
def elt (T : String) (v : Nat) : Int := if T == "Z" then (v : Int) * bigUnit else (v : Int)

def parseHistOp (T : String) (tok : String) : Option (Array0.Op Int × Array0Spec.AOp Int) :=
  match dotFields tok with
  | some ("B", [h, s, t]) => some (.build h s (elt T t), .build h s (elt T t))
  | some ("N", [h, g]) => some (.noCopy h g, .share h g)
  | some ("C", [h, g]) => some (.withCopy h g, .valueCopy h g)
  | some ("D", [h]) => some (.destroy h, .destroy h)
  | some ("A", [h, s]) => some (.allocate h s, .allocate h s)
  | some ("R", [h, s]) => some (.resize h s, .resize h s)
  | some ("V", [h, s]) => some (.reserve h s, .reserve h s)
  | some ("P", [h, v]) => some (.pushBack h (elt T v), .pushBack h (elt T v))
  | some ("Q", [h, i]) => some (.pushBackSelf h i, .pushBackSelf h i)
  | some ("W", [h, i, v]) => some (.write h i (elt T v), .write h i (elt T v))
  | some ("Y", [h, g]) => some (.copy h g, .copy h g)
  | some ("L", [h, g]) => some (.logcopy h g, .share h g)
  | some ("E", [h, g]) => some (.assign h g, .copy h g)
  | _ => none

def showCells (l : List Int) : String := if l.isEmpty then "-" else String.intercalate "," (l.map hexInt)

/-- what the harness prints for handle `h` of the composed model (Array0 over the pool): size, capacity, counter, lowest
    aliasing handle, contents, and the class indices found in the headers of the data block and of the counter block -/
def showHandle (p : Array0Pool.PState Int) (h : Nat) : String :=
  let s := p.arr
  let H := s.hs h
  let cnt := match H.cnt with | none => "-" | some c => hexInt (s.cval c)
  let sh := if H.psz = 0 then "-" else
    match (List.range (h + 1)).find? (fun g => (s.hs g).psz != 0 && (s.hs g).d == H.d) with
    | some g => hexNat g | none => "?"
  let cls (slot : Option Nat) : String := match slot with
    | none => "-"
    | some k => match p.pool.slot k with | some pb => hexNat (p.pool.pool.idx pb) | none => "?"
  let kd := cls (if H.psz = 0 then none else H.d.map Array0Pool.keyD)
  let kc := cls (if H.psz = 0 then none else H.cnt.map Array0Pool.keyC)
  s!"{hexNat H.size}.{hexNat H.psz}.{cnt}.{sh}.{showCells (Array0.contents s h)}.{kd}.{kc}"

def showState (p : Array0Pool.PState Int) : String :=
  if p.arr.fault then "X:model-fault" else
  hexNat (Array0.leaked p.arr) ++ ":" ++ String.intercalate "|" ((List.range p.arr.n).map (showHandle p))

/-- the same observations computed from the value-semantics machine alone (no counters, no capacity field, no pool):
    capacity = retained cells of the group, counter = members of the group -/
def showV (a : Array0Spec.VState Int) : String :=
  "0:" ++ String.intercalate "|" ((List.range a.n).map (fun h =>
    let H := a.hs h
    match H.grp with
    | none => "0.0.-.-.-"
    | some g =>
      let sh := match (List.range (h + 1)).find? (fun k => (a.hs k).grp == some g) with | some k => hexNat k | none => "?"
      s!"{hexNat H.size}.{hexNat (a.cells g).length}.{hexNat (Array0Spec.vmembers a g)}.{sh}.{showCells (Array0Spec.vvalue a h)}"))

/-- an observation without the two class-index fields of each handle -/
def dropClasses (o : String) : String :=
  match o.splitOn ":" with
  | [leak, rest] =>
    leak ++ ":" ++ String.intercalate "|" ((rest.splitOn "|").map (fun t => String.intercalate "." ((t.splitOn ".").take 5)))
  | _ => o

structure HObs where
  size : Nat
  cnt : Option Int
  share : Option Nat
  cells : List Int

def parseHandleObs (t : String) : Option HObs :=
  match t.splitOn "." with
  | [sz, _psz, cnt, sh, cells, _kd, _kc] => do
    let size ← parseHexNat sz
    let cnt ← if cnt == "-" then some none else (parseHexInt cnt).map some
    let share ← if sh == "-" then some none else (parseHexNat sh).map some
    let cells ← if cells == "-" then some [] else (cells.splitOn ",").mapM parseHexInt
    some ⟨size, cnt, share, cells⟩
  | _ => none

/-- the specification's verdict on one observed step -/
def specStep (a : Array0Spec.AState Int) (nh : Nat) (tok : String) : Bool :=
  match tok.splitOn ":" with
  | [leak, rest] =>
    match (rest.splitOn "|").mapM parseHandleObs with
    | none => false
    | some obs =>
      leak == "0" && obs.length == nh &&
      (List.range nh).all (fun h =>
        match obs[h]? with
        | none => false
        | some o =>
          o.size == o.cells.length &&
          Array0Spec.matchesB o.cells (Array0Spec.value a h) &&
          -- the reference count is the number of live sharers of the storage
          (match o.cnt with
           | none => o.size == 0
           | some c => o.share.isSome && c == ((obs.filter (fun o' => o'.share == o.share)).length : Int)) &&
          -- non-empty handles alias exactly when the specification says so
          (List.range nh).all (fun g =>
            match obs[g]? with
            | none => false
            | some o' =>
              if (Array0Spec.value a h).isEmpty || (Array0Spec.value a g).isEmpty then true
              else (o.share == o'.share) == (Array0Spec.grpOf a h == Array0Spec.grpOf a g)))
  | _ => false

/-- cells of handle `h` in an observation token -/
def obsCells (tok : String) (h : Nat) : Option (List Int) :=
  match tok.splitOn ":" with
  | [_, rest] => ((rest.splitOn "|")[h]?).bind parseHandleObs |>.map (·.cells)
  | _ => none

/-- `push_back(A[i])` appends whatever cell `i` was *observed* to hold just before (also when the property leaves the
    value of that cell open, e.g. after `allocate`) -/
def selfPushOk (mo : Array0.Op Int) (prev o : String) : Bool :=
  match mo with
  | .pushBackSelf h i =>
    let before := if prev.isEmpty then some [] else obsCells prev h
    match before, obsCells o h with
    | some b, some a => if i < b.length then a == b ++ [b.getD i 0] else a == b
    | _, _ => false
  | _ => true

partial def histLoop (w nh : Nat) (ops : List (Array0.Op Int × Array0Spec.AOp Int)) (obs : List String)
    (p : Array0Pool.PState Int) (a : Array0Spec.AState Int) (v : Array0Spec.VState Int) (prev : String) (k : Nat) :
    Option (Nat × Bool × Bool × String) :=
  -- returns the first step at which model or specification disagree with the implementation: (step, specOk, modelOk, model)
  match ops, obs with
  | (mo, ao) :: ops', o :: obs' =>
    let p' := Array0Pool.pstep w p mo
    let a' := Array0Spec.astep a ao
    let v' := Array0Spec.vstep v (Array0.toV mo)
    let m := showState p'
    let specOk := specStep a' nh o && selfPushOk mo prev o
    -- the composed model predicts the whole observation; the value-semantics machine everything but the class indices
    let modelOk := m == o && showV v' == dropClasses o
    if specOk && modelOk then histLoop w nh ops' obs' p' a' v' o (k + 1)
    else some (k, specOk, modelOk, if m == o then "vspec=" ++ showV v' else m)
  | [], [o] => if o == "end.0.0" then none else some (k, false, false, "end.0.0")
  | _, _ => some (k, false, false, "<observation missing>")

def histLine (line : String) (args res : List String) : String :=
  match args with
  | T :: nhs :: opToks =>
    match parseHexNat nhs, opToks.mapM (parseHistOp T) with
    | some nh, some ops =>
      let w := if T == "Z" then 16 else 4               -- sizeof(Givaro::Integer) = sizeof(mpz_t), sizeof(int)
      match histLoop w nh ops res (Array0Pool.pinit Int nh) (Array0Spec.ainit Int nh) (Array0Spec.vinit Int nh) "" 0 with
      | none => "OK"
      | some (k, specOk, modelOk, m) =>
        let kind := if !specOk && !modelOk then "BOTH" else if !specOk then "SPEC" else "MODEL"
        s!"DIFF kind={kind} step={k} model={m} | {line.trimAscii.toString}"
    | _, _ => "BAD args | " ++ line
  | _ => "BAD args | " ++ line

/-! ### allocators -/

def parseFlOp (tok : String) : Option FreeList.Op :=
  match dotFields tok with
  | some ("a", [k, sz]) => some (.alloc k sz)
  | some ("f", [k]) => some (.free k)
  | some ("r", [k, sz]) => some (.resize k sz)
  | some ("z", [k, sz]) => some (.resizeNull k sz)
  | _ => none

def flSlot : FreeList.Op → Nat
  | .alloc k _ => k | .free k => k | .resize k _ => k | .resizeNull k _ => k

def flLine (line : String) (args res : List String) : String :=
  match args.mapM parseFlOp with
  | none => "BAD args | " ++ line
  | some ops =>
    let rec go (ops : List FreeList.Op) (obs : List String) (c : FreeList.Client) (k : Nat) : Option (Nat × Bool × String) :=
      match ops, obs with
      | [], [o] => if o == "end.0" then none else some (k, false, "end.0")
      | op :: ops', o :: obs' =>
        let threw := FreeList.cthrows c op
        let c' := (FreeList.cstep c op).1
        let slot := flSlot op
        let isFree := match op with | .free _ => true | _ => false
        let m := if threw then "EXC" else
          match c'.slot slot with
          | some b => if isFree then "-" else
              let i := c'.pool.idx b
              s!"{hexNat i}.{hexNat (FreeList.tab i)}.{hexNat b}.1"
          | none => "-"
        -- specification: the block is large enough for the bytes the client may use, and the client's bytes are intact
        let specOk := if o == "EXC" then threw else if o == "-" then (c'.slot slot).isNone || isFree else
          match o.splitOn "." with
          | [_, cap, _, ok] => (match parseHexNat cap with | some cp => decide (cp ≥ c'.sz slot) | none => false) && ok == "1"
          | _ => false
        if specOk && m == o then go ops' obs' c' (k + 1) else some (k, specOk, m)
      | _, _ => some (k, false, "<observation missing>")
    match go ops res FreeList.Client.init 0 with
    | none => "OK"
    | some (k, specOk, m) =>
      let kind := if !specOk && m == (res.getD k "") then "SPEC" else if !specOk then "BOTH" else "MODEL"
      s!"DIFF kind={kind} step={k} model={m} | {line.trimAscii.toString}"

structure RcClient where
  pool : FreeList.Pool
  slot : Nat → Option Nat
  sz   : Nat → Nat

def rcStep (c : RcClient) (tok : String) : Option RcClient :=
  let set (c : RcClient) (p : FreeList.Pool) (k : Nat) (b : Option Nat) (z : Nat) : RcClient :=
    { pool := p, slot := FreeList.updF c.slot k b, sz := FreeList.updF c.sz k z }
  match dotFields tok with
  | some ("a", [k, z]) =>
    match c.slot k with
    | some _ => some c
    | none => (FreeList.rcAllocate c.pool z).map (fun (p, b) => set c p k (some b) z)
  | some ("d", [k]) =>
    match c.slot k with
    | none => some c
    | some b => some (set c (FreeList.rcDesallocate c.pool b) k none 0)
  | some ("s", [k, j]) =>
    let (p, v) := FreeList.rcAssign c.pool (c.slot k) (c.slot j)
    some (set c p k v (c.sz j))
  | some ("i", [k, j]) =>
    match c.slot j, c.slot k with
    | none, some b => some (set c (FreeList.rcIncr c.pool b) j (some b) (c.sz k))
    | _, _ => some c
  | some ("r", [k, z]) =>
    match c.slot k with
    | none => some c
    | some b => (FreeList.rcResize c.pool (some b) (c.sz k) z).map (fun (p, b') => set c p k (some b') z)
  | some ("z", [k, z]) =>
    match c.slot k with
    | some _ => some c
    | none => (FreeList.rcResize c.pool none 0 z).map (fun (p, b) => set c p k (some b) z)
  | _ => none

def rcShow (c : RcClient) : String :=
  let sl := List.range 4
  String.intercalate "," (sl.map (fun k => match c.slot k with | none => "-" | some b => hexInt (c.pool.rc b))) ++ ";" ++
  String.intercalate "," (sl.map (fun k => match c.slot k with | none => "-" | some b => hexNat b))

/-- reference counts equal the number of slots holding the block -/
def rcSpec (o : String) : Bool :=
  match o.splitOn ";" with
  | [rcs, ids] =>
    let r := rcs.splitOn ","; let i := ids.splitOn ","
    r.length == i.length &&
    (List.zip r i).all (fun (rc, id) =>
      if id == "-" then rc == "-" else parseHexInt rc == some ((i.filter (· == id)).length : Int))
  | _ => false

/-- `resize` hands back a block that no other handle refers to: when the block was shared it is detached (new block, old count
    decremented) whatever the new size is -- a resize that returns the shared block itself lets writes through the result reach the
    other sharers ("handed out twice").  `c` is the state before the operation: `r.k.z` acts only on a non-null slot, `z.k.z` only on a
    null one. -/
def rcExclusiveAfterResize (c : RcClient) (tok : String) (o : String) : Bool :=
  match dotFields tok with
  | some (opn, [k, _]) =>
    if (opn == "r" && (c.slot k).isSome) || (opn == "z" && (c.slot k).isNone) then
      match o.splitOn ";" with
      | [rcs, ids] =>
        let id := (ids.splitOn ",").getD k "-"
        id == "-" || (rcs.splitOn ",").getD k "" == "1"
      | _ => false
    else true
  | _ => true

def rcLine (line : String) (args res : List String) : String :=
  let rec go (ops obs : List String) (c : RcClient) (k : Nat) : Option (Nat × Bool × String) :=
    match ops, obs with
    | [], [o] => if o == "end.0" then none else some (k, false, "end.0")
    | op :: ops', o :: obs' =>
      match rcStep c op with
      | none => some (k, false, "<bad op>")
      | some c' =>
        let m := rcShow c'
        let specOk := rcSpec o && rcExclusiveAfterResize c op o
        if specOk && m == o then go ops' obs' c' (k + 1) else some (k, specOk, m)
    | _, _ => some (k, false, "<observation missing>")
  match go args res ⟨FreeList.Pool.init, fun _ => none, fun _ => 0⟩ 0 with
  | none => "OK"
  | some (k, specOk, m) =>
    let kind := if !specOk && m == (res.getD k "") then "SPEC" else if !specOk then "BOTH" else "MODEL"
    s!"DIFF kind={kind} step={k} model={m} | {line.trimAscii.toString}"

def leakLine (line : String) (args res : List String) : String :=
  match args, res with
  | name :: _, [d] =>
    let g0 : Leak.G := { live := 1, inited := fun x => x == 0 }     -- the destination Integer (variable 0) is live
    let model : Int :=
      if name.startsWith "caster_Z_r" then (Leak.execAll g0 (Leak.casterIntegerRuint 0)).live - g0.live
      else if name.startsWith "caster_r" then (Leak.execAll g0 Leak.mpz_t_to_ruint).live - g0.live
      else 0
    match parseHexInt d with
    | none => "BAD result | " ++ line
    | some di =>
      let specOk := di == 0
      let modelOk := di == model
      if specOk && modelOk then "OK" else
      let kind := if !specOk && !modelOk then "BOTH" else if !specOk then "SPEC" else "MODEL"
      s!"DIFF kind={kind} model={hexInt model} | {line.trimAscii.toString}"
  | _, _ => "BAD args | " ++ line

/-! ### RefCountPtr -/

def parseRpOp (tok : String) : Option RefPtr.Op :=
  match dotFields tok with
  | some ("n", [k, v]) => some (.new k v)
  | some ("c", [k, j]) => some (.copy k j)
  | some ("a", [k, j]) => some (.assign k j)
  | some ("d", [k]) => some (.del k)
  | _ => none

def rpLine (line : String) (args res : List String) : String :=
  match args.mapM parseRpOp with
  | none => "BAD args | " ++ line
  | some ops =>
    let showRp (r : RefPtr.St) : String := hexNat (RefPtr.liveCount r) ++ ":" ++
      String.intercalate "," ((List.range 3).map (fun j => match r.slot j with | none => "-" | some o => hexNat (r.val o)))
    let rec go (ops : List RefPtr.Op) (obs : List String) (s : RefPtr.St) (e : Array0.State Nat) (k : Nat) : Option (Nat × Bool × String) :=
      match ops, obs with
      | [], [o] => if o == "end.0" then none else some (k, false, "end.0")
      | op :: ops', o :: obs' =>
        let s' := RefPtr.step s op
        let e' := Array0.embed e op            -- the same history on one-cell Array0 handles
        let m := showRp s'
        let m2 := if e'.fault then "X:model-fault" else showRp (Array0.proj e')
        -- specification: the objects alive are exactly the objects some slot points to
        let specOk := match o.splitOn ":" with
          | [lv, sl] =>
            let ptrs := (sl.splitOn ",").filter (· != "-")
            parseHexNat lv == some ptrs.eraseDups.length && ptrs.all (fun p => p != "-1")
          | _ => false
        if specOk && m == o && m2 == o then go ops' obs' s' e' (k + 1) else some (k, specOk, if m == o then "array0=" ++ m2 else m)
      | _, _ => some (k, false, "<observation missing>")
    match go ops res RefPtr.St.init (Array0.init Nat 3) 0 with
    | none => "OK"
    | some (k, specOk, m) =>
      let kind := if !specOk && m == (res.getD k "") then "SPEC" else if !specOk then "BOTH" else "MODEL"
      s!"DIFF kind={kind} step={k} model={m} | {line.trimAscii.toString}"

def arrayLine (line : String) : String :=
  match splitLine line with
  | none => "BAD empty"
  | some (key, args, res) =>
    if res.any (fun r => r.startsWith "X:") then
      -- the harness saw a released block still referenced, a block handed out twice, a null counter, or a crash
      s!"DIFF kind=SPEC harness={res.getLastD ""} | {line.trimAscii.toString}"
    else if key == "hist" then histLine line args res
    else if key == "fl" then flLine line args res
    else if key == "rc" then rcLine line args res
    else if key == "leak" then leakLine line args res
    else if key == "rp" then rpLine line args res
    else "BAD key | " ++ line

end Driver.Array
