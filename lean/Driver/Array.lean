/- C17 driver: evaluates the Array0 / FreeList / Leak models and the value-semantics specification on every line
   produced by harness/h_array.cpp. -/
import Driver.Common
import GivaroModel.Model.Array0
import GivaroModel.Model.FreeList
import GivaroModel.Model.Leak
import GivaroModel.Model.RefPtr
import GivaroModel.Spec.Array0Spec
-- @driver-mode array Driver.Array.arrayLine
namespace Driver.Array
open Driver
open Givaro.Model Givaro.Spec

def dotFields (tok : String) : Option (String × List Nat) :=
  match tok.splitOn "." with
  | [] => none
  | k :: rest => (rest.mapM parseHexNat).map (fun xs => (k, xs))

def bigUnit : Int := 1208925819614629174706177      -- 2^80 + 1

/-- element value denoted by the token value `v` for element type `T` -/
def elt (T : String) (v : Nat) : Int := if T == "Z" then (v : Int) * bigUnit else (v : Int)

def parseHistOp (T : String) (tok : String) : Option (Array0.Op Int × Array0Spec.AOp Int) :=
  match dotFields tok with
  | some ("B", [h, s, t]) => some (.build h s (elt T t), .build h s (elt T t))
  | some ("N", [h, g]) => some (.noCopy h g, .share h g)
  | some ("C", [h, g]) => some (.withCopy h g, .valueCopy h g)
  | some ("D", [h]) => some (.destroy h, .destroy h)
  | some ("A", [h, s]) => some (.allocate h s, .allocate h s)
  | some ("R", [h, s]) => some (.resize h s, .resize h s)
  | some ("V", [h, s]) => some (.reserve h s, .reserve h s)
  | some ("P", [h, v]) => some (.pushBack h (elt T v), .pushBack h (elt T v))
  | some ("W", [h, i, v]) => some (.write h i (elt T v), .write h i (elt T v))
  | some ("Y", [h, g]) => some (.copy h g, .copy h g)
  | some ("L", [h, g]) => some (.logcopy h g, .share h g)
  | some ("E", [h, g]) => some (.assign h g, .copy h g)
  | _ => none

def showCells (l : List Int) : String := if l.isEmpty then "-" else String.intercalate "," (l.map hexInt)

/-- what the harness prints for handle `h` of a model state -/
def showHandle (s : Array0.State Int) (h : Nat) : String :=
  let H := s.hs h
  let cnt := match H.cnt with | none => "-" | some c => hexInt (s.cval c)
  let sh := if H.psz = 0 then "-" else
    match (List.range (h + 1)).find? (fun g => (s.hs g).psz != 0 && (s.hs g).d == H.d) with
    | some g => hexNat g | none => "?"
  s!"{hexNat H.size}.{hexNat H.psz}.{cnt}.{sh}.{showCells (Array0.contents s h)}"

def showState (s : Array0.State Int) : String :=
  if s.fault then "X:model-fault" else
  hexNat (Array0.leaked s) ++ ":" ++ String.intercalate "|" ((List.range s.n).map (showHandle s))

structure HObs where
  size : Nat
  cnt : Option Int
  share : Option Nat
  cells : List Int

def parseHandleObs (t : String) : Option HObs :=
  match t.splitOn "." with
  | [sz, _psz, cnt, sh, cells] => do
    let size ← parseHexNat sz
    let cnt ← if cnt == "-" then some none else (parseHexInt cnt).map some
    let share ← if sh == "-" then some none else (parseHexNat sh).map some
    let cells ← if cells == "-" then some [] else (cells.splitOn ",").mapM parseHexInt
    some ⟨size, cnt, share, cells⟩
  | _ => none

/-- the specification's verdict on one observed step -/
def specStep (a : Array0Spec.AState Int) (nh : Nat) (tok : String) : Bool :=
  match tok.splitOn ":" with
  | [leak, rest] =>
    match (rest.splitOn "|").mapM parseHandleObs with
    | none => false
    | some obs =>
      leak == "0" && obs.length == nh &&
      (List.range nh).all (fun h =>
        match obs[h]? with
        | none => false
        | some o =>
          o.size == o.cells.length &&
          Array0Spec.matchesB o.cells (Array0Spec.value a h) &&
          -- the reference count is the number of live sharers of the storage
          (match o.cnt with
           | none => o.size == 0
           | some c => o.share.isSome && c == ((obs.filter (fun o' => o'.share == o.share)).length : Int)) &&
          -- non-empty handles alias exactly when the specification says so
          (List.range nh).all (fun g =>
            match obs[g]? with
            | none => false
            | some o' =>
              if (Array0Spec.value a h).isEmpty || (Array0Spec.value a g).isEmpty then true
              else (o.share == o'.share) == (Array0Spec.grpOf a h == Array0Spec.grpOf a g)))
  | _ => false

partial def histLoop (nh : Nat) (ops : List (Array0.Op Int × Array0Spec.AOp Int)) (obs : List String)
    (s : Array0.State Int) (a : Array0Spec.AState Int) (k : Nat) : Option (Nat × Bool × Bool × String) :=
  -- returns the first step at which model or specification disagree with the implementation: (step, specOk, modelOk, model)
  match ops, obs with
  | (mo, ao) :: ops', o :: obs' =>
    let s' := Array0.step s mo
    let a' := Array0Spec.astep a ao
    let m := showState s'
    let specOk := specStep a' nh o
    let modelOk := m == o
    if specOk && modelOk then histLoop nh ops' obs' s' a' (k + 1) else some (k, specOk, modelOk, m)
  | [], [o] => if o == "end.0.0" then none else some (k, false, false, "end.0.0")
  | _, _ => some (k, false, false, "<observation missing>")

def histLine (line : String) (args res : List String) : String :=
  match args with
  | T :: nhs :: opToks =>
    match parseHexNat nhs, opToks.mapM (parseHistOp T) with
    | some nh, some ops =>
      match histLoop nh ops res (Array0.init Int nh) (Array0Spec.ainit Int nh) 0 with
      | none => "OK"
      | some (k, specOk, modelOk, m) =>
        let kind := if !specOk && !modelOk then "BOTH" else if !specOk then "SPEC" else "MODEL"
        s!"DIFF kind={kind} step={k} model={m} | {line.trimAscii.toString}"
    | _, _ => "BAD args | " ++ line
  | _ => "BAD args | " ++ line

/-! ### allocators -/

def parseFlOp (tok : String) : Option FreeList.Op :=
  match dotFields tok with
  | some ("a", [k, sz]) => some (.alloc k sz)
  | some ("f", [k]) => some (.free k)
  | some ("r", [k, sz]) => some (.resize k sz)
  | some ("z", [k, sz]) => some (.resizeNull k sz)
  | _ => none

def flSlot : FreeList.Op → Nat
  | .alloc k _ => k | .free k => k | .resize k _ => k | .resizeNull k _ => k

def flLine (line : String) (args res : List String) : String :=
  match args.mapM parseFlOp with
  | none => "BAD args | " ++ line
  | some ops =>
    let rec go (ops : List FreeList.Op) (obs : List String) (c : FreeList.Client) (k : Nat) : Option (Nat × Bool × String) :=
      match ops, obs with
      | [], [o] => if o == "end.0" then none else some (k, false, "end.0")
      | op :: ops', o :: obs' =>
        let threw := FreeList.cthrows c op
        let c' := (FreeList.cstep c op).1
        let slot := flSlot op
        let isFree := match op with | .free _ => true | _ => false
        let m := if threw then "EXC" else
          match c'.slot slot with
          | some b => if isFree then "-" else
              let i := c'.pool.idx b
              s!"{hexNat i}.{hexNat (FreeList.tab i)}.{hexNat b}.1"
          | none => "-"
        -- specification: the block is large enough for the bytes the client may use, and the client's bytes are intact
        let specOk := if o == "EXC" then threw else if o == "-" then (c'.slot slot).isNone || isFree else
          match o.splitOn "." with
          | [_, cap, _, ok] => (match parseHexNat cap with | some cp => decide (cp ≥ c'.sz slot) | none => false) && ok == "1"
          | _ => false
        if specOk && m == o then go ops' obs' c' (k + 1) else some (k, specOk, m)
      | _, _ => some (k, false, "<observation missing>")
    match go ops res FreeList.Client.init 0 with
    | none => "OK"
    | some (k, specOk, m) =>
      let kind := if !specOk && m == (res.getD k "") then "SPEC" else if !specOk then "BOTH" else "MODEL"
      s!"DIFF kind={kind} step={k} model={m} | {line.trimAscii.toString}"

structure RcClient where
  pool : FreeList.Pool
  slot : Nat → Option Nat
  sz   : Nat → Nat

def rcStep (c : RcClient) (tok : String) : Option RcClient :=
  let set (c : RcClient) (p : FreeList.Pool) (k : Nat) (b : Option Nat) (z : Nat) : RcClient :=
    { pool := p, slot := FreeList.updF c.slot k b, sz := FreeList.updF c.sz k z }
  match dotFields tok with
  | some ("a", [k, z]) =>
    match c.slot k with
    | some _ => some c
    | none => (FreeList.rcAllocate c.pool z).map (fun (p, b) => set c p k (some b) z)
  | some ("d", [k]) =>
    match c.slot k with
    | none => some c
    | some b => some (set c (FreeList.rcDesallocate c.pool b) k none 0)
  | some ("s", [k, j]) =>
    let (p, v) := FreeList.rcAssign c.pool (c.slot k) (c.slot j)
    some (set c p k v (c.sz j))
  | some ("i", [k, j]) =>
    match c.slot j, c.slot k with
    | none, some b => some (set c (FreeList.rcIncr c.pool b) j (some b) (c.sz k))
    | _, _ => some c
  | some ("r", [k, z]) =>
    match c.slot k with
    | none => some c
    | some b => (FreeList.rcResize c.pool (some b) (c.sz k) z).map (fun (p, b') => set c p k (some b') z)
  | some ("z", [k, z]) =>
    match c.slot k with
    | some _ => some c
    | none => (FreeList.rcResize c.pool none 0 z).map (fun (p, b) => set c p k (some b) z)
  | _ => none

def rcShow (c : RcClient) : String :=
  let sl := List.range 4
  String.intercalate "," (sl.map (fun k => match c.slot k with | none => "-" | some b => hexInt (c.pool.rc b))) ++ ";" ++
  String.intercalate "," (sl.map (fun k => match c.slot k with | none => "-" | some b => hexNat b))

/-- reference counts equal the number of slots holding the block -/
def rcSpec (o : String) : Bool :=
  match o.splitOn ";" with
  | [rcs, ids] =>
    let r := rcs.splitOn ","; let i := ids.splitOn ","
    r.length == i.length &&
    (List.zip r i).all (fun (rc, id) =>
      if id == "-" then rc == "-" else parseHexInt rc == some ((i.filter (· == id)).length : Int))
  | _ => false

def rcLine (line : String) (args res : List String) : String :=
  let rec go (ops obs : List String) (c : RcClient) (k : Nat) : Option (Nat × Bool × String) :=
    match ops, obs with
    | [], [o] => if o == "end.0" then none else some (k, false, "end.0")
    | op :: ops', o :: obs' =>
      match rcStep c op with
      | none => some (k, false, "<bad op>")
      | some c' =>
        let m := rcShow c'
        let specOk := rcSpec o
        if specOk && m == o then go ops' obs' c' (k + 1) else some (k, specOk, m)
    | _, _ => some (k, false, "<observation missing>")
  match go args res ⟨FreeList.Pool.init, fun _ => none, fun _ => 0⟩ 0 with
  | none => "OK"
  | some (k, specOk, m) =>
    let kind := if !specOk && m == (res.getD k "") then "SPEC" else if !specOk then "BOTH" else "MODEL"
    s!"DIFF kind={kind} step={k} model={m} | {line.trimAscii.toString}"

def leakLine (line : String) (args res : List String) : String :=
  match args, res with
  | name :: _, [d] =>
    let g0 : Leak.G := { live := 1, inited := fun x => x == 0 }     -- the destination Integer (variable 0) is live
    let model : Int :=
      if name.startsWith "caster_Z_r" then (Leak.execAll g0 (Leak.casterIntegerRuint 0)).live - g0.live
      else if name.startsWith "caster_r" then (Leak.execAll g0 Leak.mpz_t_to_ruint).live - g0.live
      else 0
    match parseHexInt d with
    | none => "BAD result | " ++ line
    | some di =>
      let specOk := di == 0
      let modelOk := di == model
      if specOk && modelOk then "OK" else
      let kind := if !specOk && !modelOk then "BOTH" else if !specOk then "SPEC" else "MODEL"
      s!"DIFF kind={kind} model={hexInt model} | {line.trimAscii.toString}"
  | _, _ => "BAD args | " ++ line

/-! ### RefCountPtr -/

def parseRpOp (tok : String) : Option RefPtr.Op :=
  match dotFields tok with
  | some ("n", [k, v]) => some (.new k v)
  | some ("c", [k, j]) => some (.copy k j)
  | some ("a", [k, j]) => some (.assign k j)
  | some ("d", [k]) => some (.del k)
  | _ => none

def rpLine (line : String) (args res : List String) : String :=
  match args.mapM parseRpOp with
  | none => "BAD args | " ++ line
  | some ops =>
    let ids := ops.filterMap (fun o => match o with | .new _ v => some v | _ => none)
    let rec go (ops : List RefPtr.Op) (obs : List String) (s : RefPtr.St) (k : Nat) : Option (Nat × Bool × String) :=
      match ops, obs with
      | [], [o] => if o == "end.0" then none else some (k, false, "end.0")
      | op :: ops', o :: obs' =>
        let s' := RefPtr.step s op
        let m := hexNat (RefPtr.liveCount s' ids) ++ ":" ++
          String.intercalate "," ((List.range 3).map (fun j => match s'.slot j with | none => "-" | some v => hexNat v))
        -- specification: the objects alive are exactly the objects some slot points to
        let specOk := match o.splitOn ":" with
          | [lv, sl] =>
            let ptrs := (sl.splitOn ",").filter (· != "-")
            parseHexNat lv == some ptrs.eraseDups.length && ptrs.all (fun p => p != "-1")
          | _ => false
        if specOk && m == o then go ops' obs' s' (k + 1) else some (k, specOk, m)
      | _, _ => some (k, false, "<observation missing>")
    match go ops res RefPtr.St.init 0 with
    | none => "OK"
    | some (k, specOk, m) =>
      let kind := if !specOk && m == (res.getD k "") then "SPEC" else if !specOk then "BOTH" else "MODEL"
      s!"DIFF kind={kind} step={k} model={m} | {line.trimAscii.toString}"

def arrayLine (line : String) : String :=
  match splitLine line with
  | none => "BAD empty"
  | some (key, args, res) =>
    if res.any (fun r => r.startsWith "X:") then
      -- the harness saw a released block still referenced, a block handed out twice, a null counter, or a crash
      s!"DIFF kind=SPEC harness={res.getLastD ""} | {line.trimAscii.toString}"
    else if key == "hist" then histLine line args res
    else if key == "fl" then flLine line args res
    else if key == "rc" then rcLine line args res
    else if key == "leak" then leakLine line args res
    else if key == "rp" then rpLine line args res
    else "BAD key | " ++ line

end Driver.Array
