/- C16 driver: judges the histories of harness/h_history.cpp against the value-semantics machine of Model/Domain.lean.
   `iso <kind> <p> = <digest>` lines give what an isolated object with parameter set p returns; a `hist` line must show, for every
   probe the machine expects, the digest of the parameter set the slot holds. -/
import Driver.Common
import GivaroModel.Model.Domain
-- @driver-mode-io history Driver.History.historyMain
namespace Driver.History
open Driver Givaro.Model.Domain

def parseOp (s : String) : Option HOp :=
  match s.toList with
  | ['N', k, p] => some (.new (k.toNat - 48) (p.toNat - 48))
  | ['C', k, j] => some (.copy (k.toNat - 48) (j.toNat - 48))
  | ['A', k, j] => some (.assign (k.toNat - 48) (j.toNat - 48))
  | ['S', k] => some (.selfassign (k.toNat - 48))
  | ['D', k] => some (.destroy (k.toNat - 48))
  | ['P', k] => some (.probe (k.toNat - 48))
  | _ => none

def judge (iso : List ((String × Nat) × String)) (line : String) : String :=
  match splitLine line with
  | some ("hist", kind :: ops, res) =>
    match ops.mapM parseOp with
    | none => "BAD ops | " ++ line
    | some hs =>
      if res.head? == some "CRASH" then
        s!"DIFF kind=SPEC model=no-crash | {line.trimAscii.toString}"
      else
        let exp := expected hs
        let want := exp.map (fun (k, p) => match iso.lookup (kind, p) with
          | some d => s!"{k}:{d}"
          | none => s!"{k}:?")
        if want == res then "OK"
        else s!"DIFF kind=SPEC model={String.intercalate " " want} | {line.trimAscii.toString}"
  | _ => "BAD line | " ++ line

partial def loop (h : IO.FS.Stream) (iso : List ((String × Nat) × String)) : IO Unit := do
  let line ← h.getLine
  if line.isEmpty then return ()
  match splitLine line with
  | some ("iso", [kind, p], [d]) =>
    IO.println "OK"
    loop h (((kind, p.toNat!), d) :: iso)
  | some ("sane", [_, _], [v]) =>
    -- an isolated object must hold the construction parameters it was given (e.g. after its caller reused the array it was built from)
    IO.println (if v == "1" then "OK" else s!"DIFF kind=SPEC model=1 | {line.trimAscii.toString}")
    loop h iso
  | _ =>
    IO.println (judge iso line)
    loop h iso

def historyMain (h : IO.FS.Stream) : IO Unit := loop h []

end Driver.History
