/- C07 driver: evaluates the model (Model/Montgomery.lean) and the plain-residue specification
   (Spec/MontgomerySpec.lean) on every line printed by harness/h_montgomery.cpp. -/
import Driver.Common
import GivaroModel.Model.Montgomery
import GivaroModel.Spec.MontgomerySpec
-- @driver-mode montgomery Driver.Montgomery.montgomeryLine
namespace Driver.Montgomery
open Driver
open Givaro Givaro.Model.Montgomery Givaro.Spec.Montgomery

/-- outs = raw₀ conv₀ raw₁ conv₁ …; every conv must be the expected residue and every raw its Montgomery form -/
def checkPairs (M p : Int) : List Int → List Int → Bool
  | raw :: conv :: rest, e :: es => decide (conv = e % p) && repOk M p raw conv && checkPairs M p rest es
  | [], [] => true
  | _, _ => false

/-- outs = rawMGA outMGA valMGI …: both variants must give the expected residue -/
def checkTriples (M p : Int) : List Int → List Int → Bool
  | raw :: out :: vi :: rest, e :: es =>
    decide (out = e % p) && decide (vi = e % p) && repOk M p raw out && checkTriples M p rest es
  | [], [] => true
  | _, _ => false

def withConv (conv : Int → Int) (raws : List Int) : List Int := raws.flatMap (fun x => [x, conv x])

structure Case where
  pre : Bool
  model : List Int
  spec : List Int → Bool

def inRange (p : Int) (xs : List Int) : Bool := xs.all (fun x => decide (0 ≤ x) && decide (x < p))

/-- histories (register machine over 5 registers; every step calls one model function — the register contents are the values of
    `RExpr` trees over the initial elements, evaluated with sharing) -/
structure OpsImpl where
  add : Int → Int → Int
  sub : Int → Int → Int
  mul : Int → Int → Int
  neg : Int → Int
  axpy : Int → Int → Int → Int
  axmy : Int → Int → Int → Int
  maxpy : Int → Int → Int → Int
  addin : Int → Int → Int
  subin : Int → Int → Int
  mulin : Int → Int → Int
  axpyin : Int → Int → Int → Int
  axmyin : Int → Int → Int → Int
  maxpyin : Int → Int → Int → Int

def stepHist (I : OpsImpl) (r : List Int) (op d x y z : Nat) : List Int :=
  let g := fun i => r.getD i 0
  match op with
  | 0 => r.set d (I.add (g x) (g y))
  | 1 => r.set d (I.sub (g x) (g y))
  | 2 => r.set d (I.mul (g x) (g y))
  | 3 => r.set d (I.neg (g x))
  | 4 => r.set d (I.axpy (g x) (g y) (g z))
  | 5 => r.set d (I.axmy (g x) (g y) (g z))
  | 6 => r.set d (I.maxpy (g x) (g y) (g z))
  | 7 => r.set d (I.addin (g d) (g x))
  | 8 => r.set d (I.subin (g d) (g x))
  | 9 => r.set d (I.mulin (g d) (g x))
  | 10 => r.set d (I.neg (g d))
  | 11 => r.set d (I.axpyin (g d) (g x) (g y))
  | 12 => r.set d (I.axmyin (g d) (g x) (g y))
  | 13 => r.set d (I.maxpyin (g d) (g x) (g y))
  | _ => r

def runHist (I : OpsImpl) : List Int → List Int → List Int
  | r, op :: d :: x :: y :: z :: rest =>
    runHist I (stepHist I r op.toNat (d.toNat % 5) (x.toNat % 5) (y.toNat % 5) (z.toNat % 5)) rest
  | r, _ => r

def ops32 (F : Ring32) : OpsImpl :=
  { add := add32 F, sub := sub32 F, mul := mul32 F, neg := neg32 F, axpy := axpy32 F, axmy := axmy32 F, maxpy := maxpy32 F,
    addin := add32 F, subin := subin32 F, mulin := mulin32 F, axpyin := axpyin32 F, axmyin := axmyin32 F, maxpyin := maxpyin32 F }
def opsR (C : MgCtx) : OpsImpl :=
  { add := addR C, sub := subR C, mul := mulR C, neg := negR C, axpy := axpyR C, axmy := axmyR C, maxpy := maxpyR C,
    addin := addR C, subin := subinR C, mulin := mulR C, axpyin := axpyinR C, axmyin := axmyinR C, maxpyin := maxpyinR C }
/-- the same history on plain residues -/
def opsPlain (p : Int) : OpsImpl :=
  { add := rAdd p, sub := rSub p, mul := rMul p, neg := rNeg p, axpy := rAxpy p, axmy := rAxmy p, maxpy := rMaxpy p,
    addin := rAdd p, subin := rSub p, mulin := rMul p, axpyin := fun r a b => rAxpy p a b r, axmyin := fun r a b => rAxmy p a b r,
    maxpyin := fun r a b => rMaxpy p a b r }

def specHist (M p : Int) (plain : List Int) (o : List Int) : Bool :=
  decide (o.length = 10) && decide (o.drop 5 = plain) && ((o.take 5).zip (o.drop 5)).all (fun (x, v) => repOk M p x v)

def case32 (key : String) (a : List Int) : Option Case :=
  match key, a with
  | "m32k", [p] =>
    let F := mk32 p
    some { pre := admissible32 p
           model := [F.nim, F.Bp, F.B2p, F.B3p, F.one, F.mOne, 0, maxCard32]
           spec := fun o => match o with
             | [nim, bp, b2p, b3p, one, mone, zero, _] =>
               decide (0 ≤ nim) && decide (nim < 65536) && decide ((nim * p) % 65536 = 65535) &&
               decide (bp = 65536 % p) && decide (b2p = (65536 * 65536) % p) && decide (b3p = (65536 * 65536 * 65536) % p) &&
               repOk 65536 p one 1 && repOk 65536 p mone (-1) && decide (zero = 0)
             | _ => false }
  | "m32r", [p, c] =>
    let F := mk32 p
    some { pre := admissible32 p && decide (0 ≤ c) && decide (c ≤ (p - 1) * (p - 1))
           model := [redc F c, redcal F c, redcsal F c, redcs F c, redcin F c, redcsin F c]
           spec := fun o => decide (o.length = 6) &&
             o.all (fun t => decide (0 ≤ t) && decide (t < p) && decide ((t * 65536) % p = c % p)) }
  | "m32", [p, a, b, c] =>
    let F := mk32 p
    let A := initU64 F a
    let B := initU64 F b
    let C := initU64 F c
    let raws := [add32 F A B, sub32 F A B, mul32 F A B, neg32 F A, axpy32 F A B C, axmy32 F A B C, maxpy32 F A B C,
                 axpyin32 F C A B, axmyin32 F C A B, maxpyin32 F C A B, add32 F A B, subin32 F A B, mulin32 F A B, neg32 F A]
    let expected := [a + b, a - b, a * b, -a, a * b + c, a * b - c, c - a * b,
                     c + a * b, a * b - c, c - a * b, a + b, a - b, a * b, -a]
    some { pre := admissible32 p && inRange p [a, b, c]
           model := [A, B, C] ++ withConv (convert32 F) raws
           spec := fun o => match o with
             | ia :: ib :: ic :: rest =>
               repOk 65536 p ia a && repOk 65536 p ib b && repOk 65536 p ic c && checkPairs 65536 p rest expected
             | _ => false }
  | "m32d", [p, a, b] =>
    let F := mk32 p
    let A := initU64 F a
    let B := initU64 F b
    let raws := [inv32 F B, div32 F A B, inv32 F B, divin32 F A B]
    some { pre := admissible32 p && inRange p [a, b] && decide (Int.gcd b p = 1)
           model := [B] ++ withConv (convert32 F) raws ++ [if isUnit32 F B then 1 else 0]
           spec := fun o => match o with
             | [ib, r1, c1, r2, c2, r3, c3, r4, c4, u] =>
               repOk 65536 p ib b && isInvOf p b c1 && repOk 65536 p r1 c1 && isQuotOf p a b c2 && repOk 65536 p r2 c2 &&
               isInvOf p b c3 && repOk 65536 p r3 c3 && isQuotOf p a b c4 && repOk 65536 p r4 c4 && decide (u = 1)
             | _ => false }
  | "m32i", [p, v] =>
    let F := mk32 p
    let r := initI64 F v
    let ru := if v ≥ 0 then initU64 F v else 0
    let cu := if v ≥ 0 then convert32 F ru else 0
    some { pre := admissible32 p && decide (-9223372036854775808 < v) && decide (v < 9223372036854775808)
           model := [r, convert32 F r, ru, cu, r, convert32 F r, r, convert32 F r]
           spec := fun o => match o with
             | [r1, c1, r2, c2, r3, c3, r4, c4] =>
               checkPairs 65536 p [r1, c1, r3, c3, r4, c4] [v, v, v] &&
               (if v ≥ 0 then checkPairs 65536 p [r2, c2] [v] else true)
             | _ => false }
  | "m32u", [p, v] =>
    let F := mk32 p
    let r := initU64 F v
    some { pre := admissible32 p && decide (0 ≤ v) && decide (v < 18446744073709551616)
           model := [r, convert32 F r]
           spec := fun o => checkPairs 65536 p o [v] }
  | "m32z", [p, v] =>
    let F := mk32 p
    let r := initI64 F v
    some { pre := admissible32 p
           model := [r, convert32 F r]
           spec := fun o => checkPairs 65536 p o [v] }
  | "m32h", p :: v0 :: v1 :: v2 :: v3 :: v4 :: steps =>
    let F := mk32 p
    let vs := [v0, v1, v2, v3, v4]
    let raws := runHist (ops32 F) (vs.map (initU64 F)) steps
    let plain := runHist (opsPlain p) (vs.map (· % p)) steps
    some { pre := admissible32 p && inRange p vs
           model := raws ++ raws.map (convert32 F)
           spec := specHist 65536 p plain }
  | _, _ => none

def caseR (key : String) (n : Nat) (a : List Int) : Option Case :=
  let R := radix n
  match key, a with
  | "mrk", [p] =>
    let C := mkR n p
    some { pre := admissibleR R p
           model := [C.p1, C.r, C.r2, C.r3, C.r, toMgR C (uSub R p 1), 0]
           spec := fun o => match o with
             | [p1, r, r2, r3, one, mone, zero] =>
               decide (0 ≤ p1) && decide (p1 < R) && decide ((p1 * p) % R = R - 1) &&
               decide (r = R % p) && decide (r2 = (R * R) % p) && decide (r3 = (R * R * R) % p) &&
               repOk R p one 1 && repOk R p mone (-1) && decide (zero = 0)
             | _ => false }
  | "mr", [p, a, b, c] =>
    let C := mkR n p
    let A := initR C a
    let B := initR C b
    let Cc := initR C c
    let raws := [addR C A B, subR C A B, mulR C A B, negR C A, axpyR C A B Cc, axmyR C A B Cc, maxpyR C A B Cc,
                 axpyinR C Cc A B, axmyinR C Cc A B, maxpyinR C Cc A B, addR C A B, subinR C A B, mulR C A B, negR C A]
    let expected := [a + b, a - b, a * b, -a, a * b + c, a * b - c, c - a * b,
                     c + a * b, a * b - c, c - a * b, a + b, a - b, a * b, -a]
    some { pre := admissibleR R p && inRange p [a, b, c]
           model := [A, B, Cc] ++ withConv (convertR C) raws
           spec := fun o => match o with
             | ia :: ib :: ic :: rest =>
               repOk R p ia a && repOk R p ib b && repOk R p ic c && checkPairs R p rest expected
             | _ => false }
  | "mrd", [p, a, b] =>
    let C := mkR n p
    let A := initR C a
    let B := initR C b
    let raws := [invR C B, divR C A B, invR C B, divinR C A B]
    some { pre := admissibleR R p && inRange p [a, b] && decide (Int.gcd b p = 1)
           model := [B] ++ withConv (convertR C) raws ++ [if isUnitR C B then 1 else 0]
           spec := fun o => match o with
             | [ib, r1, c1, r2, c2, r3, c3, r4, c4, u] =>
               repOk R p ib b && isInvOf p b c1 && repOk R p r1 c1 && isQuotOf p a b c2 && repOk R p r2 c2 &&
               isInvOf p b c3 && repOk R p r3 c3 && isQuotOf p a b c4 && repOk R p r4 c4 && decide (u = 1)
             | _ => false }
  | "mri", [p, v] =>
    let C := mkR n p
    let r := initR C v
    let ru := if v ≥ 0 then initR C v else 0
    let cu := if v ≥ 0 then convertR C ru else 0
    let av := if v < 0 then -v else v
    let red := mgReduc C av
    some { pre := admissibleR R p && decide (-R < v) && decide (v < R)
           model := [r, convertR C r, ru, cu, red]
           spec := fun o => match o with
             | [r1, c1, r2, c2, rd] =>
               checkPairs R p [r1, c1] [v] && (if v ≥ 0 then checkPairs R p [r2, c2] [v] else true) &&
               -- mg_reduc of an arbitrary word: rd·R ≡ |v| (mod p), rd < p
               decide (0 ≤ rd) && decide (rd < p) && decide ((rd * R) % p = av % p)
             | _ => false }
  | "mrh", p :: v0 :: v1 :: v2 :: v3 :: v4 :: steps =>
    let C := mkR n p
    let vs := [v0, v1, v2, v3, v4]
    let raws := runHist (opsR C) (vs.map (initR C)) steps
    let plain := runHist (opsPlain p) (vs.map (· % p)) steps
    some { pre := admissibleR R p && inRange p vs
           model := raws ++ raws.map (convertR C)
           spec := specHist R p plain }
  | "rmr", [p, c] =>
    let C := mkA n p
    let sgn := if rintNeg R c then c - R else c
    let x1 := ctorRuintA C c
    let x2 := ctorRintA C c
    some { pre := admissibleR R p && decide (0 ≤ c) && decide (c < R)
           model := [x1, getRuintA C x1, ctorRuintI p c, x1, getRuintA C x1, ctorRuintI p c,
                     x2, getRuintA C x2, ctorRintI R p c, x2, getRuintA C x2, ctorRintI R p c,
                     mgReduc C c, c % p, c % p, mgReduc C c]
           spec := fun o => checkTriples R p (o.take 12) [c, c, sgn, sgn] &&
             (match o.drop 12 with
              | [t, u, u2, t2] =>
                decide (0 ≤ t) && decide (t < p) && decide ((t * R) % p = c % p) && decide (u = c % p) && decide (u2 = c % p) && decide (t2 = t)
              | _ => false) }
  | "rmw", [p, t, v] =>
    let C := mkA n p
    let signed := decide (t ≤ 3) || decide (t = 8)
    let lo : Int := if t = 0 then -128 else if t = 1 then -32768 else if t = 2 then -2147483648 else if t = 3 then -9223372036854775808
                    else if t = 8 then -9223372036854775808 else 0
    let hi : Int := if t = 0 then 127 else if t = 1 then 32767 else if t = 2 then 2147483647 else if t = 3 then 9223372036854775807
                    else if t = 4 then 255 else if t = 5 then 65535 else if t = 6 then 4294967295 else if t = 7 then 18446744073709551615
                    else 9223372036854775807
    let x := if signed then ctorSignedA C v else toMgA C v
    let y := if signed then ctorSignedI R p v else v % p
    some { pre := admissibleR R p && decide (0 ≤ t) && decide (t ≤ 8) && decide (lo ≤ v) && decide (v ≤ hi)
           model := [x, getRuintA C x, y, x, getRuintA C x, y]
           spec := fun o => checkTriples R p o [v, v] }
  | "rmz", [p, v] =>
    let C := mkA n p
    let x := mpzToA C v
    some { pre := admissibleR R p
           model := [x, getRuintA C x, mpzToI p v, getRuintA C x, mpzToI p v]
           spec := fun o => match o with
             | [r1, o1, v1, m1, m2] => checkTriples R p [r1, o1, v1] [v] && decide (m1 = v % p) && decide (m2 = v % p)
             | _ => false }
  | "rmq", [p, a, c] =>
    let C := mkA n p
    let A := toMgA C a
    let e1 := eqScalarA C A c
    let e2 := eqScalarI R p a c
    let b2i (b : Bool) : Int := if b then 1 else 0
    let e3 := if c ≥ 0 then decide (A = toMgA C c) else false
    let e4 := if c ≥ 0 then decide (a = ctorRuintI p c) else false
    some { pre := admissibleR R p && inRange p [a] && decide (-9223372036854775808 < c) && decide (c < 9223372036854775808)
           model := [b2i e1, b2i e2, b2i e3, b2i e4]
           spec := fun o => match o with
             | [q1, q2, q3, q4] =>
               -- the two variants must answer alike; for 0 ≤ c < p the answer is a = c
               decide (q1 = q2) && decide (q3 = q4) &&
               (if 0 ≤ c ∧ c < p then decide (q1 = b2i (decide (a = c))) && decide (q3 = b2i (decide (a = c))) else true)
             | _ => false }
  | "mrz", [p, v] =>
    let C := mkR n p
    let r := initZ C v
    some { pre := admissibleR R p
           model := [r, convertR C r, convertR C r]
           spec := fun o => match o with
             | [r1, c1, z1] => checkPairs R p [r1, c1] [v] && decide (z1 = v % p)
             | _ => false }
  | "mrw", [p, t, v] =>
    let C := mkR n p
    let lo : Int := if t = 0 then -128 else if t = 1 then -32768 else if t = 2 then -2147483648 else if t = 3 then -9223372036854775808
                    else if t = 8 then -9223372036854775808 else 0
    let hi : Int := if t = 0 then 127 else if t = 1 then 32767 else if t = 2 then 2147483647 else if t = 3 then 9223372036854775807
                    else if t = 4 then 255 else if t = 5 then 65535 else if t = 6 then 4294967295 else if t = 7 then 18446744073709551615
                    else if t = 8 then 9223372036854775807 else R - 1
    let src := if t = 10 then (if rintNeg R v then v - R else v) else v
    let r := if t = 8 then initZ C src else initR C src
    some { pre := admissibleR R p && decide (0 ≤ t) && decide (t ≤ 10) && decide (lo ≤ v) && decide (v ≤ hi)
           model := [r, convertR C r]
           spec := fun o => checkPairs R p o [src] }
  | "rmk", [p] =>
    let C := mkA n p
    some { pre := admissibleR R p
           model := [p, C.p1, C.r, p]
           spec := fun o => match o with
             | [pa, p1, r, pi] =>
               decide (pa = p) && decide (pi = p) && decide (0 ≤ p1) && decide (p1 < R) && decide ((p1 * p) % R = R - 1) &&
               decide (r = R % p)
             | _ => false }
  | "rm", [p, a, b, c] =>
    let C := mkA n p
    let A := toMgA C a
    let B := toMgA C b
    let Cc := toMgA C c
    let raws := [addR C A B, subR C A B, mulA C A B, negR C A, addmulA C Cc A B, squareA C A,
                 addR C A B, subinR C A B, mulA C A B, negR C A]
    let plain := [addR ⟨R, p, 0, 0, 0, 0⟩ a b, subR ⟨R, p, 0, 0, 0, 0⟩ a b, mulI p a b, negR ⟨R, p, 0, 0, 0, 0⟩ a,
                  addmulI p c a b, mulI p a a, addR ⟨R, p, 0, 0, 0, 0⟩ a b, subinR ⟨R, p, 0, 0, 0, 0⟩ a b, mulI p a b,
                  negR ⟨R, p, 0, 0, 0, 0⟩ a]
    let expected := [a + b, a - b, a * b, -a, c + a * b, a * a, a + b, a - b, a * b, -a]
    let triples := (raws.zip plain).flatMap (fun (x, y) => [x, getRuintA C x, y])
    some { pre := admissibleR R p && inRange p [a, b, c]
           model := [A, B, Cc] ++ triples ++ [mgReduc C a, a % p, toMgA C a, getRuintA C (toMgA C a), ctorIfromA C A]
           spec := fun o => match o with
             | ia :: ib :: ic :: rest =>
               repOk R p ia a && repOk R p ib b && repOk R p ic c &&
               checkTriples R p (rest.take 30) expected &&
               (match rest.drop 30 with
                | [t, u, rawc, outc, conv] =>
                  decide (0 ≤ t) && decide (t < p) && decide ((t * R) % p = a % p) && decide (u = a % p) &&
                  repOk R p rawc a && decide (outc = a % p) && decide (conv = a % p)
                | _ => false)
             | _ => false }
  | "rmd", [p, a, b] =>
    let C := mkA n p
    let A := toMgA C a
    let B := toMgA C b
    let raws := [invA C B, divA C A B, invA C B, divA C A B]
    let plain := [invMod R b p, divI R p a b, invMod R b p, divI R p a b]
    let triples := (raws.zip plain).flatMap (fun (x, y) => [x, getRuintA C x, y])
    some { pre := admissibleR R p && inRange p [a, b] && decide (Int.gcd b p = 1)
           model := [B] ++ triples
           spec := fun o => match o with
             | [ib, r1, o1, v1, r2, o2, v2, r3, o3, v3, r4, o4, v4] =>
               repOk R p ib b &&
               isInvOf p b o1 && decide (v1 = o1) && repOk R p r1 o1 &&
               isQuotOf p a b o2 && decide (v2 = o2) && repOk R p r2 o2 &&
               isInvOf p b o3 && decide (v3 = o3) && repOk R p r3 o3 &&
               isQuotOf p a b o4 && decide (v4 = o4) && repOk R p r4 o4
             | _ => false }
  | "rme", [p, a, e] =>
    let C := mkA n p
    let A := toMgA C a
    let e64 := e % 18446744073709551616
    let x1 := expWinA n C A e
    let x2 := expU64A C A e64
    let w1 := powMod p (bitsOf n + 1) 1 a e % p
    let w2 := powMod p 65 1 a e64 % p
    some { pre := admissibleR R p && inRange p [a] && decide (0 ≤ e) && decide (e < R)
           model := [x1, getRuintA C x1, expModI (bitsOf n) p a e, x2, getRuintA C x2, expModI 64 p a e64]
           spec := fun o => checkTriples R p o [w1, w2] }
  | "rmc", [p, v] =>
    let C := mkA n p
    let av := if v < 0 then -v else v
    let x1 := ctorSignedA C v
    let x2 := toMgA C av
    some { pre := admissibleR R p && decide (-9223372036854775808 < v) && decide (v < 9223372036854775808)
           model := [x1, getRuintA C x1, ctorSignedI R p v, x2, getRuintA C x2, av % p]
           spec := fun o => checkTriples R p o [v, av] }
  | "rmx", [p, a, v] | "rmx32", [p, a, v] =>
    let C := mkA n p
    let P : MgCtx := ⟨R, p, 0, 0, 0, 0⟩
    let A := toMgA C a
    let cr := ctorSignedA C v
    let ci := ctorSignedI R p v
    let raws := [mulScalarA C A v, mulScalarA C A v, addR C A cr, subR C A cr, addmulA C A A cr, negR C (subR C A cr), mulScalarA C A v]
    let plain := [mulScalarI R p a v, mulScalarI R p a v, addR P a ci, subR P a ci, addmulI p a a ci, negR P (subR P a ci), mulScalarI R p a v]
    let triples := (raws.zip plain).flatMap (fun (x, y) => [x, getRuintA C x, y])
    some { pre := admissibleR R p && inRange p [a] && decide (-9223372036854775808 < v) && decide (v < 9223372036854775808)
           model := triples
           spec := fun o => checkTriples R p o [a * v, a * v, a + v, a - v, a + a * v, v - a, a * v] }
  | "rmxd", [p, a, v] =>
    let C := mkA n p
    let A := toMgA C a
    let cr := ctorSignedA C v
    let ci := ctorSignedI R p v
    let raws := [divA C A cr, invScalarA C v]
    let plain := [divI R p a ci, invScalarI R p v]
    let triples := (raws.zip plain).flatMap (fun (x, y) => [x, getRuintA C x, y])
    some { pre := admissibleR R p && inRange p [a] && decide (-9223372036854775808 < v) && decide (v < 9223372036854775808) &&
                  decide (Int.gcd v p = 1)
           model := triples
           spec := fun o => match o with
             | [r1, o1, v1, r2, o2, v2] =>
               isQuotOf p a v o1 && decide (v1 = o1) && repOk R p r1 o1 &&
               isInvOf p v o2 && decide (v2 = o2) && repOk R p r2 o2
             | _ => false }
  | _, _ => none

def showInts (xs : List Int) : String := String.intercalate " " (xs.map hexInt)

def montgomeryLine (line : String) : String :=
  match splitLine line with
  | none => "BAD empty"
  | some (key, args, res) =>
    match parseAll args with
    | none => "BAD args | " ++ line.trimAscii.toString
    | some a =>
      let c : Option Case :=
        if key.startsWith "m32" then case32 key a
        else match a with
          | k :: rest => if 6 ≤ k ∧ k ≤ 12 then caseR key (k.toNat - 6) rest else none
          | [] => none
      match c with
      | none => "BAD nofunc | " ++ line.trimAscii.toString
      | some c =>
        if !c.pre then "PRE" else
        match parseAll res with
        | none => s!"DIFF kind=SPEC model={showInts c.model} | {line.trimAscii.toString}"
        | some impl =>
          let specOk := c.spec impl
          let modelOk := c.model == impl
          if specOk && modelOk then "OK"
          else
            let kind := if !specOk && !modelOk then "BOTH" else if !specOk then "SPEC" else "MODEL"
            s!"DIFF kind={kind} model={showInts c.model} | {line.trimAscii.toString}"

end Driver.Montgomery
