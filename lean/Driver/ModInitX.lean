/-
Driver for C04 round 2 (harness/h_c04x.cpp): init / convert / reduce / constants of Montgomery<int32_t>, Montgomery<ruint<K>>,
GFqDom<int32_t|int64_t> at the level of the stored representation.
-/
import Driver.Common
import GivaroModel.Model.ModInitMont
import GivaroModel.Model.GFqInitInt
-- @driver-mode modinitx Driver.ModInitX.modinitxLine
namespace Driver.ModInitX
open Driver
open Givaro Givaro.Model.Montgomery Givaro.Model.MontInit

def srcOf : String → Option Src
  | "s8" => some .s8 | "u8" => some .u8 | "s16" => some .s16 | "u16" => some .u16 | "s32" => some .s32 | "u32" => some .u32
  | "s64" => some .s64 | "u64" => some .u64 | "f32" => some .f32 | "f64" => some .f64 | "Z" => some .Z | _ => none

/-- exactly representable in the floating type (mantissa `mant`, exponent below `emax`)? -/
def fitsFloat (mant : Nat) (emax : Nat) (a : Int) : Bool :=
  let n := a.natAbs
  if n == 0 then true else
  let b := Nat.log2 n + 1
  b ≤ emax && (b ≤ mant || n % 2 ^ (b - mant) == 0)

/-- is `a` a value of the type (as a convert target / source) -/
def srcHolds (s : Src) (a : Int) : Bool :=
  match s with
  | .f32 => fitsFloat 24 128 a
  | .f64 => fitsFloat 53 1024 a
  | s => decide (s.holds a)

/-- can the convert TARGET type hold the lift exactly (floating targets: up to 2^mantissa, the convention of the first round) -/
def dstHolds (s : Src) (a : Int) : Bool :=
  match s with
  | .f32 => decide (-16777216 ≤ a ∧ a ≤ 16777216)
  | .f64 => decide (-9007199254740992 ≤ a ∧ a ≤ 9007199254740992)
  | s => decide (s.holds a)

inductive Ring where
  | m32 | mr (n : Nat)

def ringOf : String → Option Ring
  | "mgx32" => some .m32 | "mgr6" => some (.mr 0) | "mgr7" => some (.mr 1) | "mgr8" => some (.mr 2) | _ => none

def Ring.maxCard : Ring → Int
  | .m32 => maxCard32 | .mr n => radix n - 1
def Ring.top : Ring → Int
  | .m32 => 4294967296 | .mr n => radix n
/-- the Montgomery radix `B` (a stored word `e` denotes `e·B⁻¹ mod p`) -/
def Ring.radixB : Ring → Int
  | .m32 => 65536 | .mr n => radix n

/-- (init, convert, one, mOne, reduce) of the model for a ring and a modulus -/
structure MOps where
  init : Src → Int → Int
  conv : Int → Int
  one : Int
  mOne : Int
  red : Int → Int

def Ring.ops (r : Ring) (p : Int) : MOps :=
  match r with
  | .m32 => let F := mk32 p; { init := init32 F, conv := convert32 F, one := F.one, mOne := F.mOne, red := reduce32 F }
  | .mr n => let C := mkR n p
             -- one / mOne of Montgomery<ruint<K>>: to_mg(one, 1) / to_mg(mOne, p - 1)
             { init := initRSrc C, conv := convertR C, one := toMgR C 1, mOne := toMgR C (p - 1), red := reduceR C }

def montVerdict (r : Ring) (op : String) (a : Array Int) (res : List String) (line : String) : String :=
  let bad (kind : String) (model : String) := s!"DIFF kind={kind} model={model} | {line.trimAscii.toString}"
  let p := a.getD 0 0
  if res == ["NOMOD"] || res == ["NOSRC"] || res == ["NOELT"] || res == ["NOARGS"] then "PRE" else
  if p < 3 || p > r.maxCard || p % 2 == 0 then "PRE" else
  let M := r.ops p
  let classify (specOk modelOk : Bool) (model : String) :=
    if specOk && modelOk then "OK" else bad (if !specOk && !modelOk then "BOTH" else if !specOk then "SPEC" else "MODEL") model
  if op == "consts" then
    match parseAll res with
    | some [z, o, mo, i0, cz, co, cm] =>
      classify (z == 0 && i0 == 0 && cz == 0 && co == 1 && cm == p - 1 && 0 ≤ o && o < p && 0 ≤ mo && mo < p)
        (o == M.one && mo == M.mOne) s!"{hexInt M.one} {hexInt M.mOne}"
    | _ => "BAD result | " ++ line
  else if op == "reduce" then
    let y := a.getD 1 0
    if y < 0 || y ≥ r.top then "PRE" else
    match parseAll res with
    | some [r2, r1] =>
      -- the word is canonical afterwards and denotes the same residue; a canonical word is unchanged
      let spec (v : Int) := 0 ≤ v && v < p && (v - y) % p == 0
      classify (spec r2 && spec r1) (r2 == M.red y && r1 == M.red y) (hexInt (M.red y))
    | _ => "BAD result | " ++ line
  else if op.startsWith "init_" then
    match srcOf (op.drop 5).toString with
    | none => "BAD src | " ++ line
    | some s =>
      let x := a.getD 1 0
      if !srcHolds s x then "PRE" else
      -- Montgomery<int32_t>: the template ("T is supposed to be fit into an Element") excludes a float beyond 2^32
      if (match r, s with | .m32, .f32 => x ≥ 4294967296 || x ≤ -4294967296 | _, _ => false) then "PRE" else
      match parseAll res with
      | some [raw, cv] =>
        let m := M.init s x
        classify (cv == x % p && 0 ≤ raw && raw < p) (raw == m && cv == M.conv m) (hexInt m)
      | _ => "BAD result | " ++ line
  else if op.startsWith "rt_" then
    match srcOf (op.drop 3).toString with
    | none => "BAD src | " ++ line
    | some s =>
      let e := a.getD 1 0
      if e < 0 || e ≥ p then "PRE" else
      let lift := M.conv e
      if !dstHolds s lift then "PRE" else          -- a target type that cannot hold the lift is outside the property
      match parseAll res with
      | some [l, raw] => classify (raw == e && 0 ≤ l && l < p && (l * r.radixB) % p == e % p) (l == lift && raw == M.init s lift) s!"{hexInt lift} {hexInt (M.init s lift)}"
      | _ => if res.contains "NAI" then bad "SPEC" "-" else "BAD result | " ++ line
  else if op.startsWith "conv_" then
    match srcOf (op.drop 5).toString with
    | none => "BAD src | " ++ line
    | some s =>
      let e := a.getD 1 0
      if e < 0 || e ≥ p then "PRE" else
      let lift := M.conv e
      if !dstHolds s lift then "PRE" else
      match parseAll res with
      | some [l] => classify (0 ≤ l && l < p && (l * r.radixB) % p == e % p) (l == lift) (hexInt lift)
      | _ => if res.contains "NAI" then bad "SPEC" "-" else "BAD result | " ++ line
  else "BAD op | " ++ line

/-! ### GFqDom -/
open Givaro.Model.GFqInitInt

def isPrimeN (n : Nat) : Bool :=
  n ≥ 2 && (List.range (Nat.sqrt n + 1)).all (fun d => d < 2 || d == n || n % d != 0)

def gfqVerdict (W : Nat) (op : String) (a : Array Int) (res : List String) (line : String) : String :=
  let bad (kind : String) (model : String) := s!"DIFF kind={kind} model={model} | {line.trimAscii.toString}"
  let p := a.getD 0 0
  let k := a.getD 1 0
  if res == ["NOMOD"] || res == ["NOSRC"] || res == ["NOELT"] || res == ["NOARGS"] then "PRE" else
  if p < 2 || k < 1 || !isPrimeN p.toNat then "PRE" else
  let q := p ^ k.toNat
  if q > maxQ W then "PRE" else
  let classify (specOk modelOk : Bool) (model : String) :=
    if specOk && modelOk then "OK" else bad (if !specOk && !modelOk then "BOTH" else if !specOk then "SPEC" else "MODEL") model
  if op == "consts" then
    match parseAll res with
    | some [z, _o, _mo, lz, lo, lm, i0, rd, qq] =>
      -- zero, one, mOne denote 0, 1, -1 (the constant polynomial p - 1); init() is zero; reduce is the identity; cardinality
      classify (z == 0 && lz == 0 && lo == 1 && lm == (if p == 2 then 1 else p - 1) && i0 == z && rd == _o && qq == q) true "-"
    | _ => "BAD result | " ++ line
  else if op.startsWith "init_" then
    match srcOf (op.drop 5).toString with
    | none => "BAD src | " ++ line
    | some s =>
      let x := a.getD 2 0
      if !srcHolds s x then "PRE" else
      let want := x % q
      let mcode := (code W q s x).getD 0
      match res with
      | [r, "OOB"] => bad "BOTH" s!"{hexInt mcode} (element {r} outside the tables)"
      | _ =>
      match parseAll res with
      | some [r, l, c1, c2, c3, c4, c5, c6, c7] =>
        -- element inside the tables; every convert returns the canonical lift x mod q (≡ x mod p); model: the index looked up
        classify (0 ≤ r && r < q && [l, c1, c2, c3, c4, c5, c6, c7].all (· == want)) (l == mcode) (hexInt mcode)
      | _ => if res.contains "NAI" then bad "SPEC" "-" else "BAD result | " ++ line
  else if op.startsWith "rt_" then
    match srcOf (op.drop 3).toString with
    | none => "BAD src | " ++ line
    | some s =>
      let e := a.getD 2 0
      if e < 0 || e ≥ q then "PRE" else
      match parseAll res with
      | some [l, r] => if !dstHolds s l then "PRE" else classify (r == e && 0 ≤ l && l < q) true "-"
      | _ => "BAD result | " ++ line
  else "BAD op | " ++ line

def modinitxLine (line : String) : String :=
  match splitLine line with
  | none => "BAD empty"
  | some (key, args, res) =>
    match key.splitOn ".", parseAll args with
    | [tag, op], some a =>
      if tag == "gfx32" then gfqVerdict 32 op a.toArray res line
      else if tag == "gfx64" then gfqVerdict 64 op a.toArray res line
      else match ringOf tag with
        | none => "BAD noring | " ++ line
        | some r => montVerdict r op a.toArray res line
    | _, _ => "BAD args | " ++ line

end Driver.ModInitX
