/- C12 driver: evaluates the model (Model/Primes.lean) and the checkers (Spec/PrimesSpec.lean) on every line produced by
   harness/h_primes.cpp. -/
import Driver.Common
import GivaroModel.Model.Primes
import GivaroModel.Model.PrimesPower
import GivaroModel.Model.PrimesFactor
import GivaroModel.Model.PrimesMisc
import GivaroModel.Model.PrimesContainers
import GivaroModel.Model.PrimesMR
import GivaroModel.Model.PrimesErat
import GivaroModel.Model.PrimesRho
import GivaroModel.Spec.PrimesSpec
-- @driver-mode primes Driver.Primes.primesLine
namespace Driver.Primes
open Driver
open Givaro Givaro.Model.Primes Givaro.Spec.Primes

/-- `mpz_probab_prime_p` is an oracle of the model; the driver instantiates it with the reference test -/
def oracleD (n : Int) : Int := if primeI n then 1 else 0
def ispD (n : Int) : Bool := ispB oracleD n

def primesVerdict (line : String) (specOk modelOk : Bool) (model : String) : String :=
  if specOk && modelOk then "OK"
  else
    let kind := if !specOk && !modelOk then "BOTH" else if !specOk then "SPEC" else "MODEL"
    s!"DIFF kind={kind} model={model} | {line.trimAscii.toString}"

def showOpt (o : Option Int) : String := match o with | some v => hexInt v | none => "UB"

def pairs : List Int → List (Nat × Nat)
  | a :: b :: rest => (a.toNat, b.toNat) :: pairs rest
  | _ => []

def showPairs (fs : List (Nat × Nat)) : String := String.intercalate " " (fs.map (fun pe => hexNat pe.1 ++ "^" ++ hexNat pe.2))

/-- `iffactorprime` replayed from the implementation's own factor list: first listed factor dividing `m` (else 1) -/
def replayPf (fs : List (Nat × Nat)) (m : Nat) : Nat :=
  match fs.find? (fun pe => pe.1 ≠ 0 && m % pe.1 == 0) with
  | some pe => pe.1
  | none => 1

/-- divide `p` out of `m` completely -/
def stripAll (p : Nat) : Nat → Nat → Nat
  | 0, m => m
  | fuel+1, m => if m % p == 0 && m != 0 then stripAll p fuel (m / p) else m

def primesLine (line : String) : String :=
  match splitLine line with
  | none => "BAD empty"
  | some (key, args, res) =>
    if res == ["TIMEOUT"] || res == ["SIGNAL"] then s!"DIFF kind=SPEC model=- (the call did not return / raised a signal) | {line.trimAscii.toString}" else
    match parseAll args, parseAll res with
    | some a, some r =>
      match key, a, r with
      | "isprime", [n], [v] =>
        if n ≥ (mrLimit : Int) then "PRE" else
        let m := isprime oracleD n
        let specOk := (v != 0) == primeI n
        -- below the table boundary the returned int is determined (0/1); above it only its truth value
        let modelOk := match m with
          | some mv => if n < 65536 then mv == v else (mv != 0) == (v != 0)
          | none => false
        primesVerdict line specOk modelOk (showOpt m)
      | "nextprime", [p], [q] => let m := nextprime ispD 20000 p; primesVerdict line (chkNext p q) (m == some q) (showOpt m)
      | "nextprimein", [p], [q] => let m := nextprime ispD 20000 p; primesVerdict line (chkNext p q) (m == some q) (showOpt m)
      | "prevprime", [p], [q] => let m := prevprime ispD 20000 p; primesVerdict line (chkPrev p q) (m == some q) (showOpt m)
      | "prevprimein", [p], [q] => let m := prevprime ispD 20000 p; primesVerdict line (chkPrev p q) (m == some q) (showOpt m)
      | "Pprevprime", [p], [q] => let m := protectedPrevprime primeI 20000 p; primesVerdict line (chkPrev p q) (m == some q) (showOpt m)
      | "Pnextprime", [p], [q] =>
        -- mpz_nextprime itself: not modelled (GMP), only checked; GMP documents "next prime greater than p"
        primesVerdict line (chkNext p q) true "-"
      | "factor", [n], [f] =>
        -- model: the deterministic cascades; Pollard's output is an oracle, replayed from the implementation
        let m := factor (fun _ => f) n
        primesVerdict line (chkFactor n f) (m == f) (hexInt m)
      | "iffactorprime", [n], [f] =>
        -- model: guards, cascades and the `while (!isprime(r))` descent of Model/PrimesFactor.lean; the answers of the rho / ECM
        -- searches are not observable from outside: the model is run with oracles answering the implementation's result
        let m := iffactorprime ispD (fun _ _ => f) (fun _ => f) (n.toNat + 2) n
        primesVerdict line (chkPrimeFactor n f) (m == some f) (showOpt m)
      | "primefactor", [n], [f] =>
        let m := primefactor ispD (fun _ _ _ => f) (fun _ => f) 3 n
        primesVerdict line (chkPrimeFactor n f) (m == some f) (showOpt m)
      | "set1", [n], k :: rest =>
        -- set(Lf, n): the distinct prime factors (no exponents); model replayed with the implementation's own primes
        let ps := rest.map Int.toNat
        -- (when no listed prime divides the cofactor the replayed oracle answers the cofactor itself: the model then ends, and differs)
        let m := set1 (fun x => match ps.find? (fun q => decide (2 ≤ q) && x % q == 0) with | some q => q | none => x) n
        if ps.length != k.toNat then "BAD set1 | " ++ line else
        if n == 0 then "PRE" else
        let cof := ps.foldl (fun m p => if p < 2 then m else stripAll p (Nat.log2 m + 1) m) n.natAbs
        primesVerdict line (ps.all primeN && distinct ps && ps.all (fun p => n.natAbs % p == 0) && cof == 1) (m == some ps)
          (match m with | some l => String.intercalate " " (l.map hexNat) | none => "fuel")
      | "set", [n], c :: k :: rest =>
        let fs := pairs rest
        if fs.length != k.toNat || rest.length != 2 * k.toNat then "BAD set | " ++ line else
        if n == 0 then (if fs.isEmpty then "OK" else primesVerdict line false true "-") else
        let specOk := chkFactorisation n fs && c == 1
        let m := set (replayPf fs) n
        let modelOk := m == some (fs, c != 0)
        primesVerdict line specOk modelOk (match m with | some (l, b) => s!"{b} {showPairs l}" | none => "fuel")
      | "setl", [n, loops], c :: k :: rest =>
        -- set(Lf, Lo, n, loops) with a bound on Pollard's loops: the partial contract of `set_partial`
        let fs := pairs rest
        if fs.length != k.toNat || rest.length != 2 * k.toNat || loops ≤ 0 then "BAD setl | " ++ line else
        if n == 0 then (if fs.isEmpty then "OK" else primesVerdict line false true "-") else
        let complete := c != 0
        let specOk := fs.all (fun pe => decide (2 ≤ pe.1 ∧ 1 ≤ pe.2)) && distinct (fs.map (·.1)) && prodPow fs == n.natAbs &&
          (!complete || fs.all (fun pe => primeN pe.1)) &&
          -- an incomplete factorisation ends with the unfactored cofactor; everything before it is prime
          (complete || ((fs.dropLast).all (fun pe => primeN pe.1) && !fs.isEmpty))
        let pfR (m : Nat) : Nat :=
          match fs.find? (fun pe => pe.1 ≠ 0 && m % pe.1 == 0) with
          | some pe => if !complete && pe.1 == m then 1 else pe.1
          | none => 1
        let m := set pfR n
        let modelOk := m == some (fs, complete)
        primesVerdict line specOk modelOk (match m with | some (l, b) => s!"{b} {showPairs l}" | none => "fuel")
      | "lenstra", [n, _b1, _curves], [g] =>
        -- Lenstra(gen, g, n, B1, curves): guards modelled, the curves are an oracle replayed from the implementation; contract: the
        -- failure value -1, or a divisor of n that is non-trivial when n > 1 is composite
        let m := lenstra ispD (fun _ => g) n
        let specOk := if n ≤ 1 then g == n else (g == -1 && !primeI n && n % 2 != 0 && n % 3 != 0) || chkFactor n g
        primesVerdict line specOk (m == g) (hexInt m)
      | "pollard", [n, loops], [g] =>
        let m := pollard ispD (fun _ => g) n
        let specOk := if n < 3 || primeI n then g == n
          else if loops == 0 then chkFactor n g
          else decide (g ≠ 0) && n % g == 0 && decide (1 ≤ g)          -- bounded: any positive divisor, 1 = gave up
        primesVerdict line specOk (m == g) (hexInt m)
      | "factorL", [n], [f] =>
        let m := factorLen ispD (fun _ => f) n
        primesVerdict line (chkFactor n f) (m == f) (hexInt m)
      | "setL", [n], c :: k :: rest =>
        let fs := pairs rest
        if fs.length != k.toNat || rest.length != 2 * k.toNat then "BAD setL | " ++ line else
        if n == 0 then (if fs.isEmpty then "OK" else primesVerdict line false true "-") else
        let m := set (replayPf fs) n
        primesVerdict line (chkFactorisation n fs && c == 1) (m == some (fs, c != 0))
          (match m with | some (l, b) => s!"{b} {showPairs l}" | none => "fuel")
      | "fermat", [n], [f] =>
        if n < 0 || n ≥ 32 then "PRE" else
        let m := fermat n.toNat
        primesVerdict line (f == ((2 ^ (2 ^ n.toNat) + 1 : Nat) : Int)) ((m : Int) == f) (hexNat m)
      | "pepin", [n], [b] =>
        if n < 0 || n ≥ 32 then "PRE" else
        -- F_0 … F_4 are prime, F_5 … F_32 are known to be composite; `pepin_iff_prime` makes the model the primality of F_n
        let m := pepin n.toNat
        primesVerdict line ((b != 0) == decide (n ≤ 4)) (m == (b != 0)) (toString m)
      | "isprimer", [n, _r], [v] =>
        if n ≥ (mrLimit : Int) then "PRE" else
        let m := isprime oracleD n
        let modelOk := match m with
          | some mv => if n < 65536 then mv == v else (mv != 0) == (v != 0)
          | none => false
        primesVerdict line ((v != 0) == primeI n) modelOk (showOpt m)
      | "localprime", [n, _r], [v] =>
        if n ≥ (mrLimit : Int) || n < 2 then "PRE" else
        primesVerdict line ((v != 0) == primeI n) ((oracleD n != 0) == (v != 0)) (hexInt (oracleD n))
      | "tabule", [n], [v] =>
        if n < 0 || n ≥ 32768 then "PRE" else
        let m := isprime_Tabule n
        primesVerdict line (v == (if primeI n then 1 else 0)) (m == some v) (showOpt m)
      | "tabule2", [n], [v] =>
        if n < 32768 || n ≥ 65536 then "PRE" else
        let m := isprime_Tabule2 n
        primesVerdict line (v == (if primeI n then 1 else 0)) (m == some v) (showOpt m)
      | "miller", [n], [v] =>
        -- Monte Carlo: "returns 0 : n composite" -- a prime must pass whatever base is drawn (the base is not observable)
        if n ≥ (mrLimit : Int) then "PRE" else
        let specOk := if n < 2 then v == 0 else if n ≤ 3 then v == 1 else (v == 0 || v == 1) && (!primeI n || v == 1)
        primesVerdict line specOk true "-"
      | "lehmann", [n], [r] =>
        -- test_Lehmann: a^((n-1)/2) mod n; "n-1 / 1 : n prime w.p. 1/2; else n composite": for a prime only 1 and n-1 may come out
        if n ≥ (mrLimit : Int) || n < 2 then "PRE" else
        let specOk := decide (0 ≤ r ∧ r < n) && (!primeI n || n == 2 || r == 1 || r == n - 1)
        primesVerdict line specOk true "-"
      | "lehmannb", [n], [v] =>
        let specOk := if n < 2 then v == 0 else if n ≤ 3 then v == 1 else (v == 0 || v == 1)
        primesVerdict line specOk true "-"
      | "pollards", [n, loops, _seed], k :: rest =>
        -- Pollard(gen, g, n, loops) right after Integer::seeding(seed), with the start values of the (re)tries recomputed by the harness:
        -- the rho iteration itself is modelled (Model/PrimesRho.lean) and compared exactly; the specification is that of `pollard`
        if rest.length != k.toNat + 1 || loops < 0 then "BAD pollards | " ++ line else
        let ys := rest.take k.toNat
        let g := rest.getD k.toNat 0
        let specOk := if n < 3 || primeI n then g == n
          else if loops == 0 then chkFactor n g
          else decide (g ≠ 0) && n % g == 0 && decide (1 ≤ g)
        match pollardStarts ispD 30000000 n loops.toNat ys with
        | none => if specOk then "PRE" else primesVerdict line false true "-"      -- more retries than start values supplied
        | some m => primesVerdict line specOk (m == g) (hexInt m)
      | "factorl", [n, loops], [f] =>
        -- factor(r, n, loops): the cascades are deterministic; with loops ≠ 0 the rho search may give up (1 or n) on a cofactor without
        -- prime factor ≤ 97: then only "a positive divisor" is promised (Pollard's guards: n < 3 and primes are returned as they are)
        let m := factor (fun _ => f) n
        let small := Int.gcd n 223092870 != 1 || Int.gcd n 10334565887047481278774629361 != 1
        let specOk := if loops == 0 || small then chkFactor n f
          else if n < 3 || primeI n then f == n else decide (1 ≤ f) && n % f == 0
        primesVerdict line specOk (m == f) (hexInt m)
      | "iffactorprimel", [n, loops], [f] =>
        let m := iffactorprime ispD (fun _ _ => f) (fun _ => f) (n.toNat + 2) n
        -- bounded loops: the partial contract -- a divisor of n (or Lenstra's failure value -1 after Pollard gave up); a prime when loops = 0
        let specOk := if loops == 0 then chkPrimeFactor n f else f == -1 || (decide (f ≠ 0) && n % f == 0)
        primesVerdict line specOk (m == some f) (showOpt m)
      | "millers", [n, _seed], [a, v] =>
        -- Miller(g, n) right after Integer::seeding(seed); `a` = 2 + (first mpz_urandomm(n-3) of a state seeded alike), recomputed by the
        -- harness.  Specification (Props/C12MR.lean): guards; a prime passes; the base is in [2, n-2]; for odd n the answer is the strong
        -- test to base a (Spec.mrBase, written independently of the model); model: millerBase, compared exactly
        if n ≥ (mrLimit : Int) then "PRE" else
        let m := millerBase n a
        let specOk :=
          if n < 2 then v == 0 else if n ≤ 3 then v == 1 else
          let N := n.toNat
          let ds := oddPart (Nat.log2 N + 1) (N - 1) 0
          (v == 0 || v == 1) && decide (2 ≤ a ∧ a ≤ n - 2) && (!primeI n || v == 1) &&
            (N % 2 == 0 || (v == 1) == mrBase N ds.1 ds.2 a.toNat)
        primesVerdict line specOk (m == v) (hexInt m)
      | "lehmanns", [n, _seed], [a, r, v] =>
        -- test_Lehmann(g, r, n) and Lehmann(g, n), each right after Integer::seeding(seed); `a` = 1 + mpz_urandomm(n-1) recomputed.
        -- Specification: r = a^((n-1)/2) mod n; for a prime only 1 and n-1 come out; Lehmann = [r = n-1] behind the guards
        if n ≥ (mrLimit : Int) then "PRE" else
        if n < 2 then primesVerdict line (v == 0) (lehmannBase n a == v) (hexInt (lehmannBase n a)) else
        let N := n.toNat
        let pw := (powModNat a.toNat ((N - 1) / 2) N : Int)
        let specOk := decide (1 ≤ a ∧ a ≤ n - 1) && r == pw && (!primeI n || r == 1 || r == n - 1) &&
          v == (if n ≤ 3 then 1 else if r == n - 1 then 1 else 0)
        let mr := testLehmannBase n a
        let mv := lehmannBase n a
        primesVerdict line specOk (mr == r && mv == v) s!"{hexInt mr} {hexInt mv}"
      | "write", [n], neg :: k :: rest =>
        -- write(o, Lf, n) / write(o, n): text parsed strictly by the harness into (sign, p^e list), Lf, and the second text
        let fs := pairs (rest.take (2 * k.toNat))
        match rest.drop (2 * k.toNat) with
        | m1 :: rest2 =>
          let lf := rest2.take m1.toNat
          match rest2.drop m1.toNat with
          | neg2 :: k2 :: rest3 =>
            let fs2 := pairs rest3
            if fs.length != k.toNat || fs2.length != k2.toNat then "BAD write | " ++ line else
            let signOk := (neg != 0) == decide (n < 0) && (neg2 != 0) == decide (n < 0)
            if n.natAbs ≤ 1 then
              primesVerdict line (signOk && fs == [(n.natAbs, 1)] && fs2 == [(n.natAbs, 1)] && lf == [(n.natAbs : Int)]) true "-"
            else
              let specOk := signOk && chkFactorisation n fs && chkFactorisation n fs2 && lf == fs.map (fun pe => (pe.1 : Int))
              let m := set (replayPf fs) n
              primesVerdict line specOk (m == some (fs, true)) (match m with | some (l, b) => s!"{b} {showPairs l}" | none => "fuel")
          | _ => "BAD write | " ++ line
        | _ => "BAD write | " ++ line
      | "erat", [n], k :: rest =>
        -- Erathostene(Lf, p): the distinct prime factors of |p| in increasing order (certificate), and the sieve itself
        -- (Model/PrimesErat.lean: marking loop, divisibility by "last multiple marked = n", walk over the unmarked odd numbers)
        let ps := rest.map Int.toNat
        if ps.length != k.toNat then "BAD erat | " ++ line else
        if n.natAbs ≥ 1073741824 then "PRE" else
        let m := erathostene n
        let ms := String.intercalate " " (m.map hexNat)
        if n == 0 then primesVerdict line ps.isEmpty (m == ps) ms else
        let cof := ps.foldl (fun m p => if p < 2 then m else stripAll p (Nat.log2 m + 1) m) n.natAbs
        let sorted := (ps.zip (ps.drop 1)).all (fun ab => decide (ab.1 < ab.2))
        primesVerdict line (ps.all primeN && sorted && ps.all (fun p => n.natAbs % p == 0) && cof == 1) (m == ps) ms
      | "divinto", [n, _m], k :: rest =>
        -- divisors(L, Lf, Le), divisors(L, n) and divisors(Lf, Lf, Le) on an output list that already holds the divisors of m and junk:
        -- the list left behind is that of the input alone (`divisorsInto old fs = divisors fs`)
        let fs := pairs (rest.take (2 * k.toNat))
        let takeList (xs : List Int) : Option (List Nat × List Int) :=
          match xs with
          | c :: ys => if ys.length < c.toNat then none else some ((ys.take c.toNat).map Int.toNat, ys.drop c.toNat)
          | [] => none
        match takeList (rest.drop (2 * k.toNat)) with
        | some (d1, r1) =>
          match takeList r1 with
          | some (d2, r2) =>
            if !r2.isEmpty then "BAD divinto | " ++ line else
            let m := divisorsInto (0 :: d1) fs
            let specOk := if n == 0 then d1 == [1] && d2 == [1] else chkDivisors n fs d1 && chkDivisors n fs d2
            primesVerdict line specOk (m == d1) (String.intercalate " " (m.map hexNat))
          | none => "BAD divinto | " ++ line
        | none => "BAD divinto | " ++ line
      | "divalias", [n], k :: rest =>
        let fs := pairs (rest.take (2 * k.toNat))
        match rest.drop (2 * k.toNat) with
        | c :: ds =>
          let d := ds.map Int.toNat
          if d.length != c.toNat then "BAD divalias | " ++ line else
          let m := divisorsInto (fs.map (·.1)) fs
          primesVerdict line (if n == 0 then d == [1] else chkDivisors n fs d) (m == d) (String.intercalate " " (m.map hexNat))
        | [] => "BAD divalias | " ++ line
      | "setinto", [n, _m], c :: p0 :: rest =>
        -- set(Lf, Lo, n) on containers that already hold the factorisation of m and junk: push_back, the old pairs stay in front
        let pre := pairs (rest.take (2 * p0.toNat))
        match rest.drop (2 * p0.toNat) with
        | kf :: ko :: rest2 =>
          let fin := pairs rest2
          if pre.length != p0.toNat || fin.length != kf.toNat || rest2.length != 2 * kf.toNat then "BAD setinto | " ++ line else
          let newp := fin.drop pre.length
          let specOk := kf == ko && fin.take pre.length == pre &&
            (if n == 0 then newp.isEmpty else chkFactorisation n newp && c == 1)
          let m := setInto (replayPf newp) pre n
          primesVerdict line specOk (m == some (fin, c != 0)) (match m with | some (l, b) => s!"{b} {showPairs l}" | none => "fuel")
        | _ => "BAD setinto | " ++ line
      | key2, [n, _m], p0 :: rest =>
        if key2 != "set1into" && key2 != "eratinto" && key2 != "writeinto" then "BAD key/arity | " ++ line else
        -- set(Lf, n) / Erathostene(Lf, n) / write(o, Lf, n) on a container that already holds the primes of m and junk
        let pre := (rest.take p0.toNat).map Int.toNat
        match rest.drop p0.toNat with
        | kf :: rest2 =>
          let fin := rest2.map Int.toNat
          if pre.length != p0.toNat || fin.length != kf.toNat || !(rest2.all (fun x => decide (0 ≤ x))) then "BAD into | " ++ line else
          let newp := fin.drop pre.length
          let cof := newp.foldl (fun x q => if q < 2 then x else stripAll q (Nat.log2 x + 1) x) n.natAbs
          let primesOk := newp.all primeN && distinct newp && newp.all (fun q => n.natAbs % q == 0) && cof == 1
          let sorted := (newp.zip (newp.drop 1)).all (fun ab => decide (ab.1 < ab.2))
          let specNew :=
            if key2 == "writeinto" && n.natAbs ≤ 1 then newp == [n.natAbs]        -- write pushes 0 / 1 itself
            else if n == 0 then newp.isEmpty
            else primesOk && (key2 != "eratinto" || sorted)
          let specOk := fin.take pre.length == pre && specNew
          if key2 == "eratinto" then
            let m := pre ++ erathostene n          -- push_back: the old entries stay in front
            primesVerdict line specOk (m == fin) (String.intercalate " " (m.map hexNat)) else
          if n.natAbs ≤ 1 then primesVerdict line specOk true "-" else
          let m := set1Into (fun x => match newp.find? (fun q => decide (2 ≤ q) && x % q == 0) with | some q => q | none => x) pre n
          primesVerdict line specOk (m == some fin) (match m with | some l => String.intercalate " " (l.map hexNat) | none => "fuel")
        | _ => "BAD into | " ++ line
      | "divisors", [n], k :: rest =>
        let fl := rest.take (2 * k.toNat)
        let fs := pairs fl
        let rest1 := rest.drop (2 * k.toNat)
        match rest1 with
        | m1 :: rest2 =>
          let d1 := (rest2.take m1.toNat).map Int.toNat
          match rest2.drop m1.toNat with
          | m2 :: rest3 =>
            let d2 := rest3.map Int.toNat
            if d2.length != m2.toNat || fs.length != k.toNat then "BAD divisors | " ++ line else
            if n == 0 then "PRE" else
            let specOk := chkDivisors n fs d1 && chkDivisors n fs d2 && d1.all (fun d => 0 < d) && rest2.all (fun d => 0 < d)
            let m := divisors fs
            -- the three-argument overload is determined by (Lf, Le): compared exactly, order included
            let modelOk := m == d1
            primesVerdict line specOk modelOk (String.intercalate " " (m.map hexNat))
          | _ => "BAD divisors | " ++ line
        | _ => "BAD divisors | " ++ line
      | "isprimepower", [n], [e, q] =>
        let m := isprimepower ispD Givaro.Model.Primes.iroot n
        let specOk := decide (0 ≤ e) && (e == 0 || decide (0 < q)) && chkPrimePower n e.toNat q.toNat
        let modelOk := (m.1 : Int) == e && (e == 0 || (m.2 : Int) == q)
        primesVerdict line specOk modelOk s!"{hexNat m.1} {hexNat m.2}"
      | "p16", [i], [v] =>
        -- Primes16::ith(i): the (i+1)-th prime; the model is the extracted table
        let m := primes16.getD i.toNat 0
        let specOk := decide (0 ≤ i) && primeI v && (if i == 0 then v == 2 else chkNext ((primes16.getD (i.toNat - 1) 0 : Nat) : Int) v)
        primesVerdict line specOk ((m : Int) == v) (hexNat m)
      | "p16count", [], [c] =>
        primesVerdict line (c == 6542) ((primes16Size : Int) == c && primes16.length == primes16Size) (hexNat primes16Size)
      | _, _, _ => "BAD key/arity | " ++ line
    | _, _ => "BAD number | " ++ line

end Driver.Primes
