/- C03 driver: evaluates the residue-ring model and the exact specification on every line produced
   by harness/h_modring.cpp (`<ring>.<op> <m> <arg>… = <result>`). -/
import Driver.Common
import GivaroModel.Model.ModRing
import GivaroModel.Model.ModRingHist
import GivaroModel.Model.ModRingRecInt
import GivaroModel.Model.ModRingExt
import GivaroModel.Model.ModRingLog16
import GivaroModel.Model.ModRingInit
import GivaroModel.Model.ModRingPrecomp
import GivaroModel.Model.ModRingGeneric
import GivaroModel.Spec.ModRingSpec
-- @driver-mode modring Driver.ModRing.modringLine
-- @driver-mode modinit Driver.ModRing.modinitLine
namespace Driver.ModRing
open Driver
open Givaro.Model.ModRing Givaro.Spec.ModRing

inductive Fam where
  | int (k : ICfg) | flt (k : FCfg) | balF (k : BFCfg) | balI (k : BICfg) | ext (k : ECfg)
  | zz | ru (k : RCfg) | log16 | mont | gfq | gen (k : GCfg)

def famOf : String → Option Fam
  | "s8" => some (.int ⟨8, true, 8⟩) | "s16" => some (.int ⟨16, true, 16⟩)
  | "s32" => some (.int ⟨32, true, 32⟩) | "s64" => some (.int ⟨64, true, 64⟩)
  | "u8" => some (.int ⟨8, false, 8⟩) | "u16" => some (.int ⟨16, false, 16⟩)
  | "u32" => some (.int ⟨32, false, 32⟩) | "u64" => some (.int ⟨64, false, 64⟩)
  | "s8u16" => some (.int ⟨8, true, 16⟩) | "s16u32" => some (.int ⟨16, true, 32⟩)
  | "s32u64" => some (.int ⟨32, true, 64⟩) | "s64u128" => some (.int ⟨64, true, 128⟩)
  | "u8u16" => some (.int ⟨8, false, 16⟩) | "u16u32" => some (.int ⟨16, false, 32⟩)
  | "u32u64" => some (.int ⟨32, false, 64⟩) | "u64u128" => some (.int ⟨64, false, 128⟩)
  | "f32" => some (.flt ⟨24, 24⟩) | "f64" => some (.flt ⟨53, 53⟩) | "f32f64" => some (.flt ⟨24, 53⟩)
  | "bf32" => some (.balF ⟨24⟩) | "bf64" => some (.balF ⟨53⟩)
  | "bs32" => some (.balI ⟨32⟩) | "bs64" => some (.balI ⟨64⟩)
  | "xf32" => some (.ext ⟨24⟩) | "xf64" => some (.ext ⟨53⟩)
  | "Z" => some .zz
  | "ru6" => some (.ru ⟨64, false, false⟩) | "ru7" => some (.ru ⟨128, false, false⟩) | "ru7ru8" => some (.ru ⟨128, false, true⟩)
  | "ri7" => some (.ru ⟨128, true, false⟩)
  | "log16" => some .log16
  | "mg32" => some .mont | "gfq32" => some .gfq
  | "g8" => some (.gen ⟨8, true⟩) | "g16" => some (.gen ⟨16, true⟩) | "g32" => some (.gen ⟨32, true⟩) | "g64" => some (.gen ⟨64, true⟩)
  | "gu8" => some (.gen ⟨8, false⟩) | "gu16" => some (.gen ⟨16, false⟩)
  | _ => none

def Fam.balanced : Fam → Bool
  | .balF _ | .balI _ => true
  | _ => false

/-- (minCardinality, maxCardinality) as the model has them; `none` = no maximum -/
def Fam.limits : Fam → Int × Option Int
  | .int k => (k.minCard, some k.maxCard)
  | .flt k => (k.minCard, some k.maxCard)
  | .balF k => (k.minCard, some k.maxCard)
  | .balI k => (k.minCard, some k.maxCard)
  | .ext k => (2, some k.maxCard)
  | .zz => (2, none)
  | .ru k => (2, some k.maxCard)
  | .log16 => (2, some 16381)
  | .mont => (2, some 40503)
  | .gfq => (2, some 65536)
  | .gen k => (2, some k.maxCard)

inductive MRes where
  | noModel | inexact | val (x : Int)
deriving BEq

def ofOpt : Option Int → MRes
  | some x => .val x
  | none => .inexact

def b2i (b : Bool) : Int := if b then 1 else 0

/-- the model's result for `op` (operands in the order of the harness line) -/
def modelEval (f : Fam) (op : String) (p : Int) (a : Array Int) : MRes :=
  let g (i : Nat) : Int := a.getD i 0
  match f with
  | .int k =>
    match op with
    | "add" | "addin" => .val (k.add p (g 0) (g 1))
    | "sub" | "subin" => .val (k.sub p (g 0) (g 1))
    | "mul" | "mulin" => .val (k.mul p (g 0) (g 1))
    | "neg" | "negin" => .val (k.neg p (g 0))
    | "inv" | "invin" => .val (k.inv p (g 0))
    | "div" => .val (k.div p (g 0) (g 1))
    | "divin" => .val (k.divin p (g 0) (g 1))
    | "axpy" => .val (k.axpy p (g 0) (g 1) (g 2))
    | "axmy" => .val (k.axmy p (g 0) (g 1) (g 2))
    | "maxpy" => .val (k.maxpy p (g 0) (g 1) (g 2))
    | "axpyin" => .val (k.axpy p (g 1) (g 2) (g 0))
    | "axmyin" => .val (k.axmy p (g 1) (g 2) (g 0))
    | "maxpyin" => .val (k.maxpy p (g 1) (g 2) (g 0))
    | "isUnit" => .val (b2i (k.isUnit p (g 0)))
    | "reduce1" | "reduce2" => .val (k.reduce p (g 0))
    | _ => .noModel
  | .flt k =>
    match op with
    | "add" | "addin" => ofOpt (k.add p (g 0) (g 1))
    | "sub" | "subin" => ofOpt (k.sub p (g 0) (g 1))
    | "mul" | "mulin" => ofOpt (k.mul p (g 0) (g 1))
    | "neg" | "negin" => ofOpt (k.neg p (g 0))
    | "inv" | "invin" => ofOpt (k.inv p (g 0))
    | "div" => ofOpt (k.div p (g 0) (g 1))
    | "divin" => ofOpt (k.divin p (g 0) (g 1))
    | "axpy" => ofOpt (k.axpy p (g 0) (g 1) (g 2))
    | "axmy" => ofOpt (k.axmy p (g 0) (g 1) (g 2))
    | "maxpy" => ofOpt (k.maxpy p (g 0) (g 1) (g 2))
    | "axpyin" => ofOpt (k.axpy p (g 1) (g 2) (g 0))
    | "axmyin" => ofOpt (k.axmyin p (g 0) (g 1) (g 2))
    | "maxpyin" => ofOpt (k.maxpyin p (g 0) (g 1) (g 2))
    | "isUnit" => ofOpt ((k.isUnit p (g 0)).map b2i)
    | "reduce1" | "reduce2" => ofOpt (k.reduce p (g 0))
    | _ => .noModel
  | .balF k =>
    match op with
    | "add" | "addin" => ofOpt (k.add p (g 0) (g 1))
    | "sub" | "subin" => ofOpt (k.sub p (g 0) (g 1))
    | "mul" | "mulin" => ofOpt (k.mul p (g 0) (g 1))
    | "neg" | "negin" => ofOpt (k.neg p (g 0))
    | "inv" | "invin" => ofOpt (k.inv p (g 0))
    | "div" | "divin" => ofOpt (k.div p (g 0) (g 1))
    | "axpy" => ofOpt (k.axpy p (g 0) (g 1) (g 2))
    | "axmy" => ofOpt (k.axmy p (g 0) (g 1) (g 2))
    | "maxpy" => ofOpt (k.maxpy p (g 0) (g 1) (g 2))
    | "axpyin" => ofOpt (k.axpy p (g 1) (g 2) (g 0))
    | "axmyin" => ofOpt (k.axmy p (g 1) (g 2) (g 0))
    | "maxpyin" => ofOpt (k.maxpy p (g 1) (g 2) (g 0))
    | "isUnit" => ofOpt ((k.isUnit p (g 0)).map b2i)
    | "reduce1" | "reduce2" => ofOpt (k.reduce p (g 0))
    | _ => .noModel
  | .balI k =>
    match op with
    | "add" | "addin" => .val (k.add p (g 0) (g 1))
    | "sub" | "subin" => .val (k.sub p (g 0) (g 1))
    | "mul" | "mulin" => .val (k.mul p (g 0) (g 1))
    | "neg" | "negin" => .val (k.neg p (g 0))
    | "axpy" => .val (k.axpy p (g 0) (g 1) (g 2))
    | "axmy" => .val (k.axmy p (g 0) (g 1) (g 2))
    | "maxpy" => .val (k.maxpy p (g 0) (g 1) (g 2))
    | "axpyin" => .val (k.axpy p (g 1) (g 2) (g 0))
    | "axmyin" => .val (k.axmy p (g 1) (g 2) (g 0))
    | "maxpyin" => .val (k.maxpy p (g 1) (g 2) (g 0))
    | "reduce1" | "reduce2" => .val (k.reduce p (g 0))
    | _ => .noModel
  | .ext k =>
    match op with
    | "add" | "addin" => ofOpt (k.add p (g 0) (g 1))
    | "sub" | "subin" => ofOpt (k.sub p (g 0) (g 1))
    | "mul" | "mulin" => ofOpt (k.mul p (g 0) (g 1))
    | "neg" | "negin" => ofOpt (k.neg p (g 0))
    | "inv" | "invin" => ofOpt (k.inv p (g 0))
    | "div" => ofOpt (k.div p (g 0) (g 1))
    | "divin" => ofOpt (k.divin p (g 0) (g 1))
    | "axpy" => ofOpt (k.axpy p (g 0) (g 1) (g 2))
    | "axmy" => ofOpt (k.axmy p (g 0) (g 1) (g 2))
    | "maxpy" => ofOpt (k.maxpy p (g 0) (g 1) (g 2))
    | "axpyin" => ofOpt (k.axpy p (g 1) (g 2) (g 0))
    | "axmyin" => ofOpt (k.axmy p (g 1) (g 2) (g 0))
    | "maxpyin" => ofOpt (k.maxpy p (g 1) (g 2) (g 0))
    | "isUnit" => ofOpt ((k.isUnit p (g 0)).map b2i)
    | _ => .noModel
  | .gen k =>
    match op with
    | "add" | "addin" => .val (k.add p (g 0) (g 1))
    | "sub" => .val (k.sub p (g 0) (g 1))
    | "subin" => .val (k.subin p (g 0) (g 1))
    | "mul" | "mulin" => .val (k.mul p (g 0) (g 1))
    | "neg" | "negin" => .val (k.neg p (g 0))
    | "inv" | "invin" => .val (k.inv p (g 0))
    | "div" | "divin" => .val (k.div p (g 0) (g 1))
    | "axpy" => .val (k.axpy p (g 0) (g 1) (g 2))
    | "axmy" => .val (k.axmy p (g 0) (g 1) (g 2))
    | "maxpy" => .val (k.maxpy p (g 0) (g 1) (g 2))
    | "axpyin" => .val (k.axpyin p (g 0) (g 1) (g 2))
    | "axmyin" => .val (k.axmyin p (g 0) (g 1) (g 2))
    | "maxpyin" => .val (k.maxpyin p (g 0) (g 1) (g 2))
    | "isUnit" => .val (b2i (k.isUnit p (g 0)))
    | "reduce1" | "reduce2" => .val (k.reduce p (g 0))
    | _ => .noModel
  | .zz =>
    match op with
    | "add" | "addin" => .val (ZMod'.add p (g 0) (g 1))
    | "sub" | "subin" => .val (ZMod'.sub p (g 0) (g 1))
    | "mul" | "mulin" => .val (ZMod'.mul p (g 0) (g 1))
    | "neg" | "negin" => .val (ZMod'.neg p (g 0))
    | "axpy" => .val (ZMod'.axpy p (g 0) (g 1) (g 2))
    | "axmy" => .val (ZMod'.axmy p (g 0) (g 1) (g 2))
    | "maxpy" => .val (ZMod'.maxpy p (g 0) (g 1) (g 2))
    | "axpyin" => .val (ZMod'.axpy p (g 1) (g 2) (g 0))
    | "axmyin" => .val (ZMod'.axmyin p (g 0) (g 1) (g 2))
    | "maxpyin" => .val (ZMod'.maxpy p (g 1) (g 2) (g 0))
    | "reduce1" | "reduce2" => .val (ZMod'.reduce p (g 0))
    | _ => .noModel
  | .ru k =>
    match op with
    | "add" | "addin" => .val (k.add p (g 0) (g 1))
    | "sub" => .val (k.sub p (g 0) (g 1))
    | "subin" => .val (k.subin p (g 0) (g 1))
    | "mul" | "mulin" => .val (k.mul p (g 0) (g 1))
    | "neg" | "negin" => .val (k.neg p (g 0))
    | "inv" | "invin" => .val (k.inv p (g 0))
    | "div" => .val (k.div p (g 0) (g 1))
    | "divin" => .val (k.divin p (g 0) (g 1))
    | "axpy" => .val (k.axpy p (g 0) (g 1) (g 2))
    | "axmy" => .val (k.axmy p (g 0) (g 1) (g 2))
    | "maxpy" => .val (k.maxpy p (g 0) (g 1) (g 2))
    | "axpyin" => .val (k.axpyin p (g 0) (g 1) (g 2))
    | "axmyin" => .val (k.axmy p (g 1) (g 2) (g 0))
    | "maxpyin" => .val (k.maxpyin p (g 0) (g 1) (g 2))
    | "isUnit" => .val (b2i (k.isUnit p (g 0)))
    | "reduce1" | "reduce2" => .val (k.reduce p (g 0))
    | _ => .noModel
  | _ => .noModel

/-- decode one instruction code of a history line: op*256 + d*64 + a*16 + b*4 + c -/
def decodeInstr (code : Int) : Option Instr :=
  let c := code.toNat
  let d := (c / 64) % 4
  let s1 := (c / 16) % 4
  let s2 := (c / 4) % 4
  let s3 := c % 4
  match c / 256 with
  | 0 => some (.add d s1 s2) | 1 => some (.sub d s1 s2) | 2 => some (.mul d s1 s2) | 3 => some (.neg d s1)
  | 4 => some (.axpy d s1 s2 s3) | 5 => some (.axmy d s1 s2 s3) | 6 => some (.maxpy d s1 s2 s3)
  | 7 => some (.addin d s1) | 8 => some (.subin d s1) | 9 => some (.mulin d s1) | 10 => some (.negin d)
  | 11 => some (.axpyin d s1 s2) | 12 => some (.axmyin d s1 s2) | 13 => some (.maxpyin d s1 s2)
  | _ => none

/-- the operation table of a family (`none`: no model of the ring's code, specification only) -/
def Fam.ops? (f : Fam) (p : Int) : Option RingOps :=
  match f with
  | .int k => some (k.ops p)
  | .flt k => some (k.ops p)
  | .balF k => some (k.ops p)
  | .balI k => some (k.ops p)
  | .zz => some (zOps p)
  | .ru k => some (k.ops p)
  | .ext k => some (k.ops p)
  | .gen k => some (k.ops p)
  | _ => none

/-- verdict for a history line: registers after the program, model run and residue run -/
def histVerdict (f : Fam) (m : Int) (a : Array Int) (res : List String) (line : String) : String :=
  let bal := f.balanced
  let regs0 : Regs := ⟨a.getD 0 0, a.getD 1 0, a.getD 2 0, a.getD 3 0⟩
  if !((List.range 4).all (fun i => decide (isCanon bal m (regs0 i)))) then "PRE" else
  match ((a.toList.drop 4).mapM decodeInstr) with
  | none => "BAD code | " ++ line
  | some prog =>
    let wz := runZ (canon bal m) prog regs0
    let want := [wz.r0, wz.r1, wz.r2, wz.r3]
    let model : Option (Option (List Int)) := (f.ops? m).map (fun O => (O.run prog regs0).map (fun r => [r.r0, r.r1, r.r2, r.r3]))
    let showL (l : List Int) := String.intercalate "," (l.map hexInt)
    let showM := match model with
      | none => "-" | some none => "INEXACT" | some (some l) => showL l
    if res.contains "NAI" then s!"DIFF kind=SPEC model={showM} | {line.trimAscii.toString}" else
    match parseAll res with
    | none => "BAD result | " ++ line
    | some impl =>
      let specOk := impl == want
      let modelOk := match model with
        | none => true
        | some r => r == some impl
      if specOk && modelOk then "OK" else
      let kind := if !specOk && !modelOk then "BOTH" else if !specOk then "SPEC" else "MODEL"
      s!"DIFF kind={kind} model={showM} | {line.trimAscii.toString}"

def isPrimeNat (n : Nat) : Bool :=
  n ≥ 2 && (List.range (Nat.sqrt n + 1)).all (fun d => d < 2 || n % d != 0)

/-- verdict for a representation-level line of the log-table ring:
    `log16.raw_<op> p a b c = g ra rb rc rr` (operands as residues; generator, raw operands, raw result) -/
def rawVerdict (op : String) (m : Int) (a : Array Int) (res : List String) (line : String) : String :=
  if res == ["NONUNIT"] then "PRE" else
  if !isPrimeNat m.toNat then "PRE" else
  match parseAll res with
  | some [g, ra, rb, rc, rr] =>
    let T := L16.ofGen m g
    let n := a.size
    let raws := #[ra, rb, rc]
    -- init: the raw operands are the table's representations of the residues
    let repOk := (List.range n).all (fun i => T.rep (a.getD i 0) == raws.getD i 0 && T.val (raws.getD i 0) == a.getD i 0)
    let o := (op.drop 4).toString
    let model : Option Int := match o, n with
      | "add", 2 | "addin", 2 => some (T.add ra rb)
      | "sub", 2 | "subin", 2 => some (T.sub ra rb)
      | "mul", 2 | "mulin", 2 => some (T.mul ra rb)
      | "div", 2 => some (T.div ra rb)
      | "inv", 1 => some (T.inv ra)
      | "neg", 1 | "negin", 1 => some (T.neg ra)
      | "axpy", 3 => some (T.axpy ra rb rc)
      | "axmy", 3 => some (T.axmy ra rb rc)
      | "maxpy", 3 => some (T.maxpy ra rb rc)
      | "axpyin", 3 => some (T.axpyin ra rb rc)
      | "axmyin", 3 => some (T.axmyin ra rb rc)
      | "maxpyin", 3 => some (T.maxpyin ra rb rc)
      | _, _ => none
    match model with
    | none => "BAD op | " ++ line
    | some mr =>
      let canonRep := (0 ≤ rr && rr < m - 1) || rr == 2 * (m - 1)
      let g0 := a.getD 0 0
      let g1 := a.getD 1 0
      let specOk : Bool := canonRep && (match o with
        | "div" => isQuot false m g0 g1 (T.val rr)
        | "inv" => isQuot false m 1 g0 (T.val rr)
        | _ => match exactZ o a with
          | some z => T.val rr == canonU m z
          | none => false)
      let modelOk := repOk && mr == rr
      if specOk && modelOk then "OK" else
      let kind := if !specOk && !modelOk then "BOTH" else if !specOk then "SPEC" else "MODEL"
      s!"DIFF kind={kind} model={hexInt mr} repOk={repOk} | {line.trimAscii.toString}"
  | _ => "BAD result | " ++ line

/-- verdict for the precomputed-reciprocal multiplications (modular-mulprecomp.inl):
    `mulpp m a b = bitsizep invp r` ; `mulpb m a b = invb without_reduction r` -/
def precompVerdict (k : ICfg) (op : String) (m : Int) (a : Array Int) (res : List String) (line : String) : String :=
  let x := a.getD 0 0
  let y := a.getD 1 0
  let n := k.bitsize m
  -- the documented domain: assert(bitsizep <= 4*s-2) for the `_p` variant, assert(bitsizep <= 4*s-1) for the `_b` variant
  if op == "mulpp" && n + 2 > k.hbits then "PRE" else
  if op == "mulpb" && n + 1 > k.hbits then "PRE" else
  match parseAll res with
  | some [r0, r1, r2] =>
    let want := canonU m (x * y)
    if op == "mulpp" then
      let invp := k.precompP m n
      let mr := k.mulPrecompP m n invp x y
      let specOk := r2 == want
      let modelOk := r0 == (n : Int) && r1 == invp && r2 == mr
      if specOk && modelOk then "OK" else
      s!"DIFF kind={if !specOk && !modelOk then "BOTH" else if !specOk then "SPEC" else "MODEL"} model={n},{hexInt invp},{hexInt mr} | {line.trimAscii.toString}"
    else
      let invb := k.precompB m y
      let nr := k.mulPrecompBNoRed m invb x y
      let mr := k.mulPrecompB m invb x y
      -- the unreduced value is congruent and below 2p; the reduced one is canonical
      let specOk := r2 == want && 0 ≤ r1 && r1 < 2 * m && (r1 - x * y) % m == 0
      let modelOk := r0 == invb && r1 == nr && r2 == mr
      if specOk && modelOk then "OK" else
      s!"DIFF kind={if !specOk && !modelOk then "BOTH" else if !specOk then "SPEC" else "MODEL"} model={hexInt invb},{hexInt nr},{hexInt mr} | {line.trimAscii.toString}"
  | _ => "BAD result | " ++ line

/-- verdict for one C03 line -/
def c03Verdict (f : Fam) (op : String) (m : Int) (a : Array Int) (res : List String) (line : String) : String :=
  let bal := f.balanced
  let (lo, hi) := f.limits
  -- modulus inside the advertised range (prime for the log-table ring)
  -- the harness refuses moduli outside [minCardinality(), maxCardinality()] *as reported by the running code*
  if res == ["OUTOFRANGE"] then "PRE" else
  if op == "limits" then
    -- the model's constants must be the code's: a changed maxCardinality() makes the theorems speak about another range
    let want : List Int := [lo, match hi with | some h => h | none => -1]
    (if parseAll res == some want then "OK"
     else s!"DIFF kind=MODEL model={hexInt lo},{hexInt (want.getD 1 0)} | {line.trimAscii.toString}") else
  if m < 2 then "PRE" else
  if (match f with | .log16 => !isPrimeNat m.toNat | _ => false) then "PRE" else
  if op.startsWith "raw_" then rawVerdict op m a res line else
  if (op == "mulpp" || op == "mulpb") then (match f with | .int k => (if !(a.all (fun x => decide (isCanon bal m x))) then "PRE" else precompVerdict k op m a res line) | _ => "BAD op | " ++ line) else
  if op == "hist" then histVerdict f m a res line else
  let isRed := op == "reduce1" || op == "reduce2"
  if !isRed && !(a.all (fun x => decide (isCanon bal m x))) then "PRE" else
  if res == ["NONUNIT"] then "PRE" else
  let impl? : Option Int := match res with
    | [r] => parseHexInt r
    | _ => none
  let showM : MRes → String
    | .noModel => "-" | .inexact => "INEXACT" | .val x => hexInt x
  let mres := modelEval f op m a
  let fin (specOk : Bool) (impl : Int) : String :=
    let modelOk := match mres with
      | .noModel => true
      | r => r == .val impl
    if specOk && modelOk then "OK" else
    let kind := if !specOk && !modelOk then "BOTH" else if !specOk then "SPEC" else "MODEL"
    s!"DIFF kind={kind} model={showM mres} | {line.trimAscii.toString}"
  let g (i : Nat) : Int := a.getD i 0
  match impl? with
  | none =>
    -- a non-integer / non-finite floating result can never be the canonical representative
    if res == ["NAI"] then s!"DIFF kind=SPEC model={showM mres} | {line.trimAscii.toString}" else "BAD result | " ++ line
  | some impl =>
    match op, a.size with
    | "inv", 1 | "invin", 1 =>
      if !isUnit m (g 0) then "PRE" else fin (isQuot bal m 1 (g 0) impl) impl
    | "div", 2 | "divin", 2 =>
      if !isUnit m (g 1) then "PRE" else fin (isQuot bal m (g 0) (g 1) impl) impl
    | "isUnit", 1 => fin (impl == b2i (isUnit m (g 0))) impl
    | _, _ =>
      match exactZ op a with
      | none => "BAD op | " ++ line
      | some z => fin (impl == canon bal m z) impl

def modringLine (line : String) : String :=
  match splitLine line with
  | none => "BAD empty"
  | some (key, args, res) =>
    match key.splitOn ".", parseAll args with
    | [tag, op], some (m :: a) =>
      match famOf tag with
      | none => "BAD noring | " ++ line
      | some f => c03Verdict f op m a.toArray res line
    | _, _ => "BAD args | " ++ line

end Driver.ModRing

/-! ### C04: init / convert / constants -/
namespace Driver.ModRing
open Driver
open Givaro.Model.ModRing Givaro.Spec.ModRing

/-- (lo, hi) of a source / target type tag; `none` = unbounded -/
def tyRange : String → Option (Int × Int)
  | "s8" => some (-128, 127) | "u8" => some (0, 255)
  | "s16" => some (-32768, 32767) | "u16" => some (0, 65535)
  | "s32" => some (-2147483648, 2147483647) | "u32" => some (0, 4294967295)
  | "s64" => some (-9223372036854775808, 9223372036854775807) | "u64" => some (0, 18446744073709551615)
  | _ => none

def srcBits : String → Nat
  | "s8" | "u8" => 8 | "s16" | "u16" => 16 | "s32" | "u32" | "f32" => 32 | "s64" | "u64" | "f64" => 64 | _ => 0
def srcSigned (s : String) : Bool := s.startsWith "s"
def srcIsInt (s : String) : Bool := s.startsWith "s" || s.startsWith "u"

/-- smallest generator of (Z/p)^* for a prime `p` (search by element order; used for small tables only) -/
def orderOf (g p : Int) (fuel : Nat) : Nat :=
  let rec go : Nat → Int → Nat → Nat
    | 0, _, n => n
    | f + 1, acc, n => if acc == 1 then n else go f ((acc * g) % p) (n + 1)
  go fuel (g % p) 1
def findGen (p : Int) : Int :=
  if p ≤ 2 then 1 else
  ((List.range p.toNat).drop 2).foldl (fun (best : Int) (g : Nat) => if best != 0 then best else
    if orderOf (g : Int) p p.toNat == (p - 1).toNat then (g : Int) else 0) 0

/-- the model's `init` for a source type (`src`) and an integer-valued source `x`
    (`f64h`: the double `x/2`, truncated where the overload goes through an integer) -/
def initModel (f : Fam) (src : String) (p x : Int) : MRes :=
  let isF := src == "f32" || src == "f64"
  match f with
  | .int k =>
    if srcIsInt src then .val (k.initInt (srcBits src) (srcSigned src) p x)
    else if src == "Z" then .val (k.initZ p x)
    else if isF then .val (k.initFloat p x)
    else if src == "f64h" then .val (k.initFloat p (Int.tdiv x 2))
    else .noModel
  | .flt k =>
    -- sizeof(Source) ≥ sizeof(Storage_t): 32-bit storage for float, 64-bit for double
    let wide := if k.ms = 24 then srcBits src ≥ 32 else srcBits src ≥ 64
    if src == "Z" then ofOpt (k.initZ p x)
    else if isF then ofOpt (k.initFloat p x)
    else if srcIsInt src then
      (if wide then (if srcSigned src then ofOpt (k.initSInt (srcBits src) p x) else ofOpt (k.initUInt (srcBits src) p x))
       else ofOpt (k.initSmall p x))
    else .noModel
  | .balF k =>
    -- overloads of their own: float ring int32/uint32/int64/uint64 ; double ring int64/uint64
    let own := if k.mb = 24 then srcBits src ≥ 32 else srcBits src ≥ 64
    if src == "Z" || isF then ofOpt (k.initS p x)
    else if srcIsInt src then
      (if own then (if srcSigned src then ofOpt (k.initS p x) else ofOpt (k.initU p x)) else ofOpt (k.initSmall p x))
    else .noModel
  | .ext k =>
    let own := if k.mant = 24 then srcBits src ≥ 32 else srcBits src ≥ 64
    if src == "Z" then ofOpt (k.initZ p x)
    else if isF then ofOpt (k.initFloat p x)
    else if srcIsInt src then
      (if own then (if srcSigned src then ofOpt (k.initSInt (srcBits src) p x) else ofOpt (k.initUInt p x)) else ofOpt (k.initSmall p x))
    else .noModel
  | .balI k =>
    -- overloads of their own: int32 ring float/double/int64/uint64/uint32(→uint64)/Integer ; int64 ring float/double/uint64/Integer
    if src == "Z" || isF then .val (k.initS p x)
    else if src == "u64" || (k.w = 32 && src == "u32") then .val (k.initU p x)
    else if k.w = 32 && src == "s64" then .val (k.initS p x)
    else if srcIsInt src then .val (k.initSmall p x)
    else .noModel
  | .gen k =>
    -- sources the element type holds (narrower, or same width and signedness) are cast and reduced; every other machine
    -- number and `Integer` are reduced over Z
    let fits := srcIsInt src && ((srcSigned src == k.sg && srcBits src ≤ k.s) || (!srcSigned src && srcBits src < k.s))
    if fits then .val (k.initFit p x) else if src == "f64h" then .val (k.initZ p (Int.tdiv x 2)) else .val (k.initZ p x)
  | .zz => if src == "f64h" then .noModel else .val (ZMod'.init p x)
  | .ru k => if src == "Z" then .val (k.initZ p x) else if srcIsInt src then .val (k.initInt p x) else .noModel
  | .log16 =>
    if p > 300 then .noModel else
    let T := L16.ofGen p (findGen p)
    if src == "Z" then .val (T.val (T.initZ x))
    else if src == "u16" || src == "u32" || src == "u64" then .val (T.val (T.initU x))
    else if src == "s16" || src == "s32" || src == "s64" then .val (T.val (T.initS x))
    else if isF then .val (T.val (T.initS (Int.tmod x p)))     -- init(double): init((int64_t) fmod(i, p))
    else .noModel
  | _ => .noModel
  where small := false

def c04Verdict (f : Fam) (op : String) (m : Int) (a : Array Int) (res : List String) (line : String) : String :=
  let bal := f.balanced
  let (lo, _) := f.limits
  if res == ["OUTOFRANGE"] || m < lo then "PRE" else
  if (match f with | .log16 | .gfq => !isPrimeNat m.toNat | .mont => m % 2 == 0 | _ => false) then "PRE" else
  let bad (kind : String) (model : String) := s!"DIFF kind={kind} model={model} | {line.trimAscii.toString}"
  let showM : MRes → String
    | .noModel => "-" | .inexact => "INEXACT" | .val x => hexInt x
  if op == "consts" then
    match parseAll res with
    | some [z, o, mo, i0] =>
      if z == 0 && o == canon bal m 1 && mo == canon bal m (-1) && i0 == 0 then "OK" else bad "SPEC" "-"
    | _ => if res.contains "NAI" then bad "SPEC" "-" else "BAD result | " ++ line
  else if op == "card" then
    match parseAll res with
    | some [c, ch] => if c == m && ch == m then "OK" else bad "SPEC" "-"
    | _ => "BAD result | " ++ line
  else if op == "assign" then
    -- the constants of a ring assigned from a ring with modulus m (destination built with modulus a[0], or default-constructed):
    -- zero one mOne init(-1) isMOne(init(-1)) maxElement minElement cardinality
    match parseAll res with
    | some [z, o, mo, im1, ism, mx, mn, c] =>
      let wantMax := if bal then m / 2 else m - 1
      let wantMin := if bal then m / 2 - m + 1 else 0
      let specOk := z == 0 && o == canon bal m 1 && mo == canon bal m (-1) && im1 == canon bal m (-1) && ism == 1
        && mx == wantMax && mn == wantMin && c == m
      let modelOk := match f with
        | .int k =>
          let ob := k.assign (if a.getD 0 0 == 0 then k.default else k.construct (a.getD 0 0)) (k.construct m)
          ob.zero == z && ob.one == o && ob.mOne == mo && ob.p == c
        | _ => true
      if specOk && modelOk then "OK" else bad (if !specOk && !modelOk then "BOTH" else if !specOk then "SPEC" else "MODEL") "-"
    | _ => if res.contains "NAI" then bad "SPEC" "-" else "BAD result | " ++ line
  else if op.startsWith "init_" then
    let src := (op.drop 5).toString
    if res == ["NOSRC"] then "PRE" else
    let x := a.getD 0 0
    -- a non-integer double: only the integral rings define the result through an integer conversion (truncation);
    -- for the other rings a non-integer source is outside the property (the element would not be an integer)
    if src == "f64h" && x % 2 != 0 && (match f with | .int _ | .gen _ => false | _ => true) then "PRE" else
    let x := if src == "f64h" then (match f with | .int _ | .gen _ => x | _ => x / 2) else x
    -- Montgomery<int32_t>: sources without an overload of their own go through the template whose header comment
    -- states "T is supposed to be fit into an Element" (uint32_t): a float beyond 2^32 is outside that contract
    if (match f with | .mont => src == "f32" && (x ≥ 4294967296 || x ≤ -4294967296) | _ => false) then "PRE" else
    let mres := initModel f src m x
    match res with
    | [r] =>
      match parseHexInt r with
      | some impl =>
        let specOk := impl == canon bal m (if src == "f64h" then (match f with | .int _ | .gen _ => Int.tdiv x 2 | _ => x) else x)
        let modelOk := match mres with | .noModel => true | r => r == .val impl
        if specOk && modelOk then "OK"
        else bad (if !specOk && !modelOk then "BOTH" else if !specOk then "SPEC" else "MODEL") (showM mres)
      | none => if r == "NAI" then bad "SPEC" (showM mres) else "BAD result | " ++ line
    | _ => "BAD result | " ++ line
  else if op.startsWith "convert_" then
    let dst := (op.drop 8).toString
    let e := a.getD 0 0
    if !(decide (isCanon bal m e)) then "PRE" else
    -- the lift is the element's value; a target type that cannot hold it is outside the property
    if (match tyRange dst with | some (l, h) => e < l || e > h | none => false) then "PRE" else
    if dst == "f64" && (e > 9007199254740992 || e < -9007199254740992) then "PRE" else
    if dst == "f32" && (e > 16777216 || e < -16777216) then "PRE" else
    match res with
    | [r] =>
      match parseHexInt r with
      | some impl => if impl == e then "OK" else bad "SPEC" "-"
      | none => if r == "NAI" then bad "SPEC" "-" else "BAD result | " ++ line
    | _ => "BAD result | " ++ line
  else "BAD op | " ++ line

def modinitLine (line : String) : String :=
  match splitLine line with
  | none => "BAD empty"
  | some (key, args, res) =>
    match key.splitOn ".", parseAll args with
    | [tag, op], some (m :: a) =>
      match famOf tag with
      | none => "BAD noring | " ++ line
      | some f => c04Verdict f op m a.toArray res line
    | _, _ => "BAD args | " ++ line

end Driver.ModRing
