/- C09 driver: decides every line of harness/h_polyfactor.cpp with the model (`Model/PolyFactor.lean`) and the
   reference deciders / certificate checkers (`Spec/PolyFactorSpec.lean`).
   Line: `<op> <dom> <p> <k> <irr> <args…> = <results…>` (see the harness header for the vocabulary). -/
import Driver.Common
import GivaroModel.Model.PolyFactor
import GivaroModel.Spec.PolyFactorSpec
-- @driver-mode-io polyfactor Driver.PolyFactor.polyFactorMain
namespace Driver.PolyFactor
open Driver
open Givaro.Model.PolyFactor Givaro.Spec.PolyFactor

namespace PF

def powModNat (b e m : Nat) : Nat := Id.run do
  let mut r := 1 % m
  let mut b := b % m
  let mut e := e
  for _ in [0:e.log2 + 1] do
    if e % 2 = 1 then r := r * b % m
    b := b * b % m
    e := e / 2
  return r

/-- GF(p) on the residues 0..p-1 -/
def fpOps (p : Nat) : FOps Nat :=
  { zero := 0, one := 1 % p, add := fun a b => (a + b) % p, neg := fun a => (p - a % p) % p,
    mul := fun a b => a * b % p, inv := fun a => powModNat a (p - 2) p }

def digits (p : Nat) : Nat → Nat → List Nat
  | 0, _ => []
  | k + 1, c => c % p :: digits p k (c / p)

def undigits (p : Nat) : List Nat → Nat
  | [] => 0
  | d :: ds => d + p * undigits p ds

/-- GF(p^k) on p-adic codes of the polynomial-basis representation modulo the polynomial coded by `irr` -/
def fqOps (p k irr : Nat) : FOps Nat :=
  if k ≤ 1 then fpOps p else
  let B := fpOps p
  let M := digits p (k + 1) irr
  let mulc := fun (a b : Nat) => undigits p (pmod B (pmul B (digits p k a) (digits p k b)) M)
  let q := p ^ k
  let powc := fun (a : Nat) (e : Nat) => Id.run do
    let mut r := 1
    let mut b := a
    let mut e := e
    for _ in [0:e.log2 + 1] do
      if e % 2 = 1 then r := mulc r b
      b := mulc b b
      e := e / 2
    return r
  { zero := 0, one := 1,
    add := fun a b => undigits p (List.zipWith (fun x y => (x + y) % p) (digits p k a) (digits p k b)),
    neg := fun a => undigits p ((digits p k a).map (fun x => (p - x) % p)),
    mul := mulc,
    inv := fun a => if a = 0 then 0 else powc a (q - 2) }

/-- the same field with every operation tabulated (q ≤ a few hundred): `fqOps` is evaluated q² times, once per field -/
def tabulate (q : Nat) (G : FOps Nat) : FOps Nat :=
  let idx := List.range q
  let addT : Array Nat := (idx.flatMap (fun a => idx.map (fun b => G.add a b))).toArray
  let mulT : Array Nat := (idx.flatMap (fun a => idx.map (fun b => G.mul a b))).toArray
  let negT : Array Nat := (idx.map G.neg).toArray
  let invT : Array Nat := (idx.map (fun a => (idx.find? (fun b => mulT.getD (a * q + b) 0 == G.one)).getD 0)).toArray
  { zero := G.zero, one := G.one,
    add := fun a b => addT.getD (a * q + b) 0,
    neg := fun a => negT.getD a 0,
    mul := fun a b => mulT.getD (a * q + b) 0,
    inv := fun a => invT.getD a 0 }

def parsePoly (s : String) : Option (List Nat) :=
  if s == "z" then some [] else (s.splitOn ",").mapM parseHexNat

def showPoly (p : List Nat) : String := if p.isEmpty then "z" else String.intercalate "," (p.map hexNat)

def parseFactor (s : String) : Option (List Nat × Nat) :=
  match s.splitOn ":" with
  | [f, e] => do let f ← parsePoly f; let e ← parseHexNat e; pure (f, e)
  | _ => none

structure Ctx where
  p : Nat
  k : Nat
  q : Nat
  F : FOps Nat
  elems : List Nat
  /-- the distinct primes supplied on the line (`pl=r1,r2,…`, big fields), each verified prime by trial division -/
  pl : Option (List Nat) := none
  /-- memo: the modulus token of the previous line and whether it is irreducible -/
  fmIrr : Option (String × Bool) := none

/-- primality by trial division (used on the supplied primes, all < 2^48) -/
def isPrimeTD (n : Nat) : Bool := Id.run do
  if n < 2 then return false
  if n < 4 then return true
  if n % 2 == 0 then return false
  let mut d := 3
  let mut ok := true
  for _ in [0:n.sqrt / 2 + 1] do
    if d * d > n then break
    if n % d == 0 then
      ok := false
      break
    d := d + 2
  return ok

def stripPrime : Nat → Nat → Nat → Nat
  | 0, n, _ => n
  | f + 1, n, r => if r > 1 ∧ n > 0 ∧ n % r = 0 then stripPrime f (n / r) r else n

def stripAll (n : Nat) (L : List Nat) : Nat := L.foldl (fun m r => stripPrime (m.log2 + 1) m r) n

def insertSorted (x : Nat) : List Nat → List Nat
  | [] => [x]
  | y :: ys => if x ≤ y then x :: y :: ys else y :: insertSorted x ys

/-- the distinct prime divisors of `N` in increasing order: trial division, or — when a verified prime list travels with
    the line — those of its members that divide `N`, provided they factor `N` completely (`none` otherwise) -/
def primesFor (c : Ctx) (N : Nat) : Option (List Nat) :=
  match c.pl with
  | none => some (primeFactors N)
  | some L =>
    let L' := (L.filter (fun r => N % r == 0)).foldr insertSorted []
    if N ≥ 1 && stripAll N L' == 1 then some L' else none

def bruteLimit : Nat := 40000

/-- number of trial divisors of the exponential oracle -/
def bruteCost (c : Ctx) (P : List Nat) : Nat :=
  let h := ((norm c.F P).length - 1) / 2
  if h = 0 then 1 else if c.q > 100000 || h > 64 then bruteLimit + 1 else c.q ^ h

/-- the irreducibility decision used by the checkers: the exponential oracle whenever it is affordable, else the model of
    the (proved) distinct-degree criterion -/
def irrDecide (c : Ctx) (P : List Nat) : Bool :=
  if bruteCost c P ≤ bruteLimit then bruteIrreducible c.F c.elems P else isIrreducible c.F c.q P

/-- Musser's square-free loop (`c = gcd(f,f')`, `w = f/c`; `y = gcd(w,c)`, emit `w/y`, `w = y`, `c = c/y`): returns true
    when some irreducible factor of `P` has multiplicity ≥ p (a non-trivial part is emitted at an index ≥ p, or a p-th
    power is left in `c`) — exactly the input class of the known finding C09-yun-charp. -/
def highMultLoop (c : Ctx) : Nat → Nat → List Nat → List Nat → Bool
  | 0, _, _, _ => false
  | fuel + 1, i, w, cc =>
    if degree c.F w ≤ 0 then degree c.F cc > 0
    else
      let y := pgcd c.F w cc
      let y := if degree c.F y ≤ 0 then [c.F.one] else y
      let z := pdiv c.F w y
      if i ≥ c.p && degree c.F z > 0 then true
      else highMultLoop c fuel (i + 1) y (pdiv c.F cc y)

def highMult (c : Ctx) (P : List Nat) : Bool :=
  let f := monicize c.F P
  let g := pgcd c.F f (diff c.F f)
  let g := if degree c.F g ≤ 0 then [c.F.one] else monicize c.F g
  highMultLoop c (f.length + 2) 1 (pdiv c.F f g) g

def irrFm (c : Ctx) (sF : String) (Fm : List Nat) : Bool :=
  match c.fmIrr with
  | some (k, v) => if k == sF then v else irrDecide c Fm
  | none => irrDecide c Fm

def cls (c : Ctx) (P : List Nat) : String :=
  if highMult c P then " class=mult-ge-char" else ""

def verdict (specOk modelOk : Bool) (extra model line : String) : String :=
  if specOk && modelOk then "OK"
  else
    let kind := if !specOk && !modelOk then "BOTH" else if !specOk then "SPEC" else "MODEL"
    s!"DIFF kind={kind}{extra} model={model} | {line.trimAscii.toString}"

def b2s (b : Bool) : String := if b then "1" else "0"

/-- `R` is a primitive root modulo the irreducible `Fm`: order `q^n - 1`, by repeated multiplication when the group is
    small and always by the (proved: `primitive_iff` / `order_certificate`) prime-divisor certificate -/
def primitiveSpec (c : Ctx) (R Fm : List Nat) : Bool :=
  let n := (norm c.F Fm).length - 1
  let qp := c.q ^ n - 1
  let A := pmod c.F R Fm
  match primesFor c qp with
  | none => false
  | some L =>
    let cert := checkOrder c.F A Fm qp L
    if qp ≤ 130 then cert && (bruteOrder c.F (qp + 1) A Fm == qp) else cert

def orderSpecOk (c : Ctx) (P Fm : List Nat) (o : Nat) : Bool :=
  let n := (norm c.F Fm).length - 1
  let qp := c.q ^ n - 1
  let A := pmod c.F P Fm
  let inv := degree c.F (pgcd c.F A Fm) ≤ 0 && norm c.F A ≠ []
  if !inv then o == 0
  else
    match primesFor c o with
    | none => false
    | some L =>
      let cert := checkOrder c.F A Fm o L
      if qp ≤ 130 then cert && (bruteOrder c.F (qp + 1) A Fm == o) else cert

def modelPrimes (c : Ctx) (Fm : List Nat) : List Nat :=
  (primesFor c (c.q ^ ((norm c.F Fm).length - 1) - 1)).getD []

def splitBar (res : List String) : List String × List String :=
  (res.takeWhile (· != "|"), (res.dropWhile (· != "|")).drop 1)

def handle (c : Ctx) (op : String) (args res : List String) (line : String) : String :=
  let F := c.F
  -- the overloads taking MOD explicitly (called with MOD = residu()) are decided like the forwarding ones
  let op := if op == "irrM" then "irr" else if op == "irr2M" then "irr2" else if op == "czfM" || op == "czfF" then "czf" else op
  match op, args with
  | "czf2", [sP1, sP2] =>
    -- two factorisations accumulated into the SAME lists: `A… | B…` = the lists after the first / after the second call
    match parsePoly sP1, parsePoly sP2 with
    | some P1, some P2 =>
      if norm F P1 = [] || norm F P2 = [] then "PRE" else
      let (r1, r2) := splitBar res
      let r1 := if r1 == ["none"] then [] else r1
      let r2 := if r2 == ["none"] then [] else r2
      match r1.mapM parseFactor, (r2.drop r1.length).mapM parseFactor with
      | some L1, some L2 =>
        let ok := r2.take r1.length == r1 && checkFactorList F (irrDecide c) P1 L1 && checkFactorList F (irrDecide c) P2 L2
        verdict ok true (cls c P1 ++ cls c P2) "-" line
      | _, _ => verdict false true (cls c P1 ++ cls c P2) "-" line
    | _, _ => "BAD args | " ++ line
  | "irr", [sP] | "irr2", [sP] =>
    match parsePoly sP, res with
    | some P, [r] =>
      let model := if op == "irr" then isIrreducible F c.q P else isIrreducible2 F c.q P
      let spec := if bruteCost c P ≤ bruteLimit then bruteIrreducible F c.elems P else isIrreducible F c.q P
      verdict (r == b2s spec) (r == b2s model) "" (b2s model) line
    | _, _ => "BAD args | " ++ line
  | "czf3", [sP0, sP] =>
    -- second of two calls; the factor list was cleared in between, the exponent list was not: judged as the factorisation of P
    match parsePoly sP0, parsePoly sP with
    | some P0, some P =>
      if norm F P0 = [] || norm F P = [] then "PRE" else
      let L? : Option (List (List Nat × Nat)) := if res == ["none"] then some [] else res.mapM parseFactor
      match L? with
      | none => verdict false true (cls c P) "-" line
      | some L => verdict (checkFactorList F (irrDecide c) P L) true (cls c P) "-" line
    | _, _ => "BAD args | " ++ line
  | "czf", [sP] =>
    match parsePoly sP with
    | some P =>
      if norm F P = [] then "PRE" else
      let L? : Option (List (List Nat × Nat)) := if res == ["none"] then some [] else res.mapM parseFactor
      match L? with
      | none => verdict false true (cls c P) "-" line
      | some L => verdict (checkFactorList F (irrDecide c) P L) true (cls c P) "-" line
    | none => "BAD args | " ++ line
  | "sqf", [sP] =>
    match parsePoly sP with
    | some P =>
      if norm F P = [] then "PRE" else
      match res.mapM parsePoly with
      | none => verdict false true (cls c P) "-" line
      | some G =>
        let M := sqrfree F ((norm F P).length) P
        let same := M.length == G.length &&
          (List.zipWith (fun a b => associatedB F a b) M G).all id
        verdict (checkSqrfree F P G) same (cls c P) (String.intercalate " " (M.map showPoly)) line
    | none => "BAD args | " ++ line
  | "ord", [sP, sF] =>
    match parsePoly sP, parsePoly sF, res with
    | some P, some Fm, [r] =>
      if !(irrFm c sF Fm) then "PRE" else
      match parseHexNat r with
      | none => verdict false true "" "-" line
      | some o =>
        let m := orderL F c.q P Fm (modelPrimes c Fm)
        verdict (orderSpecOk c P Fm o) (o == m) "" (hexNat m) line
    | _, _, _ => "BAD args | " ++ line
  | "ipr", [sP, sF] =>
    match parsePoly sP, parsePoly sF, res with
    | some P, some Fm, [r] =>
      if !(irrFm c sF Fm) then "PRE" else
      let m := isPrimRootL F c.q P Fm (modelPrimes c Fm)
      verdict (r == b2s (primitiveSpec c P Fm)) (r == b2s m) "" (b2s m) line
    | _, _, _ => "BAD args | " ++ line
  | "gpr", [sF] | "grp", [sF] =>
    match parsePoly sF, res with
    | some Fm, [r] =>
      if !(irrFm c sF Fm) then "PRE" else
      match parsePoly r with
      | some R => verdict (primitiveSpec c R Fm) true "" "-" line
      | none => verdict false true "" "-" line
    | _, _ => "BAD args | " ++ line
  | "rir", [sn] | "cir", [sn] | "xir", [sn] | "xi2", [sn] =>
    match parseHexNat sn, res with
    | some n, [r] =>
      match parsePoly r with
      | some R =>
        let degOk := (norm F R).length == n + 1
        let ok := degOk && irrDecide c R &&
          (if op == "xir" || op == "xi2" then primitiveSpec c (polX F) R else true)
        verdict ok true "" "-" line
      | none => verdict false true "" "-" line
    | _, _ => "BAD args | " ++ line
  | "rpr", [sn] =>
    match parseHexNat sn, res with
    | some n, [sP, sR] =>
      match parsePoly sP, parsePoly sR with
      | some P, some R =>
        let ok := (norm F P).length == n + 1 && irrDecide c P && primitiveSpec c R P
        verdict ok true "" "-" line
      | _, _ => verdict false true "" "-" line
    | some _, _ => verdict false true "" "-" line
    | _, _ => "BAD args | " ++ line
  | _, _ => "BAD op | " ++ line

end PF

def mkCtx (p k irr : Nat) : PF.Ctx :=
  let q := p ^ k
  let G := PF.fqOps p k irr
  { p := p, k := k, q := q, F := if k ≥ 2 ∧ q ≤ 300 then PF.tabulate q G else G,
    elems := if q ≤ 100000 then List.range q else [] }

/-- cache: the field of the previous line and the last verified prime list -/
structure Cache where
  key : Nat × Nat × Nat
  ctx : PF.Ctx
  plKey : String := ""
  plVal : Option (List Nat) := none
  fmIrr : Option (String × Bool) := none

def polyFactorWith (cache : Option Cache) (line : String) : String × Option Cache :=
  match splitLine line with
  | none => ("BAD empty", cache)
  | some (op, args, res) =>
    match args with
    | _dom :: sp :: sk :: sirr :: rest =>
      match parseHexNat sp, parseHexNat sk, parseHexNat sirr with
      | some p, some k0, some irr =>
        let k := k0
        let c0 : PF.Ctx := match cache with
          | some ch => if ch.key == (p, k, irr) then ch.ctx else mkCtx p k irr
          | none => mkCtx p k irr
        let plTok := rest.find? (fun t => t.startsWith "pl=")
        let rest' := rest.filter (fun t => !t.startsWith "pl=")
        -- memo of "the modulus is irreducible" for the order/primitivity operations
        let fmTok : Option String :=
          if op == "ord" || op == "ipr" then rest'[1]? else if op == "gpr" || op == "grp" then rest'[0]? else none
        let fmIrr : Option (String × Bool) := match fmTok with
          | none => (cache.bind (·.fmIrr))
          | some t =>
            match cache.bind (·.fmIrr) with
            | some (k, v) => if k == t && (cache.map (·.key)) == some (p, k0, irr) then some (k, v) else
                (PF.parsePoly t).map (fun Fm => (t, PF.irrDecide c0 Fm))
            | none => (PF.parsePoly t).map (fun Fm => (t, PF.irrDecide c0 Fm))
        let c0 := { c0 with fmIrr := fmIrr }
        match plTok with
        | none =>
          let c := { c0 with pl := none }
          (PF.handle c op rest' res line, some { key := (p, k, irr), ctx := { c0 with fmIrr := none }, plKey := (cache.map (·.plKey)).getD "", plVal := (cache.bind (·.plVal)), fmIrr := fmIrr })
        | some t =>
          -- verify the supplied primes once per distinct list
          let cachedPl : Option (Option (List Nat)) := match cache with
            | some ch => if ch.plKey == t then some ch.plVal else none
            | none => none
          let plVal : Option (List Nat) := match cachedPl with
            | some v => v
            | none =>
              match ((t.drop 3).toString.splitOn ",").mapM parseHexNat with
              | some L => if L.all PF.isPrimeTD then some L else none
              | none => none
          let newCache : Cache := { key := (p, k, irr), ctx := { c0 with fmIrr := none }, plKey := t, plVal := plVal, fmIrr := fmIrr }
          match plVal with
          | none => ("BAD pl (a supplied factor is not prime) | " ++ line, some newCache)
          | some L => (PF.handle { c0 with pl := some L } op rest' res line, some newCache)
      | _, _, _ => ("BAD field | " ++ line, cache)
    | _ => ("BAD short | " ++ line, cache)

def polyFactorLine (line : String) : String := (polyFactorWith none line).1

/-- stateful loop: the tabulated field of the previous line is reused (lines arrive grouped by field) -/
partial def polyFactorMain (h : IO.FS.Stream) : IO Unit := do
  let rec loop (cache : Option Cache) : IO Unit := do
    let line ← h.getLine
    if line.isEmpty then return ()
    let (v, cache') := polyFactorWith cache line
    IO.println v
    loop cache'
  loop none

end Driver.PolyFactor
