/- C11 driver: evaluates the model of givratreconstruct.C / givpoly1ratrecon.inl and the specification
   checkers on every line produced by harness/h_ratrecon.cpp. -/
import Driver.Common
import GivaroModel.Model.RatRecon
import GivaroModel.Spec.RatReconSpec
-- @driver-mode ratrecon Driver.RatRecon.ratreconLine
namespace Driver.RatRecon
open Driver
open Givaro.Model.RatRecon Givaro.Spec.RatRecon

private def b2i (b : Bool) : Int := if b then 1 else 0

private def showOut (o : Out) : String := s!"{hexInt (b2i o.ok)} {hexInt o.num} {hexInt o.den}"

private def verdict (line : String) (specOk modelOk : Bool) (modelStr : String) : String :=
  if specOk && modelOk then "OK"
  else
    let kind := if !specOk && !modelOk then "BOTH" else if !specOk then "SPEC" else "MODEL"
    s!"DIFF kind={kind} model={modelStr} | {line.trimAscii.toString}"

/-- the property's quantifier: m ≥ 2, k ∈ [1, m] (every residue f is admissible) -/
private def preMK (m k : Int) : Bool := decide (2 ≤ m) && decide (1 ≤ k) && decide (k ≤ m)

/-- split a flat token list `n c0 … c(n-1) rest…` -/
private def takePoly (xs : List Int) : Option (LPoly × List Int) :=
  match xs with
  | [] => none
  | n :: rest =>
    if n < 0 then none else
    let k := n.toNat
    if rest.length < k then none else some (rest.take k, rest.drop k)

private def showPoly (a : LPoly) : String :=
  String.intercalate " " ((Int.ofNat a.length :: a).map hexInt)

def ratreconLine (line : String) : String :=
  match splitLine line with
  | none => "BAD empty"
  | some (key, args, res) =>
    match parseAll args, parseAll res with
    | some a, some r =>
      match key, a, r with
      -- ZRing<Integer>::ratrecon(num,den,f,m,k,forcereduce,recurs)
      | "rr", [f, m, k, fr, _rc], [ok, num, den] =>
        if !preMK m k then "PRE" else
        let M := ratrecon f m k (fr != 0)
        let specOk := ok == 0 || soundB f m k (fr != 0) num den
        verdict line specOk (M == ⟨ok != 0, num, den⟩) (showOut M)
      -- Rational::ratrecon(num,den,f,m,k,forcereduce,recurs) called directly (static)
      | "rrm", [f, m, k, fr, _rc], [ok, num, den] =>
        if !preMK m k then "PRE" else
        let M := ratrecon f m k (fr != 0)
        let specOk := ok == 0 || soundB f m k (fr != 0) num den
        verdict line specOk (M == ⟨ok != 0, num, den⟩) (showOut M)
      -- ZRing<Integer>::RationalReconstruction(a,b,f,m,k,forcereduce,recursive)
      | "rr7", [f, m, k, fr, rc], [ok, num, den] =>
        if !preMK m k then "PRE" else
        let M := rationalReconstruction f m k (fr != 0) (rc != 0)
        -- without widening the bound is k; with widening the last bound tried is < f
        let specOk := ok == 0 ||
          (if rc == 0 then soundB f m k (fr != 0) num den
           else soundB f m (if (num.natAbs : Int) < k then k else f - 1) (fr != 0) num den)
        verdict line specOk (M == ⟨ok != 0, num, den⟩) (showOut M)
      -- ZRing<Integer>::RationalReconstruction(a,b,f,m)   (default bound ⌊√m⌋)
      | "rr4", [f, m], [ok, num, den] =>
        if !decide (2 ≤ m) then "PRE" else
        let M := rationalReconstructionDefault f m
        let specOk := ok == 0 || soundB f m (isqrt m) true num den
        verdict line specOk (M == ⟨ok != 0, num, den⟩) (showOut M)
      -- ZRing<Integer>::RationalReconstruction(a,b,x,m,a_bound,b_bound)
      | "rr6", [x, m, ab, bb], [ok, num, den] =>
        let k := if Int.tdiv x bb > ab then Int.tdiv x bb else ab
        if !(preMK m k && decide (1 ≤ bb) && decide (1 ≤ ab)) then "PRE" else
        let M := rationalReconstructionBounds x m ab bb
        let specOk := ok == 0 || (soundB x m k true num den && decide (den ≤ bb))
        verdict line specOk (M == ⟨ok != 0, num, den⟩) (showOut M)
      -- completeness: f = a·b⁻¹ mod m computed by the harness, reconstructed with the default bound
      | "cmp", [ca, cb, m, f], [ok, num, den] =>
        if !(decide (2 ≤ m) && envelopeB ca cb m) then "PRE" else
        if !isResidueOfB f ca cb m then "BAD residue | " ++ line else
        let M := rationalReconstructionDefault f m
        let specOk := ok != 0 && num == ca && den == cb
        verdict line specOk (M == ⟨ok != 0, num, den⟩) (showOut M)
      -- completeness through QField<Rational>::ratrecon(r,f,m[,recurs])
      | "qcmp", [ca, cb, m, f, rc], [num, den] =>
        if !(decide (2 ≤ m) && envelopeB ca cb m) then "PRE" else
        if !isResidueOfB f ca cb m then "BAD residue | " ++ line else
        let M := qfieldRatreconDefault f m (rc != 0)
        let specOk := num == ca && den == cb
        verdict line specOk (M.num == num && M.den == den) (showOut M)
      -- QField<Rational>::ratrecon(r,f,m,k,recurs): no success flag is returned, model comparison only
      | "qf", [f, m, k, rc], [num, den] =>
        if !preMK m k then "PRE" else
        let M := qfieldRatrecon f m k (rc != 0)
        verdict line true (M.num == num && M.den == den) (showOut M)
      -- Poly1Dom<Modular>::ratrecon(N,D,P,M,dk,forcereduce):  pr p dk fr nP P… nM M… = ok nN N… nD D…
      | "pr", p :: dk :: fr :: rest, ok :: rrest =>
        match takePoly rest with
        | none => "BAD poly | " ++ line
        | some (pp, rest2) =>
          match takePoly rest2, takePoly rrest with
          | some (pm, []), some (pn, rrest2) =>
            match takePoly rrest2 with
            | some (pd, []) =>
              -- quantifier: deg M ≥ 1, 0 ≤ dk < deg M
              if !(decide (1 ≤ ldeg pm) && decide (0 ≤ dk) && decide (dk < ldeg pm)) then "PRE" else
              let M := polyRatrecon p pp pm dk (fr != 0)
              let specOk := ok == 0 || polySoundB p pp pm dk (fr != 0) pn pd
              let modelOk := M.ok == (ok != 0) && lnorm M.n == lnorm pn && lnorm M.d == lnorm pd
              verdict line specOk modelOk s!"{hexInt (b2i M.ok)} {showPoly M.n} {showPoly M.d}"
            | _ => "BAD poly | " ++ line
          | _, _ => "BAD poly | " ++ line
      | _, _, _ => "BAD key/arity | " ++ line
    | _, _ => "BAD number | " ++ line

end Driver.RatRecon
