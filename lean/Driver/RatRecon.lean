/- C11 driver: evaluates the model of givratreconstruct.C / givpoly1ratrecon.inl and the specification
   checkers on every line produced by harness/h_ratrecon.cpp. -/
import Driver.Common
import GivaroModel.Model.RatRecon
import GivaroModel.Spec.RatReconSpec
-- @driver-mode ratrecon Driver.RatRecon.ratreconLine
namespace Driver.RatRecon
open Driver
open Givaro.Model.RatRecon Givaro.Spec.RatRecon

private def b2i (b : Bool) : Int := if b then 1 else 0

private def showOut (o : Out) : String := s!"{hexInt (b2i o.ok)} {hexInt o.num} {hexInt o.den}"

private def verdict (line : String) (specOk modelOk : Bool) (modelStr : String) : String :=
  if specOk && modelOk then "OK"
  else
    let kind := if !specOk && !modelOk then "BOTH" else if !specOk then "SPEC" else "MODEL"
    s!"DIFF kind={kind} model={modelStr} | {line.trimAscii.toString}"

/-- the property's quantifier: m ≥ 2, k ∈ [1, m] (every residue f is admissible) -/
private def preMK (m k : Int) : Bool := decide (2 ≤ m) && decide (1 ≤ k) && decide (k ≤ m)

/-- soundness of a success; `forcereduce = false` never fails and keeps `den ≤ m/k` (ratrecon_noreduce_total);
    a failure is exact (ratrecon_false_no_solution / rationalReconstruction_false): checked by brute force for m ≤ 64 -/
private def specRR (f m k : Int) (fr rc : Bool) (ok num den : Int) : Bool :=
  if ok != 0 then soundB f m k fr num den && (fr || decide (den * k ≤ m))
  else fr && (decide (m > 64) || failureExactB f m k rc)

/-- split a flat token list `n c0 … c(n-1) rest…` -/
private def takePoly (xs : List Int) : Option (LPoly × List Int) :=
  match xs with
  | [] => none
  | n :: rest =>
    if n < 0 then none else
    let k := n.toNat
    if rest.length < k then none else some (rest.take k, rest.drop k)

private def showPoly (a : LPoly) : String :=
  String.intercalate " " ((Int.ofNat a.length :: a).map hexInt)

def ratreconLine (line : String) : String :=
  match splitLine line with
  | none => "BAD empty"
  | some (key, args, res) =>
    match parseAll args, parseAll res with
    | some a, some r =>
      match key, a, r with
      -- ZRing<Integer>::ratrecon(num,den,f,m,k,forcereduce,recurs)
      | "rr", [f, m, k, fr, _rc], [ok, num, den] =>
        if !preMK m k then "PRE" else
        let M := ratrecon f m k (fr != 0)
        let specOk := specRR f m k (fr != 0) false ok num den
        verdict line specOk (M == ⟨ok != 0, num, den⟩) (showOut M)
      -- Rational::ratrecon(num,den,f,m,k,forcereduce,recurs) called directly (static)
      | "rrm", [f, m, k, fr, _rc], [ok, num, den] =>
        if !preMK m k then "PRE" else
        let M := ratrecon f m k (fr != 0)
        let specOk := specRR f m k (fr != 0) false ok num den
        verdict line specOk (M == ⟨ok != 0, num, den⟩) (showOut M)
      -- ZRing<Integer>::RationalReconstruction(a,b,f,m,k,forcereduce,recursive)
      | "rr7", [f, m, k, fr, rc], [ok, num, den] =>
        if !preMK m k then "PRE" else
        let M := rationalReconstruction f m k (fr != 0) (rc != 0)
        -- without widening the bound is k; with widening the last bound tried is < f
        let specOk :=
          if ok == 0 then specRR f m k (fr != 0) (rc != 0) ok num den
          else if rc == 0 then soundB f m k (fr != 0) num den
          else soundB f m (if (num.natAbs : Int) < k then k else f - 1) (fr != 0) num den
        verdict line specOk (M == ⟨ok != 0, num, den⟩) (showOut M)
      -- ZRing<Integer>::RationalReconstruction(a,b,f,m)   (default bound ⌊√m⌋)
      | "rr4", [f, m], [ok, num, den] =>
        if !decide (2 ≤ m) then "PRE" else
        let M := rationalReconstructionDefault f m
        let specOk := specRR f m (isqrt m) true false ok num den
        verdict line specOk (M == ⟨ok != 0, num, den⟩) (showOut M)
      -- ZRing<Integer>::RationalReconstruction(a,b,x,m,a_bound,b_bound)
      | "rr6", [x, m, ab, bb], [ok, num, den] =>
        let k := if Int.tdiv x bb > ab then Int.tdiv x bb else ab
        if !(preMK m k && decide (1 ≤ bb) && decide (1 ≤ ab)) then "PRE" else
        let M := rationalReconstructionBounds x m ab bb
        let specOk := ok == 0 || (soundB x m k true num den && decide (den ≤ bb))
        verdict line specOk (M == ⟨ok != 0, num, den⟩) (showOut M)
      -- completeness: f = a·b⁻¹ mod m computed by the harness, reconstructed with the default bound
      | "cmp", [ca, cb, m, f], [ok, num, den] =>
        if !(decide (2 ≤ m) && envelopeB ca cb m) then "PRE" else
        if !isResidueOfB f ca cb m then "BAD residue | " ++ line else
        let M := rationalReconstructionDefault f m
        let specOk := ok != 0 && num == ca && den == cb
        verdict line specOk (M == ⟨ok != 0, num, den⟩) (showOut M)
      -- uniqueness (ratrecon_unique): a reduced n/d with |n| < k, d·k ≤ m, 2·k·d ≤ m and any representative f of n·d⁻¹
      | "ucmp", [cn, cd, m, k, fr, f], [ok, num, den] =>
        if !(preMK m k && solutionB f m k cn cd && decide (2 * k * cd ≤ m)) then "PRE" else
        let M := ratrecon f m k (fr != 0)
        let specOk := ok != 0 && num == cn && den == cd
        verdict line specOk (M == ⟨ok != 0, num, den⟩) (showOut M)
      -- the same through the 7-argument wrapper (widening on) and QField::ratrecon(r,f,m,k,recurs)
      | "ucmp7", [cn, cd, m, k, fr, f], [ok, num, den] =>
        if !(preMK m k && solutionB f m k cn cd && decide (2 * k * cd ≤ m)) then "PRE" else
        let M := rationalReconstruction f m k (fr != 0) true
        let specOk := ok != 0 && num == cn && den == cd
        verdict line specOk (M == ⟨ok != 0, num, den⟩) (showOut M)
      | "ucmpq", [cn, cd, m, k, rc, f], [num, den] =>
        if !(preMK m k && solutionB f m k cn cd && decide (2 * k * cd ≤ m)) then "PRE" else
        let M := qfieldRatrecon f m k (rc != 0)
        let specOk := num == cn && den == cd
        verdict line specOk (M.num == num && M.den == den) (showOut M)
      -- completeness through QField<Rational>::ratrecon(r,f,m[,recurs])
      | "qcmp", [ca, cb, m, f, rc], [num, den] =>
        if !(decide (2 ≤ m) && envelopeB ca cb m) then "PRE" else
        if !isResidueOfB f ca cb m then "BAD residue | " ++ line else
        let M := qfieldRatreconDefault f m (rc != 0)
        let specOk := num == ca && den == cb
        verdict line specOk (M.num == num && M.den == den) (showOut M)
      -- QField<Rational>::ratrecon(r,f,m,k,recurs): no success flag is returned, model comparison only
      | "qf", [f, m, k, rc], [num, den] =>
        if !preMK m k then "PRE" else
        let M := qfieldRatrecon f m k (rc != 0)
        verdict line true (M.num == num && M.den == den) (showOut M)
      -- Poly1Dom<Modular>::ratrecon(N,D,P,M,dk,forcereduce):  pr p dk fr nP P… nM M… = ok nN N… nD D…
      | "pr", p :: dk :: fr :: rest, ok :: rrest =>
        match takePoly rest with
        | none => "BAD poly | " ++ line
        | some (pp, rest2) =>
          match takePoly rest2, takePoly rrest with
          | some (pm, []), some (pn, rrest2) =>
            match takePoly rrest2 with
            | some (pd, []) =>
              -- quantifier: deg M ≥ 1, 0 ≤ dk < deg M
              if !(decide (1 ≤ ldeg pm) && decide (0 ≤ dk) && decide (dk < ldeg pm)) then "PRE" else
              let M := polyRatrecon p pp pm dk (fr != 0)
              let corner := ldeg (lreduce p pp) == 0 && dk == 0
              let small := decide (p ≤ 5) && decide ((p.toNat) ^ ((ldeg pm - dk).toNat) ≤ 700)
              -- poly_ratrecon_full / poly_ratrecon_corner / poly_ratreconcheck_exact
              let specOk :=
                if corner then ok == 0
                else if ok != 0 then polyFullB p pp pm dk (fr != 0) pn pd
                else (fr != 0) && (!small || !existsPolySolutionB p pp pm dk)
              let modelOk := M.ok == (ok != 0) && lnorm M.n == lnorm pn && lnorm M.d == lnorm pd
              verdict line specOk modelOk s!"{hexInt (b2i M.ok)} {showPoly M.n} {showPoly M.d}"
            | _ => "BAD poly | " ++ line
          | _, _ => "BAD poly | " ++ line
      -- completeness of ratreconcheck: pcmp p dk nA A… nB B… nM M… nP P… = ok nN N… nD D…   (P built from A/B by the harness)
      | "pcmp", p :: dk :: rest, ok :: rrest =>
        match takePoly rest with
        | none => "BAD poly | " ++ line
        | some (pa, r1) =>
          match takePoly r1 with
          | none => "BAD poly | " ++ line
          | some (pb, r2) =>
            match takePoly r2 with
            | none => "BAD poly | " ++ line
            | some (pm, r3) =>
              match takePoly r3, takePoly rrest with
              | some (pp, []), some (pn, rrest2) =>
                match takePoly rrest2 with
                | some (pd, []) =>
                  let pp' := lreduce p pp
                  let pre := decide (1 ≤ ldeg pm) && decide (0 ≤ dk) && decide (dk < ldeg pm) &&
                    decide (ldeg pa ≤ dk) && decide (ldeg pb < ldeg pm - dk) && !(lnorm pb).isEmpty &&
                    (decide (ldeg pa < dk) || decide (ldeg pp' ≠ dk)) &&
                    decide (ldeg (lgcd p (lreduce p pb) (lreduce p pm)) ≤ 0) && !(ldeg pp' == 0 && dk == 0)
                  if !pre then "PRE" else
                  -- the harness's residue must really be A/B:  B·P ≡ A (mod M)
                  if !(ldivmod p (lsub p (lmul p (lreduce p pb) pp') (lreduce p pa)) pm).2.isEmpty then "BAD residue | " ++ line else
                  let M := polyRatrecon p pp pm dk true
                  let cross := lsub p (lmul p (lreduce p pa) (lreduce p pd)) (lmul p (lreduce p pb) (lreduce p pn))
                  let specOk := ok != 0 && cross.isEmpty && polyFullB p pp pm dk true pn pd
                  let modelOk := M.ok == (ok != 0) && lnorm M.n == lnorm pn && lnorm M.d == lnorm pd
                  verdict line specOk modelOk s!"{hexInt (b2i M.ok)} {showPoly M.n} {showPoly M.d}"
                | _ => "BAD poly | " ++ line
              | _, _ => "BAD poly | " ++ line
      | _, _, _ => "BAD key/arity | " ++ line
    | _, _ => "BAD number | " ++ line

end Driver.RatRecon
