/- Correspondence driver: `driver <mode>` reads harness output lines on stdin and prints one
   verdict per line (see the per-mode modules). -/
import Driver.Common
import Driver.Integer
open Driver

def main (args : List String) : IO UInt32 := do
  let stdin ← IO.getStdin
  match args with
  | ["integer"] =>
    forLines stdin (fun _ line => IO.println (integerLine line))
    return 0
  | _ =>
    IO.eprintln "usage: driver integer"
    return 2
