/- C13 driver: one verdict per line of harness/h_numtheo.cpp.
   Every line is judged twice: the implementation's output against the *specification* (brute-force definition
   or verified certificate) and against the *model* (exactly where the output is determined, up to the
   documented freedom — sign of a root, choice of a primitive root — elsewhere). -/
import Driver.Common
import GivaroModel.Model.NumTheo
import GivaroModel.Spec.NumTheoSpec
-- @driver-mode numtheo Driver.NumTheo.numtheoLine
namespace Driver.NumTheo
open Driver
open Givaro.Model.NumTheo Givaro.Spec.NumTheo

/-- brute-force definitions are evaluated up to these moduli -/
def bruteMax : Int := 8192
def lambdaBruteMax : Int := 1300

/-- the i-th random draw of the model: 2, 3, 4, … (the least admissible value is taken) -/
def drvRnd (i : Nat) : Int := (i : Int) + 2

def showInts (xs : List Int) : String := String.intercalate " " (xs.map hexInt)
def showOpt (x : Option Int) : String := match x with | some v => hexInt v | none => "none"

def mkVerdict (line : String) (specOk modelOk : Bool) (model : String) : String :=
  if specOk && modelOk then "OK"
  else
    let kind := if !specOk && !modelOk then "BOTH" else if !specOk then "SPEC" else "MODEL"
    s!"DIFF kind={kind} model={model} | {line.trimAscii.toString}"

/-- pairs (p, e) from a flat list -/
def pairsOf : List Int → List (Int × Nat)
  | p :: e :: rest => (p, e.toNat) :: pairsOf rest
  | _ => []

def natFs (n : Int) : List (Nat × Nat) := factorize n.toNat

/-- `x ≡ ±y (mod m)` -/
def eqUpToSign (x y m : Int) : Bool := (x - y) % m == 0 || (x + y) % m == 0

def b2i (b : Bool) : Int := if b then 1 else 0

/-- phi from a list of the prime divisors (each must divide; together they must exhaust n) -/
def phiFormula (n : Int) (fs : List Int) : Option Int :=
  let rec strip : Nat → Int → Int → Int
    | 0, m, _ => m
    | k + 1, m, f => if f > 1 ∧ m % f = 0 ∧ m ≠ 0 then strip k (m / f) f else m
  let rest := fs.foldl (fun m f => strip (n.natAbs.log2 + 1) m f) n
  if rest ≠ 1 ∨ fs.any (fun f => n % f ≠ 0) then none
  else some (fs.foldl (fun r f => r / f * (f - 1)) n)

/-- primality by trial division up to the square root (for the few large primes the harness prints) -/
def isPrimeGo (n : Nat) : Nat → Nat → Bool
  | 0, _ => true
  | fuel + 1, d => if d * d > n then true else if n % d == 0 then false else isPrimeGo n fuel (d + 1)
def isPrimeTD (n : Nat) : Bool := n ≥ 2 && isPrimeGo n (2 ^ (n.log2 / 2 + 1) + 2) 2

def numtheoLine (line : String) : String :=
  match splitLine line with
  | none => "BAD empty"
  | some (key, args, res) =>
    if key == "harness" then "OK" else     -- `harness = ABORTED …`: the non-zero exit status of the harness is what the check reports
    if res == ["CRASH"] then s!"DIFF kind=SPEC model=- (the call aborted inside the library) | {line.trimAscii.toString}" else
    if res == ["TIMEOUT"] then s!"DIFF kind=SPEC model=- (the call did not return within the per-case time limit) | {line.trimAscii.toString}" else
    if res == ["NOINST"] then s!"DIFF kind=SPEC model=- (the member function does not instantiate on this tree) | {line.trimAscii.toString}" else
    match parseAll args, parseAll res with
    | some a, some r =>
      let v := mkVerdict line
      match key, a, r with
      | "phi", [n], [o] =>
        if n < 0 then "PRE" else
        let m := phi n
        let s := if n ≤ bruteMax then o == (phiSpec n.toNat : Int) else
                 (match phiFormula n (primeFactors n) with | some w => o == w | none => false)
        v s (o == m) (hexInt m)
      | "phil", n :: fs, [o] =>
        if n < 1 then "PRE" else
        let m := phiL fs n
        (match phiFormula n fs with
         | none => "PRE"
         | some w => v (o == w) (o == m) (hexInt m))
      | "mobius", [n], [o] =>
        if n < 1 ∨ n > bruteMax then "PRE" else
        let m := mobius n
        v (o == mobiusSpec n.toNat) (o == m) (hexInt m)
      | "order", [x, n], [o] =>
        if n < 2 ∨ n > bruteMax then "PRE" else
        let m := order x n
        v (o == (orderSpec (x % n).toNat n.toNat : Int)) (o == m) (hexInt m)
      | "isorder", [g, x, n], [o] =>
        if n < 2 ∨ n > bruteMax ∨ g < 1 then "PRE" else
        let m := b2i (isOrder g x n)
        v (o == b2i (g == (orderSpec (x % n).toNat n.toNat : Int))) (o == m) (hexInt m)
      | "isprimroot", [x, n], [o] =>
        if n < 2 ∨ n > bruteMax then "PRE" else
        let m := b2i (isPrimRoot x n)
        v (o == b2i (isPrimRootSpec (x % n).toNat n.toNat)) (o == m) (hexInt m)
      | "lowprimroot", [n], [o] =>
        if n < 2 ∨ n > bruteMax then "PRE" else
        let m := lowestPrimRoot n
        v (o == (lowestPrimRootSpec n.toNat : Int)) (o == m) (hexInt m)
      | "primroot", [n], [o] =>
        if n < 2 then "PRE" else
        if n > bruteMax then
          -- large modulus: the criterion of `is_prim_root_iff` (order φ(n) ⇔ test over the prime factors of φ(n)), factor lists by trial division
          let mf := primRoot drvRnd n
          v (isPrimRoot o n) (match primRootDet n with | some w => o == w | none => (match mf with | some w' => isPrimRoot w' n | none => false)) (showOpt (primRootDet n))
        else
        let m := primRootDet n
        -- the full model (random candidates from drvRnd) must agree with primRootDet where that is defined and pass the checker elsewhere
        let mf := primRoot drvRnd n
        let mfOk := match m, mf with
          | some w, some w' => w == w'
          | none, some w' => isPrimRootSpec (w' % n).toNat n.toNat
          | _, none => false
        v (isPrimRootSpec (o % n).toNat n.toNat) ((match m with | some w => o == w | none => true) && mfOk) (showOpt m ++ "/" ++ showOpt mf)
      | "primrootpk", p :: k :: two :: fl, [o] =>
        -- n = p^k or 2 p^k; fl = the prime factors of phi(n) = p^(k-1)(p-1) printed by the harness, re-checked here (each a prime by
        -- trial division, each dividing phi, together exhausting it); verdict by the criterion proved in `is_prim_root_iff`
        if p < 3 ∨ k < 1 ∨ !isPrimeTD p.toNat then "PRE" else
        let pk := p ^ k.toNat
        let n := if two ≠ 0 then 2 * pk else pk
        let ph := p ^ (k.toNat - 1) * (p - 1)
        let listOk := fl.all (fun f => f ≥ 2 && isPrimeTD f.toNat && ph % f == 0) && (phiFormula ph fl).isSome
        if !listOk then "BAD factor list | " ++ line.trimAscii.toString else
        let spec := Int.gcd o n == 1 && fl.all (fun f => powmod o (ph / f).toNat n != 1) && powmod o ph.toNat n == 1
        let mo := if p < 1000000 then (match primRootDet n with | some w => o == w | none => true) else true
        v spec mo (if p < 1000000 then showOpt (primRootDet n) else "-")
      | "primrootp", [n], [o] =>
        if n < 2 ∨ n > bruteMax then "PRE" else
        v (isPrimRootSpec (o % n).toNat n.toNat) true "-"
      | "probprimroot", [n], [o] =>
        if n < 3 ∨ n > bruteMax then "PRE" else
        v (isPrimRootSpec (o % n).toNat n.toNat) true "-"
      | "priminv", [n], [o] =>
        if n < 2 ∨ n > lambdaBruteMax then "PRE" else
        let N := n.toNat; let x := (o % n).toNat
        v (Nat.gcd x N == 1 && orderSpec x N == carmichaelSpec N) true "-"
      | "primelem", [n], [o] =>
        if n < 2 ∨ n > lambdaBruteMax then "PRE" else
        let N := n.toNat; let x := (o % n).toNat
        v (orbitSize x N == lambdaDocSpec N) true "-"
      | "lambdainv", [n], [o] =>
        if n < 2 then "PRE" else
        let m := lambdaInv n
        let s : Int := if n ≤ lambdaBruteMax then carmichaelSpec n.toNat else carmichaelFormula (natFs n)
        v (o == s) (o == m) (hexInt m)
      | "lambda", [n], [o] =>
        if n < 2 then "PRE" else
        let m := lambda n
        let s : Int := if n ≤ lambdaBruteMax then lambdaDocSpec n.toNat
                       else (if n = 8 then 3 else carmichaelFormula (natFs n))
        v (o == s) (o == m) (hexInt m)
      | "lambdapp", [p, e], [o] =>
        if p < 2 ∨ e < 1 ∨ !isPrime p.toNat then "PRE" else
        let m := lambdaPrimpow p e.toNat
        let pe := p ^ e.toNat
        let s : Int := if pe ≤ lambdaBruteMax then maxOrbitSpec pe.toNat
                       else (if p = 2 ∧ e = 3 then 3 else carmichaelPP p.toNat e.toNat)
        v (o == s) (o == m) (hexInt m)
      | "lambdainvpp", [p, e], [o] =>
        if p < 2 ∨ e < 1 ∨ !isPrime p.toNat then "PRE" else
        let m := lambdaInvPrimpow p e.toNat
        let pe := p ^ e.toNat
        let s : Int := if pe ≤ lambdaBruteMax then carmichaelSpec pe.toNat else carmichaelPP p.toNat e.toNat
        v (o == s) (o == m) (hexInt m)
      | "jacobi", [x, n], [o] =>
        if n < 1 ∨ n % 2 = 0 then "PRE" else
        let m := jacobi x n
        let s := if n ≤ bruteMax then jacobiSpec x (natFs n) else m
        v (o == s) (o == m) (hexInt m)
      | "legendre", [x, p], [o] =>
        if p < 3 ∨ p % 2 = 0 then "PRE" else
        let m := legendre x p
        let s : Int := if p ≤ bruteMax then legendreSpec x p.toNat
                       else (let t := powmodS (x % p) ((p - 1) / 2).toNat p; if t = p - 1 then -1 else t)
        v (o == s) (o == m) (hexInt m)
      | "kronecker", [x, n], [o] =>
        let m := kronecker x n
        let s := if n ≥ 1 ∧ n % 2 = 1 ∧ n ≤ bruteMax then jacobiSpec x (natFs n) else m
        v (o == s) (o == m) (hexInt m)
      | "isqrt", [x], [q] =>
        if x < 0 then "PRE" else
        let m := isqrt x
        v (isqrtChk x q) (q == m) (hexInt m)
      | "sqrtrem", [x], [q, rr] =>
        if x < 0 then "PRE" else
        let m := isqrt x
        v (isqrtChk x q && q * q + rr == x) (q == m) (hexInt m)
      | "root", [x, n], [q, ex] =>
        if x < 0 ∨ n < 1 then "PRE" else
        let m := iroot x n.toNat
        v (irootChk x n.toNat q (ex != 0)) (q == m.1 && (ex != 0) == m.2) (hexInt m.1)
      | "logp", [x, p], [o] =>
        if x < 1 ∨ p < 2 then "PRE" else
        let m := logp x p
        v (logpChk x p o) (o == m) (hexInt m)
      | "sqrtp", [x, p], [o] =>
        if p < 2 then "PRE" else
        let m := sqrootmodprime drvRnd x p
        let s := sqrtVerdict x o p [(p, 1)]
        let det := p % 4 = 3 ∨ p % 8 = 5
        let mo := match m with
          | none => false
          | some w => if det then o == w
                      else (w == -1) == (o == -1) && (w == -1 || (eqUpToSign o w p && sqrtVerdict x w p [(p, 1)]))
        v s mo (showOpt m)
      | "sqrtpk", [x, p, k], [o] =>
        if p < 3 ∨ k < 1 then "PRE" else
        let pk := p ^ k.toNat
        let m := sqrootmodprimepower drvRnd (ppFuel k.toNat) x p k.toNat pk
        let s := sqrtVerdict x o pk [(p, k.toNat)]
        let mo := match m with
          | none => false
          | some w => (w == -1) == (o == -1) && (w == -1 || eqUpToSign o w pk)
        v s mo (showOpt m)
      | "sqrt2k", [x, k], [o] =>
        if k < 1 then "PRE" else
        let pk : Int := 2 ^ k.toNat
        let m := sqrootmodpoweroftwo (ppFuel k.toNat) x k.toNat pk
        let s := sqrtVerdict x o pk [(2, k.toNat)]
        v s (m == some o) (showOpt m)
      | "sqrtn", x :: n :: fl, [o] =>
        let fs := pairsOf fl
        let prod := fs.foldl (fun acc pe => acc * pe.1 ^ pe.2) (1 : Int)
        if n < 2 ∨ prod ≠ n then "PRE" else
        let m := sqrootmodL drvRnd x fs
        let s := sqrtVerdict x o n fs
        let mo := match m with
          | none => false
          | some w => fs.all (fun pe => eqUpToSign o w (pe.1 ^ pe.2))
        v s mo (showOpt m)
      | "brillhart", [p], [x, y] =>
        if p < 5 ∨ p % 4 ≠ 1 then "PRE" else
        let m := brillhart drvRnd p
        v (twoSquaresChk x y p) (m == some (x, y)) (match m with | some w => showInts [w.1, w.2] | none => "none")
      | "sosq", [k, p], [x, y] =>
        if p < 2 then "PRE" else
        let m := sosqDeterministic drvRnd k p
        let mo := match m with
          | none => false
          | some w => eqUpToSign x w.1 p && eqUpToSign y w.2 p
        v (twoSquaresModChk x y k p) mo (match m with | some w => showInts [w.1, w.2] | none => "none")
      | "sosqnr", [k, s, p], [x, y] =>
        if p < 3 ∨ jacobi k p ≠ -1 ∨ jacobi s p ≠ -1 ∨ jacobi (s - 1) p ≠ 1 then "PRE" else
        let m := sosqWithNonresidue drvRnd k s p
        let mo := match m with
          | none => false
          | some w => eqUpToSign x w.1 p && eqUpToSign y w.2 p
        v (twoSquaresModChk x y k p) mo (match m with | some w => showInts [w.1, w.2] | none => "none")
      | "sosqmc", [k, p], [x, y] =>
        if p < 2 then "PRE" else v (twoSquaresModChk x y k p) true "-"
      | "sosqnoerh", [k, p], [x, y] =>
        if p < 2 then "PRE" else v (twoSquaresModChk x y k p) true "-"
      | _, _, _ => "BAD key/arity | " ++ line.trimAscii.toString
    | _, _ => "BAD parse | " ++ line.trimAscii.toString

end Driver.NumTheo
