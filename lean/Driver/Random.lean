/- C20 driver: evaluates the model (Model/Random.lean) and the checkers (Spec/RandomSpec.lean) on every line
   printed by harness/h_random.cpp. -/
import Driver.Common
import GivaroModel.Model.Random
import GivaroModel.Spec.RandomSpec
-- @driver-mode random Driver.Random.randomLine
namespace Driver.Random
open Driver
open Givaro Givaro.Model.Random Givaro.Spec.Random

/-- raw generator that replays the draws recorded by the harness: (kind, argument, value) with kind 0 = `get_z_bits`,
    1 = `get_z_range`; a request whose kind or argument differs from the recorded one marks the replay as diverged -/
structure TrSt where
  rest : List (Int × Int × Int)
  ok : Bool

def trGen : RawGen TrSt where
  bits := fun st n =>
    match st.rest with
    | (k, a, v) :: tl => (v, ⟨tl, st.ok && k == 0 && a == (n : Int)⟩)
    | [] => (0, ⟨[], false⟩)
  range := fun st m =>
    match st.rest with
    | (k, a, v) :: tl => (v, ⟨tl, st.ok && k == 1 && a == m⟩)
    | [] => (0, ⟨[], false⟩)

def triples : List Int → Option (List (Int × Int × Int))
  | [] => some []
  | k :: a :: v :: rest => (triples rest).map (fun t => (k, a, v) :: t)
  | _ => none

/-- every recorded raw draw satisfies GMP's contract -/
def contractOk (t : List (Int × Int × Int)) : Bool :=
  t.all (fun (k, a, v) => if k == 0 then decide (0 ≤ a ∧ 0 ≤ v ∧ v < 2 ^ a.toNat) else decide (0 < a ∧ 0 ≤ v ∧ v < a))

def verdict (specOk modelOk : Bool) (model : String) (line : String) : String :=
  if specOk && modelOk then "OK"
  else
    let kind := if !specOk && !modelOk then "BOTH" else if !specOk then "SPEC" else "MODEL"
    s!"DIFF kind={kind} model={model} | {line.trimAscii.toString}"

def showL (l : List Int) : String := String.intercalate " " (l.map hexInt)

def splitT (res : List String) : List String × List String :=
  (res.takeWhile (· != "T"), (res.dropWhile (· != "T")).drop 1)

/-- finished replay: value and whether the whole recorded trace was consumed in the recorded order -/
def fin (d : Int × TrSt) : Option Int := if d.2.ok && d.2.rest.isEmpty then some d.1 else none
def finO (d : Option (Int × TrSt)) : Option Int := d.bind fin

/-- Integer::random* cases: returns (precondition, specOk, model result) -/
def intCase (key : String) (a : List Int) (r : Int) (t : List (Int × Int × Int)) : Option (Bool × Bool × Option Int) :=
  let st : TrSt := ⟨t, true⟩
  let fuel := t.length + 1
  match a with
  | [_, _, x, y] =>
    let ap := x != 0
    let n := y.toNat
    if key == "lt" || key == "rndI" then some (decide (1 ≤ y), ltOk ap y r, fin (lessthan trGen ap y st))
    else if key == "lt0" then some (decide (1 ≤ y), ltOk true y r, fin (lessthan trGen true y st))
    else if key == "lt2" || key == "ltw" || key == "ltv" || key == "rndW" then
      some (decide (0 ≤ y), ltOk ap (2 ^ n) r, fin (lessthan2exp trGen ap n st))
    else if key == "ex2" || key == "exT" || key == "exV" then
      some (decide (1 ≤ y), exactOk ap n r, fin (exact2exp trGen ap n 0 st))
    else if key == "exI" then some (true, exactOk ap (bitsize y) r, fin (exactI trGen ap y 0 st))
    else if key == "btw" || key == "btwv" then some (decide (x < y), betweenOk x y r, fin (between trGen x y st))
    else if key == "btw2" || key == "btwT" || key == "btwU" then
      some (decide (0 ≤ x ∧ x < y), betweenOk (2 ^ x.toNat) (2 ^ n) r, finO (between2exp trGen x.toNat n fuel st))
    else if key == "nz" || key == "nzv" then some (decide (1 ≤ y), nonzeroOk ap (2 ^ n) r, finO (nonzeroW trGen ap n fuel st))
    else if key == "nzI" then some (decide (2 ≤ y), nonzeroOk ap y r, finO (nonzeroI trGen ap y fuel st))
    else if key == "rnd0" then some (true, ltOk ap (2 ^ 64) r, fin (random0 trGen ap st))
    else if key == "nz0" then some (true, nonzeroOk true (2 ^ 64) r, finO (nonzeroW trGen true 64 fuel st))
    else if key == "rbool" then
      some (true, r == 0 || r == 1, fin (((if (randBool trGen st).1 then 1 else 0), (randBool trGen st).2)))
    else none
  | _ => none

/-- storage type of the modelled `Modular<Storage_t>` instantiations (type column of the harness) -/
def modSty (t : Int) : Option (Nat × Bool) :=
  if t == 1 then some (8, true) else if t == 2 then some (8, false) else if t == 3 then some (16, true)
  else if t == 4 then some (16, false) else if t == 5 then some (32, true) else if t == 6 then some (32, false)
  else if t == 7 then some (64, true) else if t == 8 then some (64, false) else if t == 9 then some (32, true)
  else if t == 10 then some (32, false) else none

def loopFuel : Nat := 4096

def ringCase (a : List Int) (res : List Int) (line : String) : String :=
  match a, res with
  | [t, p, k, seed, fn, size, n], eq :: es =>
    if seed == 0 then "PRE" else
    let q : Int := if t == 0x20 || t == 0x21 then p ^ k.toNat else p
    let canon : Int → Bool := if 0x12 ≤ t && t ≤ 0x15 then canonicalBal q else canonical q
    let nz := fn == 3 || fn == 5 || fn == 7
    let specOk := eq == 1 && decide (es.length = n.toNat) && es.all canon && (!nz || es.all (· != 0))
    let model : Option (Option (List Int)) :=
      match modSty t with
      | some (bits, sgn) => some (modSeq bits sgn p fn.toNat size loopFuel n.toNat (givInit seed))
      | none =>
        if t == 0x20 then some (gfqSeq 32 q fn.toNat size loopFuel n.toNat (givInit seed))
        else if t == 0x21 then some (gfqSeq 64 q fn.toNat size loopFuel n.toNat (givInit seed))
        else if t == 0x1a || t == 0x1b then some (ruRingSeq 7 p fn.toNat loopFuel n.toNat (givInit seed))
        else none
    match model with
    | none => verdict specOk true "speconly" line                 -- ring type whose `init` is not modelled here: implementation vs specification
    | some m => verdict specOk (m == some es) (match m with | some l => showL l | none => "LOOP") line
  | _, _ => "BAD ring | " ++ line

def polyCase (a : List Int) (res : List Int) (line : String) : String :=
  match a, res with
  | [t, p, k, seed, kind, arg], sz :: cs =>
    let d : Int := if kind % 4 == 0 then arg else if kind % 4 == 2 then 0 else arg - 1
    -- a non-zero polynomial of size 0 does not exist: `nonzerorandom` of size 0 is outside the property
    if seed == 0 || (d < 0 && kind ≥ 4) then "PRE" else
    let q : Int := if t == 0x20 then p ^ k.toNat else p
    let specOk := decide (sz = cs.length) && polyDegOk q d cs
    if t == 5 then
      let m := (polyRandomDeg 32 true p d loopFuel (givInit seed)).map (·.1)
      verdict specOk (m == some cs) (match m with | some l => showL l | none => "LOOP") line
    else verdict specOk true "speconly" line
  | _, _ => "BAD poly | " ++ line

/-- successive `rand` values from the word stream -/
def ruSeq (f : List Int → Int × List Int) : Nat → List Int → List Int × List Int
  | 0, ws => ([], ws)
  | n+1, ws => let d := f ws; let r := ruSeq f n d.2; (d.1 :: r.1, r.2)

def randomLine (line : String) : String :=
  match splitLine line with
  | none => "BAD empty"
  | some (key, args, res) =>
    match parseAll args with
    | none => "BAD args | " ++ line
    | some a =>
      if res == ["UNSUPPORTED"] then "PRE" else
      let (vals, tr) := splitT res
      match parseAll vals, parseAll tr with
      | some v, some trI =>
        if key == "giv" then
          match a with
          | [seed, n] =>
            if seed == 0 then "PRE" else
            let h1 := v.take n.toNat
            let h2 := v.drop n.toNat
            let m := givDraws n.toNat (givInit seed)
            verdict (decide (v.length = 2 * n.toNat) && h1 == h2 && h1.all givOk) (m == h1) (showL m) line
          | _ => "BAD giv | " ++ line
        else if key == "givlong" then
          match a, v with
          | [seed, n], [last, sum, mx, mn, eq] =>
            if seed == 0 || n ≤ 0 then "PRE" else
            let m := givSummary n.toNat (givInit seed)
            verdict (eq == 1 && givOk mx && givOk mn) (m == ⟨last, sum, mx, mn⟩) (showL [m.last, m.sum, m.max, m.min]) line
          | _, _ => "BAD givlong | " ++ line
        else if key == "givcopy" || key == "seedrep" || key == "rurep" then
          match a with
          | seed :: _ => if seed == 0 && key != "rurep" && key != "seedrep" then "PRE" else verdict (v == [1]) true "1" line
          | _ => "BAD | " ++ line
        else if key == "ring" then ringCase a v line
        else if key == "poly" then polyCase a v line
        else if key == "ru" then
          match a with
          | [k, _, n] =>
            let K := k.toNat
            let m := ruSeq (ruRand K) n.toNat trI
            if !(trI.all (fun w => decide (0 ≤ w ∧ w < 18446744073709551616))) then "BAD contract | " ++ line else
            verdict (decide (v.length = n.toNat) && v.all (fun x => decide (0 ≤ x ∧ x < 2 ^ (2 ^ K)))) (m.1 == v && m.2.isEmpty) (showL m.1) line
          | _ => "BAD ru | " ++ line
        else if key == "rm" then
          match a with
          | [k, mg, p, _, n] =>
            let K := k.toNat
            let m := ruSeq (if mg == 0 then rmRand K p else rmRandMg K p) n.toNat trI
            if !(trI.all (fun w => decide (0 ≤ w ∧ w < 18446744073709551616))) then "BAD contract | " ++ line else
            verdict (decide (v.length = n.toNat) && v.all (canonical p)) (m.1 == v && m.2.isEmpty) (showL m.1) line
          | _ => "BAD rm | " ++ line
        else
          match triples trI with
          | none => "BAD trace | " ++ line
          | some t =>
            if !contractOk t then "BAD contract | " ++ line else
            if key == "rii" then
              match a with
              | [_, _, u, e, how, b, k] =>
                let ub := u != 0
                let eb := e != 0
                let st : TrSt := ⟨t, true⟩
                let bits : Nat := if how == 0 then b.toNat else bitsize b
                if bits == 0 then "PRE" else
                let start : Int × TrSt := if how == 0 then riiNext trGen ub eb 30 0 st else (0, st)
                let m := riiSeq trGen ub eb bits k.toNat start.1 start.2
                let specOk := decide (v.length = k.toNat) && v.all (fun x => if eb then exactOk ub bits x else ltOk ub (2 ^ bits) x)
                verdict specOk (m.1 == v && m.2.ok && m.2.rest.isEmpty) (showL m.1) line
              | _ => "BAD rii | " ++ line
            else
              match v with
              | [r] =>
                match intCase key a r t with
                | none => "BAD key | " ++ line
                | some (pre, specOk, m) =>
                  if !pre then "PRE" else
                  verdict specOk (m == some r) (match m with | some x => hexInt x | none => "DIVERGED") line
              | _ => "BAD result | " ++ line
      | _, _ => "BAD result | " ++ line

end Driver.Random
