/- C20 driver: evaluates the model (Model/Random.lean) and the checkers (Spec/RandomSpec.lean) on every line
   printed by harness/h_random.cpp. -/
import Driver.Common
import GivaroModel.Model.Random
import GivaroModel.Model.RandomDest
import GivaroModel.Model.RandomRings
import GivaroModel.Spec.RandomSpec
-- @driver-mode random Driver.Random.randomLine
namespace Driver.Random
open Driver
open Givaro Givaro.Model.Random Givaro.Model.RandomRings Givaro.Spec.Random

/-- raw generator that replays the draws recorded by the harness: (kind, argument, value) with kind 0 = `get_z_bits`,
    1 = `get_z_range`; a request whose kind or argument differs from the recorded one marks the replay as diverged -/
structure TrSt where
  rest : List (Int × Int × Int)
  ok : Bool

def trGen : RawGen TrSt where
  bits := fun st n =>
    match st.rest with
    | (k, a, v) :: tl => (v, ⟨tl, st.ok && k == 0 && a == (n : Int)⟩)
    | [] => (0, ⟨[], false⟩)
  range := fun st m =>
    match st.rest with
    | (k, a, v) :: tl => (v, ⟨tl, st.ok && k == 1 && a == m⟩)
    | [] => (0, ⟨[], false⟩)

def triples : List Int → Option (List (Int × Int × Int))
  | [] => some []
  | k :: a :: v :: rest => (triples rest).map (fun t => (k, a, v) :: t)
  | _ => none

/-- every recorded raw draw satisfies GMP's contract -/
def contractOk (t : List (Int × Int × Int)) : Bool :=
  t.all (fun (k, a, v) => if k == 0 then decide (0 ≤ a ∧ 0 ≤ v ∧ v < 2 ^ a.toNat) else decide (0 < a ∧ 0 ≤ v ∧ v < a))

def verdict (specOk modelOk : Bool) (model : String) (line : String) : String :=
  if specOk && modelOk then "OK"
  else
    let kind := if !specOk && !modelOk then "BOTH" else if !specOk then "SPEC" else "MODEL"
    s!"DIFF kind={kind} model={model} | {line.trimAscii.toString}"

def showL (l : List Int) : String := String.intercalate " " (l.map hexInt)

/-- result tokens: `values [T trace] [U second [U third]]` -/
def splitT (res : List String) : List String × List String × List String × List String :=
  let vals := res.takeWhile (fun t => t != "T" && t != "U")
  let rest := res.dropWhile (fun t => t != "T" && t != "U")
  let tr := if rest.head? == some "T" then (rest.drop 1).takeWhile (· != "U") else []
  let afterT := if rest.head? == some "T" then (rest.drop 1).dropWhile (· != "U") else rest
  let u1 := (afterT.drop 1).takeWhile (· != "U")
  let u2 := ((afterT.drop 1).dropWhile (· != "U")).drop 1
  (vals, tr, u1, u2)

/-- finished replay: value and whether the whole recorded trace was consumed in the recorded order -/
def fin (d : Int × TrSt) : Option Int := if d.2.ok && d.2.rest.isEmpty then some d.1 else none
def finO (d : Option (Int × TrSt)) : Option Int := d.bind fin

def isKey (key : String) (ks : List String) : Bool := ks.contains key

/-- Integer::random* cases: returns (precondition, specOk, model result).  `old` is what the destination held. -/
def intCase (key : String) (a : List Int) (r : Int) (t : List (Int × Int × Int)) : Option (Bool × Bool × Option Int) :=
  let st : TrSt := ⟨t, true⟩
  let fuel := t.length + 1
  match a with
  | [_, _, x, y, old] =>
    let apx := x != 0
    let n := y.toNat
    -- overloads without the ALWAYSPOSITIVE template argument are the `<true>` forms; value-returning ones draw into a fresh Integer
    let forcedTrue := isKey key ["lt0", "rndIT", "lt20", "ltw0", "ltvT", "ex20", "exI0", "nzT", "rnd0t", "nz0"]
    let ap := forcedTrue || apx
    let valueRet := isKey key ["ltv", "ltv0", "ltvT", "exV", "exVI", "btwv", "btw2v", "btwTv", "btwU", "nzv", "nzIv", "rndIv", "rndWv", "rnd0", "rnd0t", "nz0", "rbool"]
    let o : Int := if valueRet then 0 else old
    if isKey key ["lt", "rndI", "lt0", "rndIT", "rndIv"] then some (decide (1 ≤ y), ltOk ap y r, fin (lessthanD trGen ap y o st))
    else if isKey key ["lt2", "ltw", "ltv", "rndW", "ltv0", "rndWv", "lt20", "ltw0", "ltvT"] then
      some (decide (0 ≤ y), ltOk ap (2 ^ n) r, fin (lessthan2expD trGen ap n o st))
    else if isKey key ["ex2", "exT", "exV", "exw", "ex20"] then
      some (decide (1 ≤ y), exactOk ap n r, fin (exact2expD trGen ap n o st))
    else if isKey key ["exI", "exVI", "exI0"] then some (true, exactOk ap (bitsize y) r, fin (exactID trGen ap y o st))
    else if isKey key ["btw", "btwv"] then some (decide (x < y), betweenOk x y r, fin (betweenD trGen x y o st))
    else if isKey key ["btw2", "btwT", "btwU", "btw2v", "btwW", "btwTv"] then
      some (decide (0 ≤ x ∧ x < y), betweenOk (2 ^ x.toNat) (2 ^ n) r, finO (between2expD trGen x.toNat n fuel o st))
    else if isKey key ["nz", "nzv", "nzT"] then some (decide (1 ≤ y), nonzeroOk ap (2 ^ n) r, finO (nonzeroWD trGen ap n fuel o st))
    else if isKey key ["nzI", "nzIv"] then some (decide (2 ≤ y), nonzeroOk ap y r, finO (nonzeroID trGen ap y fuel o st))
    else if key == "zrW" then       -- ZRing<Integer>::random(g, r, long s) / nonzerorandom(g, r, long s)
      (if apx then some (decide (0 ≤ y), ltOk true (2 ^ n) r, fin (lessthan2expD trGen true n o st))
       else some (decide (1 ≤ y), nonzeroOk true (2 ^ n) r, finO (nonzeroWD trGen true n fuel o st)))
    else if key == "zrI" then       -- ZRing<Integer>::random(g, r, const Rep& b) / nonzerorandom(g, r, const Rep& b)
      (if apx then some (decide (1 ≤ y), ltOk true y r, fin (lessthanD trGen true y o st))
       else some (decide (2 ≤ y), nonzeroOk true y r, finO (nonzeroID trGen true y fuel o st)))
    else if isKey key ["rnd0", "rnd0t"] then some (true, ltOk ap (2 ^ 64) r, fin (random0 trGen ap st))
    else if key == "nz0" then some (true, nonzeroOk true (2 ^ 64) r, finO (nonzeroWD trGen true 64 fuel 0 st))
    else if key == "rbool" then
      some (true, r == 0 || r == 1, fin (((if (randBool trGen st).1 then 1 else 0), (randBool trGen st).2)))
    else none
  | _ => none

/-- storage type of the modelled `Modular<Storage_t>` instantiations (type column of the harness) -/
def modSty (t : Int) : Option (Nat × Bool) :=
  if t == 1 then some (8, true) else if t == 2 then some (8, false) else if t == 3 then some (16, true)
  else if t == 4 then some (16, false) else if t == 5 then some (32, true) else if t == 6 then some (32, false)
  else if t == 7 then some (64, true) else if t == 8 then some (64, false) else if t == 9 then some (32, true)
  else if t == 10 then some (32, false) else none

def loopFuel : Nat := 4096

/-- element type of the `ZRing<T>` instantiations (type column 0x31 … 0x38) -/
def zSty (t : Int) : Option (Nat × Bool) :=
  if t == 0x31 then some (8, true) else if t == 0x32 then some (8, false) else if t == 0x33 then some (16, true)
  else if t == 0x34 then some (16, false) else if t == 0x35 then some (32, true) else if t == 0x36 then some (32, false)
  else if t == 0x37 then some (64, true) else if t == 0x38 then some (64, false) else none

/-- the classes of Model/RandomRings.lean (type column of the harness) -/
def ringDrawOf (t p : Int) : Option RingDraw :=
  if t == 0x10 || t == 0x11 then some (fltRing p)
  else if t == 0x12 then some (balRing wrapS32 p)
  else if t == 0x13 then some (balRing wrapS64 p)
  else if t == 0x14 || t == 0x15 then some (balRing id p)
  else if t == 0x16 then some (mgRing p)
  else if t == 0x39 then some zfltRing
  else (zSty t).map (fun bs => zintRing bs.1 bs.2)

/-- the harness pre-fills the destinations of the first sequence with the all-ones / -1 pattern of the element type -/
def junkOf (t : Int) : Int :=
  match modSty t with
  | some (bits, sgn) => if sgn then -1 else 2 ^ bits - 1
  | none =>
    if t == 0x1a || t == 0x1b then 2 ^ 128 - 1 else if t == 0x30 then 1
    else match zSty t with
      | some (bits, sgn) => if sgn then -1 else 2 ^ bits - 1
      | none => -1

def ringCase (a : List Int) (res : List Int) (line : String) : String :=
  match a, res with
  | [t, p, k, seed, fn, size, n], eq :: es =>
    if seed == 0 then "PRE" else
    let q : Int := if t == 0x20 || t == 0x21 then p ^ k.toNat else p
    let canon : Int → Bool :=
      if 0x12 ≤ t && t ≤ 0x15 then canonicalBal q
      else if t == 0x39 then (fun e => decide (0 ≤ e ∧ e < 9007199254740992))
      else match zSty t with
        | some (bits, sgn) => (fun e => if sgn then decide (-(2 ^ (bits - 1)) ≤ e ∧ e < 2 ^ (bits - 1)) else decide (0 ≤ e ∧ e < 2 ^ bits))
        | none => canonical q
    let nz := fn == 3 || fn == 5 || fn == 7
    -- fn 8: `Ring::RandIter(F, seed, size)`; fn 9: the same iterator, copy-assigned to one built with another size (the harness reports
    -- `eq = 0` when the assigned-to iterator does not continue like the original).  `ModularRandIter` stores the size and never reads
    -- it (fn 0), `GIV_randIter` (GFqDom, GF2) is fn 1, `GeneralRingRandIter` (ZRing) is fn 2
    let fnM : Int := if fn == 8 || fn == 9 then (if t == 0x20 || t == 0x21 || t == 0x30 then 1 else if 0x31 ≤ t && t ≤ 0x39 then 2 else 0) else fn
    -- eq: the sequence drawn into pre-filled destinations equals the one drawn into zeroed destinations by an iterator that is
    -- replaced by a copy of itself half-way (destination independence, reproducibility from the seed, copy semantics)
    -- ZRing: `GeneralRingRandIter(F, seed, size)` with a non-zero sampling size returns elements of [0, size)
    let sized : Bool := 0x31 ≤ t && t ≤ 0x39 && (fn == 2 || fn == 8) && size != 0
    let specOk := eq == 1 && decide (es.length = n.toNat) && es.all canon && (!nz || es.all (· != 0))
                  && (!sized || es.all (fun e => decide (0 ≤ e ∧ e < size)))
    let olds := List.replicate n.toNat (junkOf t)
    let model : Option (Option (List Int)) :=
      match modSty t with
      | some (bits, sgn) => some ((modRun bits sgn p fnM.toNat size loopFuel olds (givInit seed)).map (·.1))
      | none =>
        if t == 0x20 then some ((gfqRun 32 q fnM.toNat size loopFuel olds (givInit seed)).map (·.1))
        else if t == 0x21 then some ((gfqRun 64 q fnM.toNat size loopFuel olds (givInit seed)).map (·.1))
        else if t == 0x1a || t == 0x1b then some ((ruRingRun 7 p fn.toNat loopFuel olds (givInit seed)).map (·.1))
        else if t == 0x30 then some ((gf2Run fnM.toNat loopFuel olds (givInit seed)).map (·.1))
        -- Modular<Integer>::random(g, r) / nonzerorandom(g, r): `init(r, g())` = `r = g(); r %= p` (its RandIter draws from GMP: spec only)
        else if t == 0x18 && (fn == 4 || fn == 5) then some ((rRun (fltRing p) fn.toNat size loopFuel olds (givInit seed)).map (·.1))
        else match ringDrawOf t p with
          | some R => some ((rRun R fnM.toNat size loopFuel olds (givInit seed)).map (·.1))
          | none => none
    match model with
    | none => verdict specOk true "speconly" line                 -- ring type whose `init` is not modelled here: implementation vs specification
    | some m => verdict specOk (m == some es) (match m with | some l => showL l | none => "LOOP") line
  | _, _ => "BAD ring | " ++ line

/-- `size c_0 … c_{size-1}` -/
def polyOf (l : List Int) : Option (List Int) :=
  match l with
  | sz :: cs => if decide (sz = cs.length) then some cs else none
  | [] => none

def polyCase (a : List Int) (r0 r1 r2 : List Int) (line : String) : String :=
  match a, polyOf r0, polyOf r1, polyOf r2 with
  | [t, p, k, seed, kind, arg], some cs, some cs1, some cs2 =>
    let d : Int := if kind % 4 == 0 then arg else if kind % 4 == 2 then 0 else arg - 1
    -- a non-zero polynomial of size 0 does not exist: `nonzerorandom` of size 0 is outside the property
    if seed == 0 || (d < 0 && kind ≥ 4) then "PRE" else
    let q : Int := if t == 0x20 then p ^ k.toNat else p
    -- the three draws (destination held a longer polynomial / nothing / a shorter non-canonical one) must be the same polynomial
    let specOk := polyDegOk q d cs && cs1 == cs && cs2 == cs
    if t == 5 then
      let old : List Int := List.replicate ((if arg > 0 then arg.toNat else 0) + 9) 1
      let m := (polyRandomD 32 true p d loopFuel old (givInit seed)).map (·.1)
      verdict specOk (m == some cs) (match m with | some l => showL l | none => "LOOP") line
    else if t == 0x20 then
      -- Poly1Dom<GFqDom<int32_t>>: the generic polynomial model over the GFqDom coefficient draws
      let old : List Int := List.replicate ((if arg > 0 then arg.toNat else 0) + 9) 1
      let m := (polyRandomG (gfqCoef 32 q) d loopFuel old (givInit seed)).map (·.1)
      verdict specOk (m == some cs) (match m with | some l => showL l | none => "LOOP") line
    else if t == 0x11 || t == 0x12 || t == 0x16 then
      -- Poly1Dom over a RingDraw class: the generic polynomial model; coefficients in the class's element range
      let canon : Int → Bool := if t == 0x12 then canonicalBal p else canonical p
      let specG := (if d < 0 then cs.isEmpty else decide (cs.length = d.toNat + 1) && cs.all canon && decide (cs.getLast? ≠ some 0))
                   && cs1 == cs && cs2 == cs
      let R : RingDraw := if t == 0x11 then fltRing p else if t == 0x12 then balRing wrapS32 p else mgRing p
      let old : List Int := List.replicate ((if arg > 0 then arg.toNat else 0) + 9) 1
      let m := (polyRandomG (ringCoef R) d loopFuel old (givInit seed)).map (·.1)
      verdict specG (m == some cs) (match m with | some l => showL l | none => "LOOP") line
    else verdict specOk true "speconly" line
  | _, _, _, _ => "BAD poly | " ++ line

/-- `ext p e seed kind arg = r0 U r1 U r2` (Extension<Modular<int32_t>>) -/
def extCase (a : List Int) (r0 r1 r2 : List Int) (line : String) : String :=
  match a, polyOf r0, polyOf r1, polyOf r2 with
  | [p, e, seed, kind, arg], some cs, some cs1, some cs2 =>
    if seed == 0 then "PRE" else
    if kind == 6 then
      -- Extension::RandIter: `order()` coefficients, each canonical (the vector is not normalised: the polynomial domain
      -- normalises lazily); the three draws agree (pre-filled / fresh destination, copied iterator)
      verdict (decide (cs.length = e.toNat) && cs.all (canonical p) && cs1 == cs && cs2 == cs) true "speconly" line
    else
      let d := extDegree e kind.toNat arg
      -- a non-zero element of size 0 does not exist; `b` must be an element of the field
      if (d < 0 && kind ≥ 3) || (kind % 3 == 2 && arg > e) then "PRE" else
      let specOk := polyDegOk p d cs && decide ((cs.length : Int) ≤ e) && cs1 == cs && cs2 == cs
      let old : List Int := List.replicate (e.toNat + 9) 1
      let m := (extRandomD p e kind.toNat arg loopFuel old (givInit seed)).map (·.1)
      verdict specOk (m == some cs) (match m with | some l => showL l | none => "LOOP") line
  | _, _, _, _ => "BAD ext | " ++ line

/-- successive `rand` values from the word stream, every destination holding `old` -/
def ruSeq (f : Int → List Int → Int × List Int) (old : Int) : Nat → List Int → List Int × List Int
  | 0, ws => ([], ws)
  | n+1, ws => let d := f old ws; let r := ruSeq f old n d.2; (d.1 :: r.1, r.2)

/-- conversion `(XXX)` of a GivRandom draw for the destination types cycled by `givx` -/
def givxModel (i : Nat) (g : Int) : Int × Int :=
  match i % 7 with
  | 0 => givDrawInto wrapU64 18446744073709551615 g
  | 1 => givDrawInto wrapU32 4294967295 g
  | 2 => givDrawInto wrapS32 (-1) g
  | 3 => givDrawInto wrapS64 (-1) g
  | 4 => givDrawInto id (-1) g
  | 5 => givDrawInto id (-(2 ^ 300 + 7)) g
  | _ => ((if (givBrand g).1 then 1 else 0), (givBrand g).2)

def givxSeq : Nat → Nat → Int → List Int
  | 0, _, _ => []
  | n+1, i, g => (givxModel i g).1 :: givxSeq n (i + 1) (givxModel i g).2

def randomLine (line : String) : String :=
  match splitLine line with
  | none => "BAD empty"
  | some (key, args, res) =>
    match parseAll args with
    | none => "BAD args | " ++ line
    | some a =>
      if res == ["UNSUPPORTED"] then "PRE" else
      let (vals, tr, us1, us2) := splitT res
      match parseAll vals, parseAll tr, parseAll us1, parseAll us2 with
      | some v, some trI, some u1, some u2 =>
        if key == "giv" then
          match a with
          | [seed, n] =>
            if seed == 0 then "PRE" else
            let h1 := v.take n.toNat
            let h2 := v.drop n.toNat
            let m := givDraws n.toNat (givInit seed)
            verdict (decide (v.length = 2 * n.toNat) && h1 == h2 && h1.all givOk) (m == h1 && givCtor seed [] == some (givInit seed)) (showL m) line
          | _ => "BAD giv | " ++ line
        else if key == "givx" then
          match a with
          | [seed, n] =>
            if seed == 0 then "PRE" else
            let m := givxSeq n.toNat 0 (givInit seed)
            -- specification: x_i is the plain draw d_i converted to the destination's type (for i % 7 = 6: brand() = bit 30 clear)
            let expect := (List.range n.toNat).zip v |>.map (fun (i, d) => if i % 7 == 6 then (if (d / 1073741824) % 2 == 0 then 1 else 0)
                              else if i % 7 == 1 then wrapU32 d else if i % 7 == 2 then wrapS32 d else d)
            verdict (decide (v.length = n.toNat) && v.all givOk && u1 == expect) (m == u1) (showL m) line
          | _ => "BAD givx | " ++ line
        else if key == "givlong" then
          match a, v with
          | [seed, n], [last, sum, mx, mn, eq] =>
            if seed == 0 || n ≤ 0 then "PRE" else
            let m := givSummary n.toNat (givInit seed)
            verdict (eq == 1 && givOk mx && givOk mn) (m == ⟨last, sum, mx, mn⟩) (showL [m.last, m.sum, m.max, m.min]) line
          | _, _ => "BAD givlong | " ++ line
        else if key == "givcopy" || key == "seedrep" || key == "rurep" then
          match a with
          | seed :: _ => if seed == 0 && key != "rurep" && key != "seedrep" then "PRE" else verdict (v == [1]) true "1" line
          | _ => "BAD | " ++ line
        else if key == "ring" then ringCase a (v ++ []) line
        else if key == "poly" then polyCase a v u1 u2 line
        else if key == "ext" then extCase a v u1 u2 line
        else if key == "ru" || key == "ri" then
          match a with
          | [k, _, n] =>
            let K := k.toNat
            let signed := key == "ri"
            let m := ruSeq (if signed then riRandD K else ruRandD K) (if signed then -1 else 2 ^ (2 ^ K) - 1) n.toNat trI
            if !(trI.all (fun w => decide (0 ≤ w ∧ w < 18446744073709551616))) then "BAD contract | " ++ line else
            let inRange : Int → Bool := fun x => if signed then decide (-(2 ^ (2 ^ K - 1)) ≤ x ∧ x < 2 ^ (2 ^ K - 1)) else decide (0 ≤ x ∧ x < 2 ^ (2 ^ K))
            verdict (decide (v.length = n.toNat) && v.all inRange && u1 == v) (m.1 == v && m.2.isEmpty) (showL m.1) line
          | _ => "BAD ru | " ++ line
        else if key == "rm" then
          match a with
          | [k, mg, p, _, n] =>
            let K := k.toNat
            let m := ruSeq (if mg == 0 then rmRandD K p else rmRandMgD K p) (2 ^ (2 ^ K) - 1) n.toNat trI
            if !(trI.all (fun w => decide (0 ≤ w ∧ w < 18446744073709551616))) then "BAD contract | " ++ line else
            verdict (decide (v.length = n.toNat) && v.all (canonical p) && u1 == v) (m.1 == v && m.2.isEmpty) (showL m.1) line
          | _ => "BAD rm | " ++ line
        else
          match triples trI with
          | none => "BAD trace | " ++ line
          | some t =>
            if !contractOk t then "BAD contract | " ++ line else
            if key == "qf" then
              match a, v, u1 with
              | [_, _, kind, x, y], [num, den], [num2, den2] =>
                let bq := qfBound x y
                let pre := if kind ≤ 1 then decide (1 ≤ x) else decide (0 < y) && decide ((if kind == 3 then 2 else 1) ≤ bq.num) && decide (2 ≤ bq.den)
                if !pre then "PRE" else
                let nb : Int := if kind ≤ 1 then 2 ^ x.toNat else bq.num
                let db : Int := if kind ≤ 1 then 2 ^ x.toNat else bq.den
                -- canonical rational (positive denominator, lowest terms), inside the requested bounds, non-zero where promised,
                -- and the same from the same generator state whatever the destination held
                let specOk := decide (0 < den) && decide (Int.gcd num den = 1) && decide (0 ≤ num) && decide (num < nb) && decide (den < db)
                              && (kind % 2 == 0 || decide (num ≠ 0)) && num2 == num && den2 == den
                let m := qfRandomD trGen kind.toNat x y (t.length + 1) ⟨0, 1⟩ ⟨t, true⟩
                match m with
                | some (q, g) => verdict specOk (q.num == num && q.den == den && g.ok && g.rest.isEmpty) (hexInt q.num ++ " " ++ hexInt q.den) line
                | none => verdict specOk false "NONE" line
              | _, _, _ => "BAD qf | " ++ line
            else if key == "rii" then
              match a with
              | [_, _, u, e, how, b, k, old] =>
                let ub := u != 0
                let eb := e != 0
                let st : TrSt := ⟨t, true⟩
                let bits : Nat := if how == 0 then b.toNat else bitsize b
                if bits == 0 then "PRE" else
                -- how 0: RandomIntegerIterator(D, seed); setBitsize(bits); then random(v) into destinations holding `old`
                -- how 1: RandomIntegerIterator(D, seed, samplesize); then ++it
                let s0 : RiiSt TrSt := if how == 0 then riiCtor trGen ub eb 30 st else riiCtor trGen ub eb bits st
                let calls : List RiiCall :=
                  if how == 0 then RiiCall.setBitsize bits :: List.replicate (k.toNat - 1) (RiiCall.random old)
                  else List.replicate (k.toNat - 1) RiiCall.inc
                let m := runCalls (riiStep trGen ub eb) calls s0
                let outs : Option (List Int × TrSt) := m.map (fun r => ((if how == 0 then r.1 else s0.integer :: r.1), r.2.gen))
                let specOk := decide (v.length = k.toNat) && v.all (fun x => if eb then exactOk ub bits x else ltOk ub (2 ^ bits) x) && u1 == v
                match outs with
                | some (l, g) => verdict specOk (l == v && g.ok && g.rest.isEmpty) (showL l) line
                | none => verdict specOk false "NONE" line
              | _ => "BAD rii | " ++ line
            else
              match v, u1 with
              | [r], [r2] =>
                match intCase key a r t with
                | none => "BAD key | " ++ line
                | some (pre, specOk, m) =>
                  if !pre then "PRE" else
                  -- r2: the same call from the same generator state into a destination that held another value
                  verdict (specOk && r2 == r) (m == some r) (match m with | some x => hexInt x | none => "DIVERGED") line
              | _, _ => "BAD result | " ++ line
      | _, _, _, _ => "BAD result | " ++ line

end Driver.Random
