/- C19 driver: evaluates the text model (Model/Text.lean) and the round-trip specification (Spec/TextSpec.lean)
   on every line produced by harness/h_text.cpp. -/
import Driver.Common
import GivaroModel.Model.Text
import GivaroModel.Spec.TextSpec
-- @driver-mode text Driver.Text.textLine
-- @driver-mode text_pinned Driver.Text.textLinePinned
namespace Driver.Text
open Driver
open Givaro.Model.Text Givaro.Spec.Text

/-- `x<hex bytes>` → characters (one `Char` per byte) -/
def decText (t : String) : Option (List Char) :=
  match t.toList with
  | 'x' :: hs =>
    let rec go : List Char → List Char → Option (List Char)
      | [], acc => some acc.reverse
      | [_], _ => none
      | a :: b :: r, acc =>
        match hexDigit a, hexDigit b with
        | some x, some y => go r (Char.ofNat (x * 16 + y) :: acc)
        | _, _ => none
    go hs []
  | _ => none

def hexNib (n : Nat) : Char := if n < 10 then Char.ofNat (48 + n) else Char.ofNat (87 + n)
def encText (l : List Char) : String :=
  String.ofList ('x' :: l.flatMap (fun c => [hexNib (c.toNat / 16 % 16), hexNib (c.toNat % 16)]))

def b01 (b : Bool) : String := if b then "1" else "0"
def tailToks (s : IStream) : List String := [b01 s.fail, b01 s.eof, encText s.buf]

def ratToks : Option (Int × Int) → Option (List String)
  | some (n, d) => some [hexInt n, hexInt d]
  | none => none

/-- (precondition of the property holds, model's result tokens (`none` = exception), checker of the implementation's tokens) -/
abbrev Entry := Bool × Option (List String) × (List String → Bool)

def pairs : List Int → Option (List (Int × Int))
  | [] => some []
  | [_] => none
  | a :: b :: r => (pairs r).map (fun t => (a, b) :: t)

def ringIO (name : String) (p : Int) : Option RingIO :=
  match name with
  | "mi8" | "mu8" | "mi16" | "mu16" | "mi32" | "mu32" | "mi64" | "mu64" | "mf" | "md" | "mI" | "g32" | "l16" | "mr7" =>
    some ⟨.gmp, false, p, 0, 0⟩
  | "gr7" => some ⟨.gmp, false, p, 128, 0⟩
  | "bi32" => some ⟨.sint 32, true, p, 0, 0⟩
  | "bi64" => some ⟨.sint 64, true, p, 0, 0⟩
  | "bf" => some ⟨.flt 24, true, p, 0, 0⟩
  | "bd" => some ⟨.flt 53, true, p, 0, 0⟩
  | "ed" => some ⟨.sint 64, false, p, 53, 0⟩
  | "gfq" => some ⟨.sint 32, false, p, 0, 0⟩
  | "gfq2" => some ⟨.sint 32, false, p * p, 0, 0⟩
  | "gfq3" => some ⟨.sint 32, false, p * p * p, 0, 0⟩
  | "ef" => some ⟨.sint 64, false, p, 24, 0⟩
  | "zz" => some ⟨.gmp, false, 0, 0, 0⟩
  | _ => none

/-- `none` inside = outside the modelled fragment of floating-point input: the line is not judged -/
def elemEntry (R : RingIO) (rep : Int) (rest : List Char) : Entry :=
  let text := elemShow rep
  match elemRead R (IStream.ofList (text ++ rest)) with
  | none => (false, some ["UNMODELLED"], fun _ => true)
  | some r =>
    let pre := !startsWithDigit rest
    (pre, some ([encText text, hexInt r.1] ++ tailToks r.2), fun res =>
      match res with
      | [_, v, f, _, rem] => v == hexInt rep && f == "0" && rem == encText rest
      | _ => false)

def textEntry (pinned : Bool) (u : Int) (key : String) (args : List String) : Option Entry :=
  match key, args with
  | "irt", [n, rest] => do
    let n ← parseHexInt n
    let rest ← decText rest
    let text := showInt n
    let r := intRead 77 (IStream.ofList (text ++ rest))
    let pre := !startsWithDigit rest
    some (pre, some ([encText text, hexInt r.1] ++ tailToks r.2), fun res =>
      match res with
      | [_, v, f, _, rem] => v == hexInt n && f == "0" && rem == encText rest
      | _ => false)
  | "istr", [n] => do
    let n ← parseHexInt n
    let text := intToString n
    some (true, some [encText text, hexInt (intOfString text)], fun res =>
      match res with
      | [_, v] => v == hexInt n
      | _ => false)
  | "icstr", [t] => do
    let t ← decText t
    some (false, some [hexInt (intOfString t)], fun _ => true)
  | "iread", [t] => do
    let t ← decText t
    let r := intRead 77 (IStream.ofList t)
    some (false, some (hexInt r.1 :: tailToks r.2), fun _ => true)
  | "iseq", sep :: ns => do
    let sep ← decText sep
    let ns ← parseAll ns
    let text := joinSep sep (ns.map showInt)
    let r := intReadSeq sep.length ns.length (IStream.ofList text)
    let pre := sepOk sep
    some (pre, some (encText text :: r.1.map hexInt ++ tailToks r.2), fun res =>
      res.drop 1 == ns.map hexInt ++ ["0", "1", "x"])
  | "rrt", [n, d, rest] => do
    let n ← parseHexInt n
    let d ← parseHexInt d
    let rest ← decText rest
    let text := showRat (n, d)
    let r := ratReadGen pinned (IStream.ofList (text ++ rest))
    let pre := !startsWithDigit rest && (decide (d > 1) || !looksLikeDen rest)
    some (pre, (ratToks r.1).map (fun v => encText text :: v ++ tailToks r.2), fun res =>
      match res with
      | [_, vn, vd, f, _, rem] => vn == hexInt n && vd == hexInt d && f == "0" && rem == encText rest
      | _ => false)
  | "rstr", [n, d] => do
    let n ← parseHexInt n
    let d ← parseHexInt d
    let text := showRat (n, d)
    let r := (ratReadGen pinned (IStream.ofList text)).1
    some (true, (ratToks r).map (fun v => encText text :: v), fun res =>
      match res with
      | [_, vn, vd] => vn == hexInt n && vd == hexInt d
      | _ => false)
  | "rread", [t] => do
    let t ← decText t
    let r := ratReadGen pinned (IStream.ofList t)
    some (false, (ratToks r.1).map (fun v => v ++ tailToks r.2), fun _ => true)
  | "rseq", sep :: ns => do
    let sep ← decText sep
    let ns ← parseAll ns
    let qs ← pairs ns
    let text := joinSep sep (qs.map showRat)
    let r := ratReadSeq pinned sep qs.length (IStream.ofList text)
    let vals := r.1.mapM ratToks
    let pre := sepOkRat sep
    some (pre, vals.map (fun v => encText text :: v.flatten ++ tailToks r.2), fun res =>
      res.drop 1 == ns.map hexInt ++ ["0", "1", "x"])
  | "urt", [k, v, rest] => do
    let k ← parseHexInt k
    let v ← parseHexInt v
    let rest ← decText rest
    let K := k.toNat
    let text := ruintShowGen pinned K v.toNat
    let r := ruintRead K (IStream.ofList (text ++ rest))
    let pre := !startsWithDigit rest
    some (pre, some ([encText text, hexInt r.1] ++ tailToks r.2), fun res =>
      match res with
      | [_, w, f, _, rem] => w == hexInt v && f == "0" && rem == encText rest
      | _ => false)
  | "srt", [k, v, rest] => do
    let k ← parseHexInt k
    let v ← parseHexInt v
    let rest ← decText rest
    let K := k.toNat
    let text := rintShowGen pinned K v
    let r := rintRead K (IStream.ofList (text ++ rest))
    let pre := !startsWithDigit rest
    some (pre, some ([encText text, hexInt r.1] ++ tailToks r.2), fun res =>
      match res with
      | [_, w, f, _, rem] => w == hexInt v && f == "0" && rem == encText rest
      | _ => false)
  | "ert", [ring, p, rep, rest] => do
    let p ← parseHexInt p
    let rep ← parseHexInt rep
    let rest ← decText rest
    let R0 ← ringIO ring p
    let R : RingIO := { R0 with uninit := u }
    some (elemEntry R rep rest)
  | "eread", [ring, p, t] => do
    let p ← parseHexInt p
    let t ← decText t
    let R0 ← ringIO ring p
    let R : RingIO := { R0 with uninit := u }
    match elemRead R (IStream.ofList t) with
    | none => some (false, some ["UNMODELLED"], fun _ => true)
    | some r => some (false, some (hexInt r.1 :: tailToks r.2), fun _ => true)
  | "zrt", [n, rest] => do
    let n ← parseHexInt n
    let rest ← decText rest
    some (elemEntry ⟨.gmp, false, 0, 0, 0⟩ n rest)
  | "pw", ring :: p :: x :: cs => do
    -- write half: the text must be the model's and must denote (reference parser) the normalised polynomial
    let p ← parseHexInt p
    let x ← decText x
    let cs ← parseAll cs
    let _ ← ringIO ring p
    let text := polyWrite x cs
    some (nameOk x, some [encText text], fun res =>
      match res with
      | [t] => (decText t).bind (parsePoly x) == some (polyNorm cs)
      | _ => false)
  | "prw", [ring, p, x, input] => do
    -- the library's read on `input`, then write of the stored (possibly un-normalised) result
    let p ← parseHexInt p
    let x ← decText x
    let input ← decText input
    let R0 ← ringIO ring p
    let R : RingIO := { R0 with uninit := u }
    match polyRead R (IStream.ofList input) with
    | none => some (false, some ["UNMODELLED"], fun _ => true)
    | some r =>
      let text := polyWrite x r.1
      some (nameOk x, some (tailToks r.2 ++ [hexInt r.1.length] ++ r.1.map hexInt ++ [encText text]), fun res =>
        -- specification of the write half on what the implementation says it stored
        match res with
        | _ :: _ :: _ :: _ :: rest =>
          match rest.reverse with
          | t :: qrev => (qrev.reverse.mapM parseHexInt).map polyNorm == (decText t).bind (parsePoly x)
                         && ((decText t).bind (parsePoly x)).isSome
          | [] => false
        | _ => false)
  | "ustr", [k, v] => do
    let k ← parseHexInt k
    let v ← parseHexInt v
    let K := k.toNat
    let text := ruintShow K v.toNat
    some (true, (ruintOfString K text).map (fun b => [encText text, hexInt b]), fun res =>
      match res with
      | [_, w] => w == hexInt v
      | _ => false)
  | "sstr", [k, v] => do
    let k ← parseHexInt k
    let v ← parseHexInt v
    let K := k.toNat
    let text := rintShow K v
    some (true, (rintOfString K text).map (fun b => [encText text, hexInt b]), fun res =>
      match res with
      | [t, w] => t == encText text && w == hexInt v
      | _ => false)
  | "prt", ring :: p :: x :: cs => do
    let p ← parseHexInt p
    let x ← decText x
    let cs ← parseAll cs
    let R0 ← ringIO ring p
    let R : RingIO := { R0 with uninit := u }
    let P := polyNorm cs
    let text := polyWrite x cs
    match polyRead R (IStream.ofList text) with
    | none => some (false, some ["UNMODELLED"], fun _ => true)
    | some r =>
      some (true, some ([encText text] ++ tailToks r.2 ++ [hexInt r.1.length] ++ r.1.map hexInt), fun res =>
        match res with
        | _ :: f :: _ :: _ :: _ :: q => f == "0" && (q.mapM parseHexInt).map polyNorm == some P
        | _ => false)
  | _, _ => none

/-- keys whose model may reach an uninitialised local of the library (native element readers, `long deg`) -/
def usesUninit (key : String) : Bool := key == "ert" || key == "eread" || key == "prt" || key == "prw"

/-- per line: `OK` | `DIFF kind=SPEC|BOTH|MODEL model=… | line` | `BAD … | line` -/
def textLineGen (pinned : Bool) (line : String) : String :=
  match splitLine line with
  | none => "BAD empty"
  | some (key, args, res) =>
    match textEntry pinned 0 key args with
    | none => "BAD entry | " ++ line.trimAscii.toString
    | some (pre, model, chk) =>
      -- outcome depends on the content of an uninitialised local of the library: not judged
      if usesUninit key && (textEntry pinned 1 key args).map (·.2.1) != some model then "PRE" else
      if model == some ["UNMODELLED"] then "PRE" else
      let modelToks := model.getD ["EXC"]
      let modelOk := modelToks == res
      -- outside the precondition (text after the number continues it, malformed input) only model = code is compared
      let specOk := !pre || (res != ["EXC"] && chk res)
      if specOk && modelOk then "OK"
      else
        let kind := if !specOk && !modelOk then "BOTH" else if !specOk then "SPEC" else "MODEL"
        s!"DIFF kind={kind} model={String.intercalate " " modelToks} | {line.trimAscii.toString}"

def textLine (line : String) : String := textLineGen false line
/-- the same with the model of `operator>>(istream&, Rational&)` as it was on the pinned tree (before fixes/C19_1.patch) -/
def textLinePinned (line : String) : String := textLineGen true line

end Driver.Text
