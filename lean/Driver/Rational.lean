/- C10 driver: evaluates the model of Model/Rational.lean (under two admissible `mpz_cmpabs` behaviours) and
   the specification of Spec/RationalSpec.lean on every line printed by harness/h_rational.cpp. -/
import Driver.Common
import GivaroModel.Spec.RationalSpec
-- @driver-mode rational Driver.Rational.rationalLine
namespace Driver.Rational
open Driver
open Givaro Givaro.Model.Rational Givaro.Spec.Rational

namespace Rat10

/-- number of 64-bit limbs of |x| -/
def limbs (x : Int) : Int := if x = 0 then 0 else ((Nat.log2 x.natAbs) / 64 + 1 : Nat)
/-- what GMP's `mpz_cmpabs` returns: the limb-count difference when it is non-zero, else ±1/0 -/
def cGmp (x y : Int) : Int :=
  let d := limbs x - limbs y
  if d ≠ 0 then d else isign (iabs x - iabs y)
/-- the ±1-normalised admissible behaviour -/
def cUnit (x y : Int) : Int := isign (iabs x - iabs y)

abbrev Out := Option (List Int)          -- none = the call threw
def qOut (r : Option QRep) : Out := r.map (fun q => [q.num, q.den])
def zOut (z : Int) : Out := some [z]
def bOut (b : Bool) : Out := some [if b then 1 else 0]
def showOut (o : Out) : String :=
  match o with
  | none => "EXC"
  | some l => String.intercalate " " (l.map hexInt)

structure Case where
  pre : Bool
  mGmp : Out                     -- model with GMP's mpz_cmpabs
  mUnit : Out                    -- model with the ±1-normalised mpz_cmpabs
  spec : Out → Bool              -- does an output meet the specification?
  signOnly : Bool := false       -- three-way results: only the sign is compared with the model

/-- the output must denote `n/d`; `exp = none`: the call must throw.  Canonical when `canon`. -/
def specQ (canon : Bool) (exp : Option (Int × Int)) (o : Out) : Bool :=
  match exp, o with
  | none, none => true
  | some (n, d), some [rn, rd] =>
    if canon then (QRep.mk rn rd) == normalize n d else rd > 0 && sameValueB ⟨rn, rd⟩ n d
  | _, _ => false
def specZ (z : Int) (o : Out) : Bool := o == some [z]
def specSign (z : Int) (o : Out) : Bool :=
  match o with
  | some [x] => isign x == isign z
  | _ => false
def frac (n d : Int) : Option (Int × Int) := if d = 0 then none else some (n, d)

def qcase (pre : Bool) (canon : Bool) (m : (Int → Int → Int) → Option QRep) (exp : Option (Int × Int)) : Case :=
  { pre := pre, mGmp := qOut (m cGmp), mUnit := qOut (m cUnit), spec := specQ canon exp }
def zcase (pre : Bool) (m : (Int → Int → Int) → Int) (z : Int) : Case :=
  { pre := pre, mGmp := zOut (m cGmp), mUnit := zOut (m cUnit), spec := specZ z }
def bcase (pre : Bool) (m : (Int → Int → Int) → Bool) (b : Bool) : Case :=
  { pre := pre, mGmp := bOut (m cGmp), mUnit := bOut (m cUnit), spec := specZ (if b then 1 else 0) }

def inS32 (x : Int) : Bool := -2147483648 ≤ x && x < 2147483648
def inU32 (x : Int) : Bool := 0 ≤ x && x < 4294967296
def inS64 (x : Int) : Bool := -9223372036854775808 ≤ x && x < 9223372036854775808
def inU64 (x : Int) : Bool := 0 ≤ x && x < 18446744073709551616

/-- value of x^e as a fraction (e of either sign; x ≠ 0 when e < 0) -/
def powFrac (a : QRep) (e : Int) : Option (Int × Int) :=
  if e ≥ 0 then frac (ipow a.num e.toNat) (ipow a.den e.toNat)
  else frac (ipow a.den (-e).toNat) (ipow a.num (-e).toNat)

def parseDec (s : String) : Option Int :=
  (String.ofList (s.toList.filter (· != ' '))).toInt?
/-- token grammar of `operator>>`: `int` or `int / int` with optional blanks (`_` encodes a blank) -/
def parseText (tok : String) : Option (Int × Option Int) :=
  let s := String.ofList (tok.toList.filterMap (fun ch => if ch == '_' then some ' ' else if ch == '~' then none else some ch))
  match s.splitOn "/" with
  | [n] => (parseDec n).map (fun n => (n, none))
  | [n, d] => match parseDec n, parseDec d with
    | some n, some d => some (n, some d)
    | _, _ => none
  | _ => none

def entry (key : String) (a : Array Int) (raw : List String) : Option Case :=
  let red : Bool := a.getD 0 1 != 0
  let A : QRep := ⟨a.getD 1 0, a.getD 2 0⟩
  let B : QRep := ⟨a.getD 3 0, a.getD 4 0⟩
  let C : QRep := ⟨a.getD 5 0, a.getD 6 0⟩
  let vA := validB red A
  let vAB := vA && validB red B
  let vABC := vAB && validB red C
  let sum := frac (A.num * B.den + B.num * A.den) (A.den * B.den)
  let dif := frac (A.num * B.den - B.num * A.den) (A.den * B.den)
  let prd := frac (A.num * B.num) (A.den * B.den)
  let quo := frac (A.num * B.den) (A.den * B.num)
  let i := a.getD 3 0
  let I : QRep := ofWord i
  -- a*b ± c as fractions
  let abn := A.num * B.num
  let abd := A.den * B.den
  let bcn := B.num * C.num
  let bcd := B.den * C.den
  match key with
  | "add" | "fadd" => some (qcase vAB red (fun _ => add red A B) sum)
  | "addin" | "faddin" => some (qcase vAB red (fun _ => addin red A B) sum)
  | "sub" | "fsub" => some (qcase vAB red (fun _ => sub red A B) dif)
  | "subin" | "fsubin" => some (qcase vAB red (fun _ => subin red A B) dif)
  | "mul" | "fmul" => some (qcase vAB red (fun c => mul c red A B) prd)
  | "mulin" | "fmulin" => some (qcase vAB red (fun c => mulin c red A B) prd)
  | "div" | "fdiv" => some (qcase vAB red (fun c => div c red A B) quo)
  | "divin" | "fdivin" => some (qcase vAB red (fun _ => divin red A B) quo)
  | "addi" => some (qcase (vA && inS32 i) red (fun _ => add red A I) (frac (A.num + i * A.den) A.den))
  | "subi" => some (qcase (vA && inS32 i) red (fun _ => sub red A I) (frac (A.num - i * A.den) A.den))
  | "muli" => some (qcase (vA && inS32 i) red (fun c => mul c red A I) (frac (A.num * i) A.den))
  | "divi" => some (qcase (vA && inS32 i) red (fun c => div c red A I) (frac A.num (A.den * i)))
  | "iadd" => some (qcase (vA && inS32 i) red (fun _ => add red I A) (frac (A.num + i * A.den) A.den))
  | "isub" => some (qcase (vA && inS32 i) red (fun _ => sub red I A) (frac (i * A.den - A.num) A.den))
  | "imul" => some (qcase (vA && inS32 i) red (fun c => mul c red I A) (frac (A.num * i) A.den))
  | "idiv" => some (qcase (vA && inS32 i) red (fun c => div c red I A) (frac (i * A.den) A.num))
  | "faxpy" => some (qcase vABC red (fun c => axpy c red A B C) (frac (abn * C.den + C.num * abd) (abd * C.den)))
  | "fmaxpy" => some (qcase vABC red (fun c => maxpy c red A B C) (frac (C.num * abd - abn * C.den) (abd * C.den)))
  | "faxmy" => some (qcase vABC red (fun c => axmy c red A B C) (frac (abn * C.den - C.num * abd) (abd * C.den)))
  | "faxpyin" => some (qcase vABC red (fun c => axpyin c red A B C) (frac (A.num * bcd + bcn * A.den) (A.den * bcd)))
  | "fmaxpyin" => some (qcase vABC red (fun c => maxpyin c red A B C) (frac (A.num * bcd - bcn * A.den) (A.den * bcd)))
  | "faxmyin" => some (qcase vABC red (fun c => axmyin c red A B C) (frac (bcn * A.den - A.num * bcd) (A.den * bcd)))
  | "neg" => some (qcase vA red (fun _ => neg A) (frac (-A.num) A.den))
  | "pos" | "fassign" => some (qcase vA red (fun _ => some A) (frac A.num A.den))
  | "abs" => some (qcase vA red (fun _ => abs A) (frac (iabs A.num) A.den))
  | "fneg" | "fnegin" => some (qcase vA red (fun _ => some (fneg A)) (frac (-A.num) A.den))
  | "finv" | "finvin" => some (qcase (vA && A.num != 0) red (fun _ => some (finv A)) (frac A.den A.num))
  | "reduce" => some (qcase vA true (fun _ => some (reduce A)) (frac A.num A.den))
  | "fget" => some { pre := vA, mGmp := some [A.num, A.den], mUnit := some [A.num, A.den], spec := fun o => o == some [A.num, A.den] }
  | "c_copy" => some { pre := vA, mGmp := some [A.num, A.den, A.num, A.den], mUnit := some [A.num, A.den, A.num, A.den],
                       spec := fun o => o == some [A.num, A.den, A.num, A.den] }
  | "powi" => some (qcase (vA && inS64 i && !(A.num == 0 && i < 0)) red (fun _ => some (powS64 A i)) (powFrac A i))
  | "powu32" | "fpowu32" => some (qcase (vA && inU32 i) red (fun _ => some (powU A i)) (powFrac A i))
  | "powu64" | "fpowu64" => some (qcase (vA && inU64 i) red (fun _ => some (powU A i)) (powFrac A i))
  | "floor" => some (zcase vA (fun _ => floor A) (floorSpec A.num A.den))
  | "ceil" => some (zcase vA (fun _ => ceil A) (ceilSpec A.num A.den))
  | "trunc" => some (zcase vA (fun _ => trunc A) (truncSpec A.num A.den))
  | "round" => some (zcase vA (fun c => round c A) (roundSpec A.num A.den))
  | "lt" => some (bcase vAB (fun c => lt c A B) (cmpSpec A B < 0))
  | "gt" => some (bcase vAB (fun c => gt c A B) (cmpSpec A B > 0))
  | "le" => some (bcase vAB (fun c => le c A B) (cmpSpec A B ≤ 0))
  | "ge" => some (bcase vAB (fun c => ge c A B) (cmpSpec A B ≥ 0))
  | "eq" | "fareEqual" => some (bcase vAB (fun c => eq c A B) (cmpSpec A B == 0))
  | "ne" | "fareNEqual" => some (bcase vAB (fun c => ne c A B) (cmpSpec A B != 0))
  | "compare" => some { pre := vAB, mGmp := zOut (compare cGmp A B), mUnit := zOut (compare cUnit A B),
                        spec := specSign (cmpSpec A B), signOnly := true }
  -- absCompare is the helper `compare` calls after its zero tests: two zeros with different (NoReduce) denominators are outside its contract
  | "absCompare" => some { pre := vAB && !(A.num == 0 && B.num == 0 && A.den != B.den), mGmp := zOut (absCompare cGmp A B), mUnit := zOut (absCompare cUnit A B),
                           spec := specSign (cmpSpec ⟨iabs A.num, A.den⟩ ⟨iabs B.num, B.den⟩), signOnly := true }
  | "fisZero" => some (bcase vA (fun c => compare c A ⟨0, 1⟩ == 0) (A.num == 0))
  | "fisOne" => some (bcase vA (fun c => compare c A ⟨1, 1⟩ == 0) (A.num == A.den))
  | "fisMOne" => some (bcase vA (fun c => compare c A ⟨-1, 1⟩ == 0) (A.num == -A.den))
  | "fisUnit" => some (bcase vA (fun _ => !(isZero A)) (A.num != 0))
  | "isZero" => some (bcase vA (fun _ => isZero A) (A.num == 0))
  -- the free predicates isOne/isMOne/isInteger test the stored pair: they are specified on canonical values
  | "isOne" => some (bcase (validB true A) (fun _ => isOne A) (A.num == A.den))
  | "isMOne" => some (bcase (validB true A) (fun _ => isMOne A) (A.num == -A.den))
  | "isInteger" => some (bcase (validB true A) (fun _ => isInteger A) (A.num % A.den == 0))
  | "sign" | "fsign" => some (zcase vA (fun _ => sign A) (isign A.num))
  -- construction (operands are words / integers, not rationals: a[1], a[2], a[3])
  | "c_neutral" => some (qcase true true (fun _ => some (ofNeutral (A.num != 0))) (frac (if A.num != 0 then 1 else 0) 1))
  | "c_i32" | "finit_i32" => some (qcase (inS32 A.num) true (fun _ => some (ofWord A.num)) (frac A.num 1))
  | "c_u32" | "finit_u32" => some (qcase (inU32 A.num) true (fun _ => some (ofWord A.num)) (frac A.num 1))
  | "c_i64" | "finit_i64" => some (qcase (inS64 A.num) true (fun _ => some (ofWord A.num)) (frac A.num 1))
  | "c_u64" | "finit_u64" => some (qcase (inU64 A.num) true (fun _ => some (ofWord A.num)) (frac A.num 1))
  | "c_Z" | "finit_Z" => some (qcase true true (fun _ => some (ofInteger A.num)) (frac A.num 1))
  | "c2_i32" => some (qcase (inS32 A.num && inS32 A.den) true (fun _ => mk2S A.num A.den) (frac A.num A.den))
  | "c2_i64" => some (qcase (inS64 A.num && inS64 A.den) true (fun _ => mk2S A.num A.den) (frac A.num A.den))
  | "c2_u32" => some (qcase (inU32 A.num && inU32 A.den) true (fun _ => mk2U A.num A.den) (frac A.num A.den))
  | "c2_u64" => some (qcase (inU64 A.num && inU64 A.den) true (fun _ => mk2U A.num A.den) (frac A.num A.den))
  | "c2_Z" | "finit_ZZ" => some (qcase true true (fun _ => mk3 A.num A.den 1) (frac A.num A.den))
  | "c3_Z" => some (qcase true (i == 1) (fun _ => mk3 A.num A.den i) (frac A.num A.den))
  | "c_dbl" | "finit_dbl" =>
    let s := a.getD 1 0
    let e := a.getD 2 0
    let m := a.getD 3 0
    let f := doubleFrac s e m
    some (qcase ((s == 0 || s == 1) && 0 ≤ e && e < 2047 && 0 ≤ m && m < 4503599627370496) red
      (fun _ => ofDouble red s e m) (frac f.1 f.2))
  | "c_str" =>
    match raw with
    | [_, tok] =>
      match parseText tok with
      | some (n, d) => some (qcase true true (fun _ => ofText n d) (frac n (d.getD 1)))
      | none => none
    | _ => none
  | "fconst" =>
    let l : Out := some [0, 1, 1, 1, -1, 1, 0, 1, 1, 1, -1, 1]
    some { pre := true, mGmp := l, mUnit := l, spec := fun o => o == l }
  | _ => none

end Rat10
open Rat10

def rationalLine (line : String) : String :=
  match splitLine line with
  | none => "BAD empty"
  | some (key, args, res) =>
    -- `c_str` carries a text token: it is not a number
    let nums : Option (List Int) := if key == "c_str" then (args.take 1).mapM parseHexInt else parseAll args
    match nums with
    | none => "BAD args | " ++ line
    | some a =>
      match entry key a.toArray args with
      | none => "BAD nofunc | " ++ line
      | some cs =>
        if !cs.pre then "PRE" else
        let impl : Option Out :=
          if res == ["EXC"] then some none else (parseAll res).map some
        match impl with
        | none => "BAD result | " ++ line
        | some ir =>
          let specOk := cs.spec ir
          let same (m : Out) : Bool :=
            if cs.signOnly then
              match m, ir with
              | some [x], some [y] => isign x == isign y
              | _, _ => false
            else m == ir
          let modelOk := same cs.mGmp && same cs.mUnit
          if specOk && modelOk then "OK"
          else
            let kind := if !specOk && !modelOk then "BOTH" else if !specOk then "SPEC" else "MODEL"
            s!"DIFF kind={kind} model={showOut cs.mGmp} modelUnit={showOut cs.mUnit} modelMeetsSpec={cs.spec cs.mGmp && cs.spec cs.mUnit} | {line.trimAscii.toString}"

end Driver.Rational
