/- C10 driver: evaluates the model of Model/Rational.lean (under two admissible `mpz_cmpabs` behaviours) and
   the specification of Spec/RationalSpec.lean on every line printed by harness/h_rational.cpp. -/
import Driver.Common
import GivaroModel.Spec.RationalSpec
import GivaroModel.Model.RationalState
-- @driver-mode rational Driver.Rational.rationalLine
namespace Driver.Rational
open Driver
open Givaro Givaro.Model.Rational Givaro.Spec.Rational

namespace Rat10

/-- number of 64-bit limbs of |x| -/
def limbs (x : Int) : Int := if x = 0 then 0 else ((Nat.log2 x.natAbs) / 64 + 1 : Nat)
/-- what GMP's `mpz_cmpabs` returns: the limb-count difference when it is non-zero, else ±1/0 -/
def cGmp (x y : Int) : Int :=
  let d := limbs x - limbs y
  if d ≠ 0 then d else isign (iabs x - iabs y)
/-- the ±1-normalised admissible behaviour -/
def cUnit (x y : Int) : Int := isign (iabs x - iabs y)

abbrev Out := Option (List Int)          -- none = the call threw
def qOut (r : Option QRep) : Out := r.map (fun q => [q.num, q.den])
def zOut (z : Int) : Out := some [z]
def bOut (b : Bool) : Out := some [if b then 1 else 0]
def showOut (o : Out) : String :=
  match o with
  | none => "EXC"
  | some l => String.intercalate " " (l.map hexInt)

structure Case where
  pre : Bool
  op : Op                        -- the call, evaluated through `step` (mode threading included)
  spec : Out → Bool              -- does an output meet the specification?
  signOnly : Bool := false       -- three-way results: only the sign is compared with the model
  setsMode : Bool := false       -- SetReduce / SetNoReduce: the only calls allowed to write Rational::flags

def valOut (v : Val) : Out :=
  match v with
  | .q r => some [r.num, r.den]
  | .z i => some [i]
  | .b x => some [if x then 1 else 0]
  | .unit => some []
  | .exc => none

/-- the output must denote `n/d`; `exp = none`: the call must throw.  Canonical when `canon`. -/
def specQ (canon : Bool) (exp : Option (Int × Int)) (o : Out) : Bool :=
  match exp, o with
  | none, none => true
  | some (n, d), some [rn, rd] =>
    if canon then (QRep.mk rn rd) == normalize n d else rd > 0 && sameValueB ⟨rn, rd⟩ n d
  | _, _ => false
def specZ (z : Int) (o : Out) : Bool := o == some [z]
def specSign (z : Int) (o : Out) : Bool :=
  match o with
  | some [x] => isign x == isign z
  | _ => false
def frac (n d : Int) : Option (Int × Int) := if d = 0 then none else some (n, d)

def qcase (pre : Bool) (canon : Bool) (op : Op) (exp : Option (Int × Int)) : Case :=
  { pre := pre, op := op, spec := specQ canon exp }
def zcase (pre : Bool) (op : Op) (z : Int) : Case :=
  { pre := pre, op := op, spec := specZ z }
def bcase (pre : Bool) (op : Op) (b : Bool) : Case :=
  { pre := pre, op := op, spec := specZ (if b then 1 else 0) }

def inS32 (x : Int) : Bool := -2147483648 ≤ x && x < 2147483648
def inU32 (x : Int) : Bool := 0 ≤ x && x < 4294967296
def inS64 (x : Int) : Bool := -9223372036854775808 ≤ x && x < 9223372036854775808
def inU64 (x : Int) : Bool := 0 ≤ x && x < 18446744073709551616

/-- value of x^e as a fraction (e of either sign; x ≠ 0 when e < 0) -/
def powFrac (a : QRep) (e : Int) : Option (Int × Int) :=
  if e ≥ 0 then frac (ipow a.num e.toNat) (ipow a.den e.toNat)
  else frac (ipow a.den (-e).toNat) (ipow a.num (-e).toNat)

def skipBlanks : List Char → List Char
  | ' ' :: t => skipBlanks t
  | l => l
/-- `in >> Integer`: leading blanks, optional '-', decimal digits -/
def takeInt (l : List Char) : Option (Int × List Char) :=
  let l := skipBlanks l
  let (neg, l) := match l with
    | '-' :: t => (true, t)
    | _ => (false, l)
  let ds := l.takeWhile Char.isDigit
  if ds.isEmpty then none
  else
    let v : Nat := ds.foldl (fun acc ch => acc * 10 + (ch.toNat - '0'.toNat)) 0
    some ((if neg then -(v : Int) else (v : Int)), l.dropWhile Char.isDigit)
/-- token grammar of `operator>>`: `int`, then blanks, then — only if the next character is a slash — `int`; anything else is
    left in the stream (`_` encodes a blank, `~` the empty string) -/
def parseText (tok : String) : Option (Int × Option Int) :=
  let cs := tok.toList.filterMap (fun ch => if ch == '_' then some ' ' else if ch == '~' then none else some ch)
  match takeInt cs with
  | none => none
  | some (n, rest) =>
    match skipBlanks rest with
    | '/' :: t => (takeInt t).map (fun r => (n, some r.1))
    | _ => some (n, none)

/-- the output is one IEEE bit pattern accepted by `floatCheck` -/
def specFloat (prec eb k : Nat) (n d : Int) (o : Out) : Bool :=
  match o with
  | some [bits] => floatCheck prec eb k n d bits
  | _ => false

def fitsS (w : Nat) (x : Int) : Bool := -(2 ^ (w - 1)) ≤ x && x < 2 ^ (w - 1)
def fitsU (w : Nat) (x : Int) : Bool := 0 ≤ x && x < 2 ^ w

def entry (key : String) (a : Array Int) (raw : List String) : Option Case :=
  let red : Bool := a.getD 0 1 != 0
  let A : QRep := ⟨a.getD 1 0, a.getD 2 0⟩
  let B : QRep := ⟨a.getD 3 0, a.getD 4 0⟩
  let C : QRep := ⟨a.getD 5 0, a.getD 6 0⟩
  -- operands: any stored pair with a positive denominator, in either mode (a value built in NoReduce mode may be used
  -- after SetReduce); the result must be canonical when the mode is Reduce *and* the operands are canonical
  let vA := A.den > 0
  let vAB := vA && B.den > 0
  let vABC := vAB && C.den > 0
  let cA := red && canonB A
  let cAB := cA && canonB B
  let cABC := cAB && canonB C
  let sum := frac (A.num * B.den + B.num * A.den) (A.den * B.den)
  let dif := frac (A.num * B.den - B.num * A.den) (A.den * B.den)
  let prd := frac (A.num * B.num) (A.den * B.den)
  let quo := frac (A.num * B.den) (A.den * B.num)
  let i := a.getD 3 0
  let I : QRep := ofWord i
  let abn := A.num * B.num
  let abd := A.den * B.den
  let bcn := B.num * C.num
  let bcd := B.den * C.den
  let tq := truncSpec A.num A.den
  -- arithmetic: canonical result in Reduce mode on canonical operands; in NoReduce mode the stored pair must be the closed
  -- formula of Spec/RationalSpec.lean (no hidden gcd) — and in every case the exact value with a positive denominator
  let ar (pre canon : Bool) (op : Op) (exp : Option (Int × Int)) (nr : QRep) : Case :=
    { pre := pre, op := op,
      spec := fun o => specQ canon exp o && (red || exp.isNone || o == some [nr.num, nr.den]) }
  let mAB := mulNR A B
  let mBC := mulNR B C
  match key with
  | "setred" => some { pre := true, op := .setReduce, spec := fun o => o == some [], setsMode := true }
  | "setnored" => some { pre := true, op := .setNoReduce, spec := fun o => o == some [], setsMode := true }
  | "add" | "fadd" => some (ar vAB cAB (.add A B) sum (addNR A B))
  | "addin" | "faddin" => some (ar vAB cAB (.addin A B) sum (addNR A B))
  | "sub" | "fsub" => some (ar vAB cAB (.sub A B) dif (subNR A B))
  | "subin" | "fsubin" => some (ar vAB cAB (.subin A B) dif (subNR A B))
  | "mul" | "fmul" => some (ar vAB cAB (.mul A B) prd (mulNR A B))
  | "mulin" | "fmulin" => some (ar vAB cAB (.mulin A B) prd (mulinNR A B))
  | "div" | "fdiv" => some (ar vAB cAB (.div A B) quo (divNR A B))
  | "divin" | "fdivin" => some (ar vAB cAB (.divin A B) quo (divinNR A B))
  -- s op= s : the same object on both sides (the harness passes one object; the operands are equal pairs)
  | "addself" => some (ar vA cA (.addin A A) (frac (2 * A.num) A.den) (addNR A A))
  | "subself" => some (ar vA cA (.subin A A) (frac 0 1) (subNR A A))
  | "addi" => some (ar (vA && inS32 i) cA (.add A I) (frac (A.num + i * A.den) A.den) (addNR A I))
  | "subi" => some (ar (vA && inS32 i) cA (.sub A I) (frac (A.num - i * A.den) A.den) (subNR A I))
  | "muli" => some (ar (vA && inS32 i) cA (.mul A I) (frac (A.num * i) A.den) (mulNR A I))
  | "divi" => some (ar (vA && inS32 i) cA (.div A I) (frac A.num (A.den * i)) (divNR A I))
  | "iadd" => some (ar (vA && inS32 i) cA (.add I A) (frac (A.num + i * A.den) A.den) (addNR I A))
  | "isub" => some (ar (vA && inS32 i) cA (.sub I A) (frac (i * A.den - A.num) A.den) (subNR I A))
  | "imul" => some (ar (vA && inS32 i) cA (.mul I A) (frac (A.num * i) A.den) (mulNR I A))
  | "idiv" => some (ar (vA && inS32 i) cA (.div I A) (frac (i * A.den) A.num) (divNR I A))
  | "faxpy" => some (ar vABC cABC (.axpy A B C) (frac (abn * C.den + C.num * abd) (abd * C.den)) (addNR mAB C))
  | "fmaxpy" => some (ar vABC cABC (.maxpy A B C) (frac (C.num * abd - abn * C.den) (abd * C.den)) (subNR C mAB))
  | "faxmy" => some (ar vABC cABC (.axmy A B C) (frac (abn * C.den - C.num * abd) (abd * C.den)) (subNR mAB C))
  | "faxpyin" => some (ar vABC cABC (.axpyin A B C) (frac (A.num * bcd + bcn * A.den) (A.den * bcd)) (addNR A mBC))
  | "fmaxpyin" => some (ar vABC cABC (.maxpyin A B C) (frac (A.num * bcd - bcn * A.den) (A.den * bcd)) (subNR A mBC))
  | "faxmyin" => some (ar vABC cABC (.axmyin A B C) (frac (bcn * A.den - A.num * bcd) (A.den * bcd)) (subNR mBC A))
  | "neg" => some (qcase vA cA (.neg A) (frac (-A.num) A.den))
  | "pos" | "fassign" | "finit0" | "c_copyctor" | "c_assign" | "c_copy" | "c_logcpy" => some (qcase vA cA (.copy A) (frac A.num A.den))
  | "abs" => some (qcase vA cA (.abs A) (frac (iabs A.num) A.den))
  | "fneg" | "fnegin" => some (qcase vA cA (.fneg A) (frac (-A.num) A.den))
  | "finv" | "finvin" | "finvself" => some (qcase (vA && A.num != 0) cA (.finv A) (frac A.den A.num))
  | "reduce" => some (qcase vA true (.reduce A) (frac A.num A.den))
  | "nume" | "fget_num" => some (zcase vA (.nume A) A.num)
  | "deno" | "fget_den" => some (zcase vA (.deno A) A.den)
  | "powi" => some (qcase (vA && inS64 i && !(A.num == 0 && i < 0)) cA (.powS A i) (powFrac A i))
  | "powu32" | "fpowu32" => some (qcase (vA && inU32 i) cA (.powU A i) (powFrac A i))
  | "powu64" | "fpowu64" => some (qcase (vA && inU64 i) cA (.powU A i) (powFrac A i))
  | "floor" => some (zcase vA (.floor A) (floorSpec A.num A.den))
  | "ceil" => some (zcase vA (.ceil A) (ceilSpec A.num A.den))
  | "trunc" => some (zcase vA (.trunc A) tq)
  | "round" => some (zcase vA (.round A) (roundSpec A.num A.den))
  -- conversions to words: the truncated value, whenever it fits the type (otherwise the C++ conversion is not specified)
  | "to_i64" => some (zcase (vA && fitsS 64 tq) (.toS64 A) tq)
  | "to_u64" => some (zcase (vA && fitsU 64 tq) (.toU64 A) tq)
  | "to_i32" => some (zcase (vA && fitsS 32 tq) (.toS32 A) tq)
  | "to_u32" => some (zcase (vA && fitsU 32 tq) (.toU32 A) tq)
  | "to_i16" => some (zcase (vA && fitsS 16 tq) (.toS16 A) tq)
  | "to_u16" => some (zcase (vA && fitsU 16 tq) (.toU16 A) tq)
  | "to_i8" => some (zcase (vA && fitsS 8 tq) (.toS8 A) tq)
  | "to_u8" => some (zcase (vA && fitsU 8 tq) (.toU8 A) tq)
  -- conversions to floating point (bit patterns): within 2^-51 (double) / 2^-22 (float) of the value, normal range only
  | "to_dbl" => some { pre := vA && toDoubleBits A != -1, op := .toDouble A, spec := specFloat 53 11 51 A.num A.den }
  | "to_flt" => some { pre := vA && toFloatBits A != -1, op := .toFloat A, spec := specFloat 24 8 22 A.num A.den }
  -- operator%(Integer): some x with x * den ≡ num (mod r), for r coprime to the denominator; r = 0 throws
  | "modz" =>
    let r := a.getD 3 0
    some { pre := vA && (r == 0 || Int.gcd A.den r == 1), op := .modZ A r,
           spec := fun o => if r == 0 then o == none else
             match o with
             | some [x] => (x * A.den - A.num) % r == 0
             | _ => false }
  | "lt" => some (bcase vAB (.lt A B) (cmpSpec A B < 0))
  | "gt" => some (bcase vAB (.gt A B) (cmpSpec A B > 0))
  | "le" => some (bcase vAB (.le A B) (cmpSpec A B ≤ 0))
  | "ge" => some (bcase vAB (.ge A B) (cmpSpec A B ≥ 0))
  | "eq" | "fareEqual" => some (bcase vAB (.eq A B) (cmpSpec A B == 0))
  | "ne" | "fareNEqual" => some (bcase vAB (.ne A B) (cmpSpec A B != 0))
  | "compare" => some { pre := vAB, op := .compare A B, spec := specSign (cmpSpec A B), signOnly := true }
  -- absCompare is the helper `compare` calls after its zero tests: two zeros with different denominators are outside its contract
  | "absCompare" => some { pre := vAB && !(A.num == 0 && B.num == 0 && A.den != B.den), op := .absCompare A B,
                           spec := specSign (cmpSpec ⟨iabs A.num, A.den⟩ ⟨iabs B.num, B.den⟩), signOnly := true }
  | "fisZero" => some (bcase vA (.fisZero A) (A.num == 0))
  | "fisOne" => some (bcase vA (.fisOne A) (A.num == A.den))
  | "fisMOne" => some (bcase vA (.fisMOne A) (A.num == -A.den))
  | "fisUnit" => some (bcase vA (.fisUnit A) (A.num != 0))
  | "isZero" => some (bcase vA (.isZero A) (A.num == 0))
  -- the free predicates isOne/isMOne/isInteger test the stored pair: they are specified on canonical values
  | "isOne" => some (bcase (canonB A) (.isOne A) (A.num == A.den))
  | "isMOne" => some (bcase (canonB A) (.isMOne A) (A.num == -A.den))
  | "isInteger" => some (bcase (canonB A) (.isInteger A) (A.num % A.den == 0))
  | "sign" | "fsign" => some (zcase vA (.sign A) (isign A.num))
  -- construction (operands are words / integers, not rationals: a[1], a[2], a[3])
  | "c_neutral" => some (qcase true true (.ofNeutral (A.num != 0)) (frac (if A.num != 0 then 1 else 0) 1))
  | "c_noinit" | "c_default" | "c_initend" | "c_zero" | "fc_zero" => some (qcase true true (.ofWord 0) (frac 0 1))
  | "c_one" | "fc_one" => some (qcase true true (.ofWord 1) (frac 1 1))
  | "c_mone" => some (qcase true true (.ofWord (-1)) (frac (-1) 1))
  | "fc_mone" => some (qcase true true (.neg ⟨1, 1⟩) (frac (-1) 1))      -- QField(): mOne(-one)
  | "c_i32" | "finit_i32" => some (qcase (inS32 A.num) true (.ofWord A.num) (frac A.num 1))
  | "c_u32" | "finit_u32" => some (qcase (inU32 A.num) true (.ofWord A.num) (frac A.num 1))
  | "c_i64" | "finit_i64" => some (qcase (inS64 A.num) true (.ofWord A.num) (frac A.num 1))
  | "c_u64" | "finit_u64" => some (qcase (inU64 A.num) true (.ofWord A.num) (frac A.num 1))
  | "c_Z" | "finit_Z" => some (qcase true true (.ofInteger A.num) (frac A.num 1))
  | "c2_i32" => some (qcase (inS32 A.num && inS32 A.den) true (.ofPairS A.num A.den) (frac A.num A.den))
  | "c2_i64" => some (qcase (inS64 A.num && inS64 A.den) true (.ofPairS A.num A.den) (frac A.num A.den))
  | "c2_u32" => some (qcase (inU32 A.num && inU32 A.den) true (.ofPairU A.num A.den) (frac A.num A.den))
  | "c2_u64" => some (qcase (inU64 A.num && inU64 A.den) true (.ofPairU A.num A.den) (frac A.num A.den))
  | "c2_Z" | "finit_ZZ" => some (qcase true true (.ofPairZ A.num A.den 1) (frac A.num A.den))
  | "c3_Z" => some (qcase true (i == 1) (.ofPairZ A.num A.den i) (frac A.num A.den))
  | "c_dbl" | "finit_dbl" =>
    let s := a.getD 1 0
    let e := a.getD 2 0
    let m := a.getD 3 0
    let f := doubleFrac s e m
    some (qcase ((s == 0 || s == 1) && 0 ≤ e && e < 2047 && 0 ≤ m && m < 4503599627370496) red
      (.ofDouble s e m) (frac f.1 f.2))
  | "c_str" | "fread" =>
    match raw with
    | [_, tok] =>
      match parseText tok with
      | some (n, d) => some (qcase true true (.ofText n d) (frac n (d.getD 1)))
      | none => none
    | _ => none
  | _ => none

end Rat10
open Rat10

def rationalLine (line : String) : String :=
  match splitLine line with
  | none => "BAD empty"
  | some (key, args, resAll) =>
    -- `c_str` / `fread` carry a text token: it is not a number
    let textKey := key == "c_str" || key == "fread"
    let nums : Option (List Int) := if textKey then (args.take 1).mapM parseHexInt else parseAll args
    -- results: `<outputs> ; <mode after the call> <machine-level writes to Rational::flags during the call, -1 = not observed>`
    let res := resAll.takeWhile (· != ";")
    let trailer := (resAll.dropWhile (· != ";")).drop 1
    match nums, parseAll trailer with
    | some a, some [modeAfter, writes] =>
      if key == "to_str" || key == "fwrite" || key == "print" || key == "fsig" then
        -- text out: operator std::string() is "num/den" of the stored pair; print / QField::write omit a denominator ≤ 1;
        -- QField::write(ostream&) is the domain signature "R" (read back by QField::read(istream&))
        let A : QRep := ⟨a.toArray.getD 1 0, a.toArray.getD 2 0⟩
        let full := toString A.num ++ "/" ++ toString A.den
        let want := if key == "fsig" then "R" else if key == "to_str" || A.den > 1 then full else toString A.num
        if res == [want] && modeAfter == a.toArray.getD 0 1 && writes ≤ 0 then "OK"
        else "DIFF kind=BOTH model=" ++ want ++ " | " ++ line.trimAscii.toString
      else
      match entry key a.toArray args with
      | none => "BAD nofunc | " ++ line
      | some cs =>
        if !cs.pre then "PRE" else
        let red : Bool := a.toArray.getD 0 1 != 0
        let impl : Option Out :=
          if res == ["EXC"] then some none else (parseAll res).map some
        match impl with
        | none => "BAD result | " ++ line
        | some ir =>
          let sG := step cGmp red cs.op
          let sU := step cUnit red cs.op
          let mG := valOut sG.2
          let mU := valOut sU.2
          let specOk := cs.spec ir
          let same (m : Out) : Bool :=
            if cs.signOnly then
              match m, ir with
              | some [x], some [y] => isign x == isign y
              | _, _ => false
            else m == ir
          let modelOk := same mG && same mU
          -- frame: the mode after the call is the model's, and nobody but SetReduce/SetNoReduce stores to Rational::flags
          let modeOk := (modeAfter != 0) == sG.1 && sG.1 == sU.1
          let frameOk := cs.setsMode || ((modeAfter != 0) == red && writes ≤ 0)
          if specOk && modelOk && modeOk && frameOk then "OK"
          else
            let kind := if !frameOk then "SPEC" else if !specOk && !(modelOk && modeOk) then "BOTH" else if !specOk then "SPEC" else "MODEL"
            s!"DIFF kind={kind} model={showOut mG} modelUnit={showOut mU} modelMode={sG.1} frameOk={frameOk} modelMeetsSpec={cs.spec mG && cs.spec mU} | {line.trimAscii.toString}"
    | none, _ => "BAD args | " ++ line
    | _, _ => "BAD trailer | " ++ line

end Driver.Rational
