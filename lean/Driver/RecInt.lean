/- C06 driver: evaluates the RecInt model (Model/RecInt.lean) and the specification (Spec/RecIntSpec.lean) on every
   line `op K T args… = results…` printed by harness/h_recint.cpp (K = size, T = __RECINT_THRESHOLD_KARA as compiled). -/
import Driver.Common
import GivaroModel.Model.RecInt
import GivaroModel.Model.RecIntSigned
import GivaroModel.Model.RecIntWords
import GivaroModel.Spec.RecIntSpec
import GivaroModel.Spec.RecIntMixedSpec
-- @driver-mode recint Driver.RecInt.recintLine
namespace Driver.RecInt
open Driver
open Givaro.Model.RecInt

private def bi (b : Bool) : Int := if b then 1 else 0
private def vi {n : Nat} (r : RU n) : Int := (val r : Int)

/-- the model's results for the operations that are modelled (`none`: specification only) -/
def recintModel (op : String) (n t : Nat) (a : List Nat) : Option (List Int) :=
  let U (x : Nat) : RU n := ofNat n x
  let hl (r : RU (n+1)) : List Int := [vi (hi r), vi (lo r)]
  match op, a with
  | "add", [b, c] | "addip", [b, c] => let r := add (U b) (U c); some [vi r.1, bi r.2]
  | "addnc", [b, c] | "addop", [b, c] | "addplus", [b, c] => some [vi (addNC (U b) (U c))]
  | "addwc", [b, c, cy] | "addwcip", [b, c, cy] => let r := add_wc (U b) (U c) (cy != 0); some [vi r.1, bi r.2]
  | "addwcnc", [b, c, cy] | "addwcipnc", [b, c, cy] => some [vi (add_wcNC (U b) (U c) (cy != 0))]
  | "add1", [b] | "add1ip", [b] => let r := add_1 (U b); some [vi r.1, bi r.2]
  | "add1nc", [b] | "inc", [b] => some [vi (add_1 (U b)).1]
  | "addl", [b, c] | "addlip", [b, c] => let r := add_l (U b) c; some [vi r.1, bi r.2]
  | "addlnc", [b, c] => some [vi (add_l (U b) c).1]
  | "sub", [b, c] | "subip", [b, c] => let r := sub (U b) (U c); some [vi r.1, bi r.2]
  | "subnc", [b, c] | "subop", [b, c] => some [vi (subNC (U b) (U c))]
  | "subwc", [b, c, cy] | "subwcip", [b, c, cy] => let r := sub_wc (U b) (U c) (cy != 0); some [vi r.1, bi r.2]
  | "subwcnc", [b, c, cy] | "subwcipnc", [b, c, cy] => some [vi (sub_wcNC (U b) (U c) (cy != 0))]
  | "sub1", [b] | "sub1ip", [b] => let r := sub_1 (U b); some [vi r.1, bi r.2]
  | "sub1nc", [b] | "dec", [b] => some [vi (sub_1 (U b)).1]
  | "subl", [b, c] | "sublip", [b, c] => let r := sub_l (U b) c; some [vi r.1, bi r.2]
  | "sublnc", [b, c] => some [vi (sub_l (U b) c).1]
  | "cmp", [b, c] => some [cmp (U b) (U c)]
  | "cmpl", [b, c] => some [cmp_l (U b) c]
  | "rel", [b, c] => let k := cmp (U b) (U c)
      some ([decide (k < 0), decide (k ≤ 0), decide (k > 0), decide (k ≥ 0), decide (k = 0), decide (k ≠ 0)].map bi)
  | "lmul", [b, c] => some (hl (lmul t (U b) (U c)))
  | "lmuln", [b, c] => some (hl (lmul_naive t (U b) (U c)))
  | "lmulk", [b, c] => some (hl (lmul_kara t (U b) (U c)))
  | "lmul2", [b, c] => some [vi (lmul t (U b) (U c))]
  | "mul", [b, c] | "mulip", [b, c] | "mulop", [b, c] | "mulal1", [b, c] | "mulal2", [b, c] | "mulstar", [b, c] => some [vi (mul t (U b) (U c))]
  | "mulself", [b] => some [vi (mul t (U b) (U b)), vi (mul t (U b) (U b))]
  | "lmull", [b, c] => let r := lmul_l (U b) c; some [(r.2 : Int), vi r.1]
  | "mull", [b, c] | "mullip", [b, c] => some [vi (mul_l (U b) c)]
  | "lsq", [b] => some [vi (lsquare t (U b))]
  | "sq", [b] => some [vi (square t (U b))]
  | "laddmul", [b, c, d] => let r := laddmul1 t (U b) (U c) (U d); some (hl r.1 ++ [bi r.2])
  | "laddmulnc", [b, c, d] => some (hl (laddmul1NC t (U b) (U c) (U d)))
  | "laddmul3", [b, c, d] => let r := laddmul3 t (U b) (U c) (ofNat (n+1) d); some (hl r.1 ++ [bi r.2])
  | "addmul", [x, b, c] => some [vi (addmul t (U x) (U b) (U c))]
  | "addmull", [x, b, c] => some [vi (addNC (U x) (mul_l (U b) c))]
  | "shl", [x, d] | "shlip", [x, d] | "shli", [x, d] => some [vi (left_shift (U x) d)]
  | "shr", [x, d] | "shrip", [x, d] | "shri", [x, d] | "shrself", [x, d] => some [vi (right_shift (U x) d)]
  | "shl1", [x] => let r := left_shift_1 (U x); some [vi r.1, bi r.2]
  | "shr1", [x] => let r := right_shift_1 (U x); some [vi r.1, bi r.2]
  | "shlx", [x, d] => some [vi (left_shift_x (U x) d)]
  | "div", [x, y] | "divop", [x, y] | "divip", [x, y] => let r := div t (U x) (U y); some [vi r.1, vi r.2]
  | "divl", [x, y] =>
      if y = 2 then let r := right_shift_1 (U x); some [vi r.1, bi r.2]
      else let r := div t (U x) (ofLimb n y); some [vi r.1, ((val r.2 % B64 : Nat) : Int)]
  | "div21", [xh, xl, y] => let r := div_2_1 t (U xh) (U xl) (U y); some [vi r.1, vi r.2]
  | "div32", [x2, x1, x0, y1, y0] => let r := div_3_2 t (U x2) (U x1) (U x0) (U y1) (U y0); some [vi r.1, vi r.2.1, vi r.2.2]
  | "modn", [x, y] => some [vi (mod_n2 t (ofNat (n+1) x) (U y))]
  | "norm", [x] => some [(normalization (U x) : Int)]
  | "not", [x] => some [vi (not_ (U x))]
  | "neg", [x] | "negop", [x] => some [vi (neg (U x))]
  | "or", [x, y] => some [vi (lor (U x) (U y))]
  | "and", [x, y] => some [vi (land (U x) (U y))]
  | "xor", [x, y] => some [vi (lxor (U x) (U y))]
  | "bits", [x] => some [bi (highest_bit (U x)), bi (lowest_bit (U x)), vi (set_highest_bit (U x)), vi (set_lowest_bit (U x))]
  | "gcd", [x, y] => some [vi (gcd t (U x) (U y))]
  | "invmod", [x, y] => some [vi (inv_mod t (U x) (U y))]
  | "bezout", [x, y] => let r := bezout_mod t (U x) (U y); some [vi r.1, vi r.2]
  | "expmod", [x, e, y] => some [vi (exp_mod t (U x) (U e) (U y))]
  | "expmodl", [x, e, y] => some [vi (exp_mod_l t (U x) e (U y))]
  | "arazi", [x] => some [vi (arazi_qi t (U x))]
  | _, _ => none

/-- conversions: the argument is a (possibly negative) big integer -/
def recintConvModel (op : String) (n : Nat) (a : List Int) : Option (List Int) :=
  let toS (v : Nat) : Int := if v < Bn n / 2 then (v : Int) else (v : Int) - (Bn n : Int)
  match op, a with
  | "cmpsl", [x, w] => some [if w < 0 then 1 else cmp_l (ofNat n x.toNat) w.toNat]       -- cmp(ruint, signed T)
  | "cvu_from", [z] => some (List.replicate 7 (vi (mpz_to_ruint n z)))
  | "cvu_back", [z] => some (List.replicate 4 (ruint_to_mpz (ofNat n z.toNat)))
  | "cvs_from", [z] => some (List.replicate 7 (toS (val (mpz_to_rint n z))))
  | "cvs_back", [z] => some (List.replicate 4 (rint_to_mpz (ofNat n (z % (Bn n : Int)).toNat)))
  -- built-in words and doubles (the C casts `(int32_t)w`, … made by the harness are `wrapS32`, `% 2^32`, …)
  | "cvu_word", [w] =>
      some [vi (u_of_signed n w), vi (ofLimb n (w % 18446744073709551616).toNat), vi (u_of_signed n (Givaro.wrapS32 w)),
            vi (ofLimb n (w % 4294967296).toNat), vi (u_of_signed n w)]
  | "cvs_word", [w] =>
      some [toS (val (u_of_signed n w)), toS (val (ofLimb n (w % 18446744073709551616).toNat)), toS (val (u_of_signed n (Givaro.wrapS32 w))),
            toS (val (ofLimb n (w % 4294967296).toNat)), toS (val (u_of_signed n w))]
  | "cvu_toword", [z] => let a := ofNat n z.toNat
      some [(to_u64 a : Int), to_s64 a, (to_u32 a : Int), to_s32 a, bi (to_bool a)]
  | "cvs_toword", [z] => let a := ofNat n (z % (Bn n : Int)).toNat
      some [to_s64 a, (to_u64 a : Int), to_s32 a]
  | "cvu_dbl", [d] => some [vi (u_of_double n d), (u_to_double (ofNat n d.natAbs) : Int)]
  | "cvs_dbl", [d] => some [toS (val (u_of_double n d)), s_to_double (ofNat n (d % (Bn n : Int)).toNat)]
  | "cvu_todbl", [z] => some [(u_to_double (ofNat n z.toNat) : Int)]
  | "cvs_todbl", [z] => some [s_to_double (ofNat n (z % (Bn n : Int)).toNat)]
  | _, _ => none

/-- the `rint<K>` wrappers: the arguments are signed values, the model works on their two's-complement images -/
def recintSignedModel (op : String) (n t : Nat) (a : List Int) : Option (List Int) :=
  let I (x : Int) : RU n := ofNat n (x % (Bn n : Int)).toNat
  let rd {k : Nat} (r : RU k) : Int := if 2 * val r < Bn k then (val r : Int) else (val r : Int) - Bn k
  match op, a with
  | "sadd", [b, c] | "saddop", [b, c] => some [rd (s_add (I b) (I c))]
  | "smul", [b, c] | "smulop", [b, c] => some [rd (s_mul t (I b) (I c))]
  | "saddeq", [b, c] => let x := rd (s_add (I b) (I c)); let y := rd (s_mul t (I b) (I c)); some [x, x, y, y]
  | "ssub", [b, c] => some (List.replicate 4 (rd (s_sub (I b) (I c))))
  | "sneg", [b] => some [rd (s_neg (I b)), rd (s_neg (I b)), rd (s_not (I b))]
  | "sbit", [b, c] => let r := [rd (land (I b) (I c)), rd (lor (I b) (I c)), rd (lxor (I b) (I c))]; some (r ++ r)
  | "saddmul", [x, b, c] => some [rd (s_addmul t (I x) (I b) (I c))]
  | "scmp", [x, y] => let k := s_cmp (I x) (I y)
      some (k :: [decide (k < 0), decide (k ≤ 0), decide (k > 0), decide (k ≥ 0), decide (k = 0), decide (k ≠ 0)].map bi)
  | "slmul", [b, c] => some [rd (s_lmul t (I b) (I c))]
  | "slsq", [b] => some [rd (s_lsquare t (I b))]
  | "sext", [b] => some [rd (s_ext (I b))]
  | "sdivq", [x, y] => some [rd (s_divq t (I x) (I y))]
  | "sdivr", [x, y] => some [rd (s_divr t (I x) (I y))]
  | "sdivop", [x, y] | "sdiveq", [x, y] => some [rd (s_divq t (I x) (I y)), rd (s_divr t (I x) (I y))]
  | "smodn", [x, y] => some [rd (s_modn t (I x) (I y))]
  | "smodn2", [x, y] => some [rd (s_modn2 t (ofNat (n+1) (x % (Bn (n+1) : Int)).toNat) (I y))]
  | "sinvmod", [x, y] => some [rd (s_invmod t (I x) (I y))]
  | "sshl", [b, d] => some (List.replicate 2 (rd (s_shl (I b) d.toNat)))
  | "sshr", [b, d] => some (List.replicate 2 (rd (s_shr (I b) d.toNat)))
  | _, _ => none

/-- mixed operands: `mx_<form> K 0 cls ty x w y = rt res…` -/
def recintMixedLine (line : String) (op : String) (args res : List String) : String :=
  match parseAll args, parseAll res with
  | some [K, _, cls, ty, x, w, y], some r =>
    match Givaro.Spec.RecInt.mixedSpec (op.drop 3).toString K.toNat cls.toNat ty.toNat x w y r with
    | none => "BAD nofunc | " ++ line
    | some (pre, ok) =>
      if !pre then "PRE" else
      -- the model of the (repaired) code, where there is one: the recursive operand enters as its image modulo 2^bits
      let n := K.toNat - 6
      let form := (op.drop 3).toString
      let a : RU n := ofNat n (x % (Bn n : Int)).toNat
      let rd (r : RU n) : Int := if cls = 0 then (val r : Int) else (if 2 * val r < Bn n then (val r : Int) else (val r : Int) - Bn n)
      let model : Option Int :=
        if form == "add_xt" || form == "add_tx" || form == "addeq" || form == "add3" || form == "add2" || form == "add3c" then some (rd (add_s a w))
        else if form == "sub_xt" || form == "subeq" || form == "sub3" || form == "sub2" || form == "sub3c" then some (rd (sub_s a w))
        else if form == "sub_tx" then some (rd (rsub_s a w))
        else if form == "mul_xt" || form == "mul_tx" || form == "muleq" || form == "mul3" || form == "mul2" then some (rd (mul_s a w))
        else if cls = 0 && form == "cmp" then some (cmp_s a w)
        else if cls = 0 && (form == "div_xt" || form == "diveq" || form == "divq") then some (rd (divq_s 10 a w))
        else if cls = 0 && (form == "mod_xt" || form == "modeq") then some (rd (mod_s 10 a w))
        else if cls = 0 && (form == "shl_xt" || form == "shleq") then some (rd (left_shift a w.toNat))
        else if cls = 0 && (form == "shr_xt" || form == "shreq") then some (rd (right_shift a w.toNat))
        else none
      let modelOk := match model, r with
        | some m, _ :: v :: _ => m == v
        | _, _ => true
      if ok && modelOk then "OK"
      else
        let kind := if !ok && !modelOk then "BOTH" else if !ok then "SPEC" else "MODEL"
        let ms := match model with | none => "-" | some m => hexInt m
        s!"DIFF kind={kind} model={ms} | {line.trimAscii.toString}"
  | _, _ => if res == ["EXC"] then s!"DIFF kind=SPEC model=- | {line.trimAscii.toString}" else "BAD args | " ++ line

def recintLine (line : String) : String :=
  match splitLine line with
  | none => "BAD empty"
  | some (op, args, res) =>
    if op.startsWith "mx_" then recintMixedLine line op args res else
    match args with
    | ks :: ts :: rest =>
      match parseHexNat ks, parseHexNat ts, parseAll rest with
      | some K, some t, some a =>
        if K < 6 || K > 13 then "BAD size | " ++ line else
        match Givaro.Spec.RecInt.spec op K a with
        | none => "BAD nofunc | " ++ line
        | some (pre, chk) =>
          if !pre then "PRE" else
          match parseAll res with
          | none => if res == ["EXC"] then s!"DIFF kind=SPEC model=- | {line.trimAscii.toString}" else "BAD result | " ++ line
          | some ir =>
            let specOk := chk ir
            let model := if op.startsWith "cv" || op == "cmpsl" then recintConvModel op (K - 6) a
                         else match recintSignedModel op (K - 6) t a with
                           | some r => some r
                           | none => recintModel op (K - 6) t (a.map Int.toNat)
            let modelOk := match model with | none => true | some mr => mr == ir
            if specOk && modelOk then "OK"
            else
              let kind := if !specOk && !modelOk then "BOTH" else if !specOk then "SPEC" else "MODEL"
              let ms := match model with | none => "-" | some mr => String.intercalate " " (mr.map hexInt)
              s!"DIFF kind={kind} model={ms} | {line.trimAscii.toString}"
      | _, _, _ => "BAD args | " ++ line
    | _ => "BAD short | " ++ line

end Driver.RecInt
