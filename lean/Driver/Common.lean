/- Line protocol helpers for the correspondence driver (core Lean only). -/
namespace Driver

def hexDigit (c : Char) : Option Nat :=
  if '0' ≤ c ∧ c ≤ '9' then some (c.toNat - '0'.toNat)
  else if 'a' ≤ c ∧ c ≤ 'f' then some (c.toNat - 'a'.toNat + 10)
  else if 'A' ≤ c ∧ c ≤ 'F' then some (c.toNat - 'A'.toNat + 10)
  else none

def parseHexNat (s : String) : Option Nat :=
  if s.isEmpty then none else
  s.foldl (fun acc c => match acc, hexDigit c with
    | some a, some d => some (a * 16 + d)
    | _, _ => none) (some 0)

/-- optional '-' followed by hex digits -/
def parseHexInt (s : String) : Option Int :=
  if s.startsWith "-" then (parseHexNat (s.drop 1).toString).map (fun n => -(n : Int))
  else (parseHexNat s).map (fun n => (n : Int))

def hexNat (n : Nat) : String := String.ofList (Nat.toDigits 16 n)
def hexInt (i : Int) : String := if i < 0 then "-" ++ hexNat i.natAbs else hexNat i.natAbs

def words (line : String) : List String :=
  (line.trimAscii.toString.splitOn " ").filter (fun s => !s.isEmpty)

/-- split a harness output line `key a1 … an = r1 … rm` into (key, args, results) -/
def splitLine (line : String) : Option (String × List String × List String) :=
  match words line with
  | [] => none
  | key :: rest =>
    let args := rest.takeWhile (· != "=")
    let res := (rest.dropWhile (· != "=")).drop 1
    some (key, args, res)

def parseAll (xs : List String) : Option (List Int) := xs.mapM parseHexInt

partial def forLines (h : IO.FS.Stream) (f : Nat → String → IO Unit) (n : Nat := 1) : IO Unit := do
  let line ← h.getLine
  if line.isEmpty then return ()
  f n line
  forLines h f (n + 1)

end Driver
