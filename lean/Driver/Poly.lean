/- C08 driver: for every line printed by harness/h_poly.cpp evaluates the specification (reference arithmetic and
   verified certificates of Spec/PolySpec.lean) on the implementation's output and, where the operation is modelled,
   the model of Model/Poly.lean.  Raw storage is never compared: both sides are normalised first; the degree the
   library's own observer reported for a result must be the degree of that result. -/
import Driver.Common
import GivaroModel.Model.Poly
import GivaroModel.Model.PolyInterp
import GivaroModel.Model.PolyMore
import GivaroModel.Model.PolyCRT
import GivaroModel.Model.PolyPadicDirect
import GivaroModel.Spec.PolySpec
-- @driver-mode poly Driver.Poly.polyLine
namespace Driver.Poly
open Driver
open Givaro.Spec.Poly

/-- the operations of a coefficient field + the wire format of its elements -/
class FieldIO (K : Type) extends Zero K, One K, Add K, Sub K, Neg K, Mul K, Div K, Inv K where
  deq : DecidableEq K
  parse : String → Option K
  render : K → String
  card : Nat            -- 0 = infinite

instance {K} [FieldIO K] : DecidableEq K := FieldIO.deq

/-- Z/p, canonical representatives -/
structure Zp (p : Nat) where
  v : Nat
deriving DecidableEq

def powModNat (p : Nat) (b : Nat) : Nat → Nat → Nat → Nat
  | 0, _, acc => acc
  | fuel + 1, e, acc =>
    if e = 0 then acc else
      powModNat p (b * b % p) fuel (e / 2) (if e % 2 = 1 then acc * b % p else acc)

def Zp.inv {p : Nat} (a : Zp p) : Zp p := ⟨powModNat p (a.v % p) (p.log2 + 2) (p - 2) (1 % p)⟩

instance (p : Nat) : FieldIO (Zp p) where
  zero := ⟨0⟩
  one := ⟨1 % p⟩
  add a b := ⟨(a.v + b.v) % p⟩
  sub a b := ⟨(a.v + p - b.v) % p⟩
  neg a := ⟨(p - a.v) % p⟩
  mul a b := ⟨a.v * b.v % p⟩
  inv a := a.inv
  div a b := ⟨a.v * b.inv.v % p⟩
  deq := inferInstance
  parse s := (parseHexNat s).bind (fun n => if n < p then some ⟨n⟩ else none)
  render a := hexNat a.v
  card := p

def parseRat (s : String) : Option Rat :=
  match s.splitOn "/" with
  | [n] => (parseHexInt n).map (fun i => (i : Rat))
  | [n, d] => match parseHexInt n, parseHexNat d with
    | some i, some k => if k = 0 then none else some (mkRat i k)
    | _, _ => none
  | _ => none

instance : FieldIO Rat where
  deq := inferInstance
  parse := parseRat
  render q := hexInt q.num ++ "/" ++ hexNat q.den
  card := 0

section
variable {K : Type} [FieldIO K]

def parsePoly (s : String) : Option (List K) :=
  if s.startsWith "[" && s.endsWith "]" then
    let body := ((s.drop 1).dropRight 1).toString
    if body.isEmpty then some [] else (body.splitOn ",").mapM FieldIO.parse
  else none

def renderPoly (P : List K) : String := "[" ++ String.intercalate "," (P.map FieldIO.render) ++ "]"

/-- verdict of one line: precondition, spec accepted the implementation, model agrees with the implementation -/
structure V where
  pre : Bool := true
  spec : Bool
  model : Bool := true
  info : String := ""

/-- a polynomial result together with the degree reported by the library: the observer must see the normal form -/
def degOk (r : List K × Int) : Bool := r.2 == sdeg r.1

def exact1 (r : List K × Int) (spec : List K) (model : Option (List K) := none) : V :=
  { spec := eqv r.1 spec && degOk r,
    model := match model with | none => true | some m => eqv m r.1,
    info := match model with | none => renderPoly (norm spec) | some m => renderPoly (norm m) }

def fromNat (n : Nat) : K := natCast n

def polyCase (thr : Nat) (key : String) (a : Array String) (r : Array String) : Option V := do
  let P (i : Nat) : Option (List K) := a[i]? >>= parsePoly
  let S (i : Nat) : Option K := a[i]? >>= FieldIO.parse
  let N (i : Nat) : Option Int := a[i]? >>= parseHexInt
  let RP (i : Nat) : Option (List K × Int) := do
    let p ← r[2 * i]? >>= parsePoly
    let d ← r[2 * i + 1]? >>= parseHexInt
    pure (p, d)
  let M := @Givaro.Model.Poly.setdegree K _ _   -- (forces the instances)
  let _ := M
  match key with
  | "add" => do let A ← P 0; let B ← P 1; pure (exact1 (← RP 0) (sadd A B) (some (Givaro.Model.Poly.add A B)))
  | "sub" => do let A ← P 0; let B ← P 1; pure (exact1 (← RP 0) (ssub A B) (some (Givaro.Model.Poly.sub A B)))
  | "addin" => do let A ← P 0; let B ← P 1; pure (exact1 (← RP 0) (sadd A B) (some (Givaro.Model.Poly.addin A B)))
  | "subin" => do let A ← P 0; let B ← P 1; pure (exact1 (← RP 0) (ssub A B) (some (Givaro.Model.Poly.subin A B)))
  | "neg" => do let A ← P 0; pure (exact1 (← RP 0) (sneg A) (some (Givaro.Model.Poly.neg A)))
  | "negin" => do let A ← P 0; pure (exact1 (← RP 0) (sneg A) (some (Givaro.Model.Poly.negin A)))
  | "addv" => do let A ← P 0; let v ← S 1; pure (exact1 (← RP 0) (sadd A [v]) (some (Givaro.Model.Poly.addVal A v)))
  | "vadd" => do let v ← S 0; let A ← P 1; pure (exact1 (← RP 0) (sadd [v] A) (some (Givaro.Model.Poly.valAdd v A)))
  | "subv" => do let A ← P 0; let v ← S 1; pure (exact1 (← RP 0) (ssub A [v]) (some (Givaro.Model.Poly.subVal A v)))
  | "vsub" => do let v ← S 0; let A ← P 1; pure (exact1 (← RP 0) (ssub [v] A) (some (Givaro.Model.Poly.valSub v A)))
  | "addinv" => do let A ← P 0; let v ← S 1; pure (exact1 (← RP 0) (sadd A [v]) (some (Givaro.Model.Poly.addinVal A v)))
  | "subinv" => do let A ← P 0; let v ← S 1; pure (exact1 (← RP 0) (ssub A [v]) (some (Givaro.Model.Poly.subinVal A v)))
  | "mulv" => do let A ← P 0; let v ← S 1; pure (exact1 (← RP 0) (sscale v A) (some (Givaro.Model.Poly.mulVal A v)))
  | "vmul" => do let v ← S 0; let A ← P 1; pure (exact1 (← RP 0) (sscale v A) (some (Givaro.Model.Poly.mulVal A v)))
  | "mulinv" => do let A ← P 0; let v ← S 1; pure (exact1 (← RP 0) (sscale v A) (some (Givaro.Model.Poly.mulVal A v)))
  | "divv" => do
    let A ← P 0; let v ← S 1
    if v = 0 then pure { pre := false, spec := true } else
    pure (exact1 (← RP 0) (sscale (1 / v) A) (some (Givaro.Model.Poly.divVal A v)))
  | "divinv" => do
    let A ← P 0; let v ← S 1
    if v = 0 then pure { pre := false, spec := true } else
    pure (exact1 (← RP 0) (sscale (1 / v) A) (some (Givaro.Model.Poly.divVal A v)))
  | "vdiv" => do
    let v ← S 0; let A ← P 1; let q ← RP 0
    if (norm A).isEmpty then pure { pre := false, spec := true } else
    let m := Givaro.Model.PolyMore.valDiv v A
    pure { spec := chkQuo [v] A q.1 && degOk q, model := eqv m q.1, info := renderPoly (norm m) }
  | "vmod" => do
    let v ← S 0; let A ← P 1; let q ← RP 0
    if (norm A).isEmpty then pure { pre := false, spec := true } else
    let m := Givaro.Model.PolyMore.valMod v A
    pure { spec := chkRem [v] A q.1 && degOk q, model := eqv m q.1, info := renderPoly (norm m) }
  -- fused forms
  | "axpy" => do let A ← P 0; let X ← P 1; let Y ← P 2
                 pure (exact1 (← RP 0) (sadd (smul A X) Y) (some (Givaro.Model.Poly.axpy thr A X Y)))
  | "axmy" => do let A ← P 0; let X ← P 1; let Y ← P 2
                 pure (exact1 (← RP 0) (ssub (smul A X) Y) (some (Givaro.Model.Poly.axmy thr A X Y)))
  | "maxpy" => do let A ← P 0; let X ← P 1; let Y ← P 2
                  pure (exact1 (← RP 0) (ssub Y (smul A X)) (some (Givaro.Model.Poly.maxpy thr A X Y)))
  | "axpyin" => do let R ← P 0; let A ← P 1; let X ← P 2
                   pure (exact1 (← RP 0) (sadd R (smul A X)) (some (Givaro.Model.Poly.axpyin thr R A X)))
  | "maxpyin" => do let R ← P 0; let A ← P 1; let X ← P 2
                    pure (exact1 (← RP 0) (ssub R (smul A X)) (some (Givaro.Model.Poly.maxpyin thr R A X)))
  | "axmyin" => do let R ← P 0; let A ← P 1; let X ← P 2
                   pure (exact1 (← RP 0) (ssub (smul A X) R) (some (Givaro.Model.Poly.axmyin thr R A X)))
  | "axpyv" => do let c ← S 0; let X ← P 1; let Y ← P 2
                  pure (exact1 (← RP 0) (sadd (sscale c X) Y) (some (Givaro.Model.Poly.axpyVal c X Y)))
  | "axmyv" => do let c ← S 0; let X ← P 1; let Y ← P 2
                  pure (exact1 (← RP 0) (ssub (sscale c X) Y) (some (Givaro.Model.Poly.axmyVal c X Y)))
  | "maxpyv" => do let c ← S 0; let X ← P 1; let Y ← P 2
                   pure (exact1 (← RP 0) (ssub Y (sscale c X)))
  | "axpyinv" => do let R ← P 0; let c ← S 1; let X ← P 2
                    pure (exact1 (← RP 0) (sadd R (sscale c X)) (some (Givaro.Model.Poly.axpyinVal c R X)))
  | "maxpyinv" => do let R ← P 0; let c ← S 1; let X ← P 2
                     pure (exact1 (← RP 0) (ssub R (sscale c X)) (some (Givaro.Model.Poly.maxpyinVal R c X)))
  | "axmyinv" => do let R ← P 0; let c ← S 1; let X ← P 2
                    pure (exact1 (← RP 0) (ssub (sscale c X) R) (some (Givaro.Model.Poly.axmyinVal R c X)))
  -- products
  | "mul" => do let A ← P 0; let B ← P 1; pure (exact1 (← RP 0) (smul A B) (some (Givaro.Model.Poly.mul thr A B)))
  | "stdmul" => do let A ← P 0; let B ← P 1; pure (exact1 (← RP 0) (smul A B) (some (Givaro.Model.Poly.stdmul A B)))
  | "karamul" => do let A ← P 0; let B ← P 1; pure (exact1 (← RP 0) (smul A B) (some (Givaro.Model.Poly.karamul thr A B)))
  | "mulin" => do let A ← P 0; let B ← P 1; pure (exact1 (← RP 0) (smul A B) (some (Givaro.Model.Poly.mulin thr A B)))
  | "sqr" => do let A ← P 0; pure (exact1 (← RP 0) (smul A A) (some (Givaro.Model.Poly.sqr thr A)))
  | "multr" => do
    let A ← P 0; let B ← P 1; let lo ← N 2; let hi ← N 3
    if lo < 0 || hi < lo then pure { pre := false, spec := true } else
    let w : List K := if A.isEmpty || B.isEmpty then [] else smulWindow A B lo.toNat (hi - lo + 1).toNat
    pure (exact1 (← RP 0) w (some (Givaro.Model.Poly.mulWindow A B lo.toNat hi.toNat)))
  | "midmul" | "stdmidmul" | "karamidmul" => do
    let A ← P 0; let B ← P 1
    if A.length < B.length || B.isEmpty then pure { pre := false, spec := true } else
    if key == "karamidmul" && A.length + 1 != 2 * B.length then pure { pre := false, spec := true } else
    let m := if key == "midmul" then Givaro.Model.Poly.midmul thr A B
             else if key == "stdmidmul" then Givaro.Model.Poly.stdmidmul A B
             else Givaro.Model.Poly.karamidmul thr A B
    pure (exact1 (← RP 0) (smulWindow A B (B.length - 1) (A.length - B.length + 1)) (some m))
  | "pow" => do let A ← P 0; let n ← N 1; pure (exact1 (← RP 0) (spow A n.toNat) (some (Givaro.Model.Poly.pow thr A n.toNat)))
  | "powmod" => do
    let A ← P 0; let n ← N 1; let U ← P 2
    if (norm U).isEmpty || n < 0 then pure { pre := false, spec := true } else
    pure (exact1 (← RP 0) (spowmod A n.toNat U) (some (Givaro.Model.Poly.powmod thr A n.toNat U)))
  -- division (B = 0 is outside the property)
  | "div" | "divin" => do
    let A ← P 0; let B ← P 1; let q ← RP 0
    if (norm B).isEmpty then pure { pre := false, spec := true } else
    let m := if key == "div" then Givaro.Model.Poly.div thr A B else Givaro.Model.Poly.divin thr A B
    pure { spec := chkQuo A B q.1 && degOk q, model := eqv m q.1, info := renderPoly (norm m) }
  | "mod" => do
    let A ← P 0; let B ← P 1; let q ← RP 0
    if (norm B).isEmpty then pure { pre := false, spec := true } else
    let m := Givaro.Model.Poly.mod thr A B
    pure { spec := chkRem A B q.1 && degOk q, model := eqv m q.1, info := renderPoly (norm m) }
  | "modin" => do
    let A ← P 0; let B ← P 1; let q ← RP 0
    if (norm B).isEmpty then pure { pre := false, spec := true } else
    let m := Givaro.Model.Poly.modin A B
    pure { spec := chkRem A B q.1 && degOk q, model := eqv m q.1, info := renderPoly (norm m) }
  | "divmod" | "divmodin" => do
    let A ← P 0; let B ← P 1; let q ← RP 0; let rr ← RP 1
    if (norm B).isEmpty then pure { pre := false, spec := true } else
    let m := if key == "divmod" then Givaro.Model.Poly.divmod thr A B else Givaro.Model.Poly.divmodin thr A B
    pure { spec := chkDivmod A B q.1 rr.1 && degOk q && degOk rr, model := eqv m.1 q.1 && eqv m.2 rr.1,
           info := renderPoly (norm m.1) ++ " " ++ renderPoly (norm m.2) }
  | "pdivmod" => do
    let A ← P 0; let B ← P 1; let q ← RP 0; let rr ← RP 1; let m ← r[4]? >>= FieldIO.parse
    if (norm B).isEmpty then pure { pre := false, spec := true } else
    let md := Givaro.Model.Poly.pdivmod A B
    pure { spec := chkPdivmod A B q.1 rr.1 m && degOk q && degOk rr,
           model := eqv md.1 q.1 && eqv md.2.1 rr.1 && decide (md.2.2 = m),
           info := renderPoly (norm md.1) ++ " " ++ renderPoly (norm md.2.1) ++ " " ++ FieldIO.render md.2.2 }
  | "pmod" => do
    let A ← P 0; let B ← P 1; let rr ← RP 0; let m ← r[2]? >>= FieldIO.parse
    if (norm B).isEmpty then pure { pre := false, spec := true } else
    let md := Givaro.Model.Poly.pmod A B
    pure { spec := chkPmod A B rr.1 m && degOk rr, model := eqv md.1 rr.1 && decide (md.2 = m),
           info := renderPoly (norm md.1) ++ " " ++ FieldIO.render md.2 }
  | "isdiv" => do
    let A ← P 0; let B ← P 1; let v ← r[0]? >>= parseHexInt
    pure { spec := (v != 0) == divides B A, model := (v != 0) == Givaro.Model.PolyMore.isDivisor thr A B }
  -- gcd family
  | "gcd" => do
    let A ← P 0; let B ← P 1; let d ← RP 0
    let m := Givaro.Model.Poly.gcd thr (A.length + B.length + 1) A B
    pure { spec := chkGcd A B d.1 && degOk d, model := (match m with | some g => eqv g d.1 | none => false),
           info := match m with | some g => renderPoly (norm g) | none => "loop-did-not-finish" }
  | "gcdext" => do
    let A ← P 0; let B ← P 1; let d ← RP 0; let u ← RP 1; let v ← RP 2
    if (norm A).isEmpty && (norm B).isEmpty then pure { pre := false, spec := true } else   -- needs the inverse of zero
    -- the model of the Euclid loop with the model of the implementation's own division
    let m := Givaro.Model.Poly.gcdext thr (Givaro.Model.Poly.div thr) (A.length + B.length + 2) A B
    let mOk := match m with
      | some (f, s, t) => eqv f d.1 && eqv s u.1 && eqv t v.1
      | none => false
    pure { spec := chkGcdExt A B d.1 u.1 v.1 && degOk d && degOk u && degOk v, model := mOk,
           info := match m with
             | some (f, s, t) => renderPoly (norm f) ++ " " ++ renderPoly (norm s) ++ " " ++ renderPoly (norm t)
             | none => "loop-did-not-finish" }
  | "lcm" => do
    let A ← P 0; let B ← P 1; let d ← RP 0
    let m := Givaro.Model.Poly.lcm thr (A.length + B.length + 1) A B
    pure { spec := chkLcm A B d.1 && degOk d, model := (match m with | some g => eqv g d.1 | none => false),
           info := match m with | some g => renderPoly (norm g) | none => "loop-did-not-finish" }
  | "invmod" => do
    let A ← P 0; let B ← P 1; let u ← RP 0
    if !(coprime A B) || sdeg B < 1 then pure { pre := false, spec := true } else
    let m := Givaro.Model.Poly.invmod thr (A.length + B.length + 2) A B
    pure { spec := chkInvmod A B u.1 && degOk u, model := (match m with | some g => eqv g u.1 | none => false),
           info := match m with | some g => renderPoly (norm g) | none => "loop-did-not-finish" }
  | "invmodunit" => do
    let A ← P 0; let B ← P 1; let u ← RP 0
    if !(coprime A B) || sdeg B < 1 then pure { pre := false, spec := true } else
    let m := Givaro.Model.Poly.invmodunit thr (A.length + B.length + 2) A B
    pure { spec := chkInvmodUnit A B u.1 && degOk u, model := (match m with | some g => eqv g u.1 | none => false),
           info := match m with | some g => renderPoly (norm g) | none => "loop-did-not-finish" }
  | "modpowx" => do
    let A ← P 0; let l ← N 1
    if l < 0 then pure { pre := false, spec := true } else
    pure (exact1 (← RP 0) (A.take l.toNat) (some (Givaro.Model.Poly.modpowx A l.toNat)))
  | "invmodpowx" => do
    let A ← P 0; let l ← N 1; let g ← RP 0
    if l < 1 || coeff A 0 = 0 then pure { pre := false, spec := true } else
    let m := Givaro.Model.Poly.invmodpowx thr A l.toNat
    pure { spec := eqv ((smul g.1 A).take l.toNat) [1] && decide (sdeg g.1 < l) && degOk g, model := eqv m g.1,
           info := renderPoly (norm m) }
  -- definitions
  | "eval" => do
    let A ← P 0; let v ← S 1; let e ← r[0]? >>= FieldIO.parse
    let m := Givaro.Model.Poly.eval A v
    pure { spec := e = seval A v, model := m = e, info := FieldIO.render m }
  | "diff" => do let A ← P 0; pure (exact1 (← RP 0) (sdiff A) (some (Givaro.Model.Poly.diff A)))
  | "reverse" | "reversein" => do let A ← P 0; pure (exact1 (← RP 0) (sreverse A) (some (Givaro.Model.Poly.reverse A)))
  | "compose" => do
    let A ← P 0; let b ← N 1
    if b < 0 then pure { pre := false, spec := true } else
    pure (exact1 (← RP 0) (scompose A b.toNat) (some (Givaro.Model.Poly.powerCompose A b.toNat)))
  | "setdegree" => do
    let A ← P 0; let q ← RP 0
    -- here the raw storage is the observable: it must be the normal form
    pure { spec := q.1 = norm A && degOk q, model := Givaro.Model.Poly.setdegree A = q.1,
           info := renderPoly (Givaro.Model.Poly.setdegree A) }
  | "observe" => do
    let A ← P 0
    let d ← r[0]? >>= parseHexInt; let z ← r[1]? >>= parseHexInt; let o ← r[2]? >>= parseHexInt
    let lc ← r[3]? >>= FieldIO.parse
    let An := norm A
    let specOk := d == sdeg A && (z != 0) == An.isEmpty && (o != 0) == decide (An = [1]) && lc = An.getLast?.getD 0
    let modelOk := d == Givaro.Model.Poly.degree A && (z != 0) == Givaro.Model.Poly.isZero A &&
                   (o != 0) == Givaro.Model.Poly.isOne A && lc = Givaro.Model.Poly.leadcoef A
    pure { spec := specOk, model := modelOk }
  | "areequal" => do
    let A ← P 0; let B ← P 1; let e ← r[0]? >>= parseHexInt; let ne ← r[1]? >>= parseHexInt
    pure { spec := (e != 0) == eqv A B && (ne != 0) == !(eqv A B),
           model := (e != 0) == Givaro.Model.Poly.areEqual A B && (ne != 0) == Givaro.Model.PolyMore.areNEqual A B }
  | "getentry" => do
    let A ← P 0; let i ← N 1; let c ← r[0]? >>= FieldIO.parse
    if i < 0 then pure { pre := false, spec := true } else
    pure { spec := c = coeff A i.toNat, model := c = Givaro.Model.Poly.getEntry i.toNat A }
  -- constructors / assignments
  | "init0" => do pure (exact1 (← RP 0) ([] : List K) (some Givaro.Model.PolyMore.init0))
  | "initv" => do let v ← S 0; pure (exact1 (← RP 0) [v] (some (Givaro.Model.PolyMore.initVal v)))
  | "assignv" => do let v ← S 0; pure (exact1 (← RP 0) [v] (some (Givaro.Model.PolyMore.assignVal v)))
  | "initl3" => do let x ← S 0; let y ← S 1; let z ← S 2
                   pure (exact1 (← RP 0) [x, y, z] (some (Givaro.Model.PolyMore.initList [x, y, z])))
  | "initdeg" => do let d ← N 0; pure (exact1 (← RP 0) (zeros d.toNat ++ [(1 : K)]) (some (Givaro.Model.PolyMore.initDeg d.toNat)))
  | "initdv" | "assigndv" => do
    let d ← N 0; let v ← S 1
    pure (exact1 (← RP 0) (zeros d.toNat ++ [v]) (some (Givaro.Model.PolyMore.initDegVal d.toNat v)))
  | "assign" => do let A ← P 0; pure (exact1 (← RP 0) A (some (Givaro.Model.Poly.assign A)))
  | "toscalar" | "convert" => do
    let A ← P 0; let c ← r[0]? >>= FieldIO.parse
    pure { spec := c = coeff A 0, model := c = Givaro.Model.PolyMore.toScalar A }
  | "observe2" => do
    let A ← P 0
    let mo ← r[0]? >>= parseHexInt; let un ← r[1]? >>= parseHexInt; let vl ← r[2]? >>= parseHexInt; let dg ← r[3]? >>= parseHexInt
    let An := norm A
    let valSpec : Int := match An.findIdx? (fun c => !(decide (c = 0))) with | some i => (i : Int) | none => -1
    pure { spec := (mo != 0) == decide (An = [-(1 : K)]) && (un != 0) == decide (sdeg A = 0) && vl == valSpec && dg == sdeg A,
           model := (mo != 0) == Givaro.Model.PolyMore.isMOne A && (un != 0) == Givaro.Model.PolyMore.isUnit A &&
                    vl == Givaro.Model.PolyMore.val A && dg == Givaro.Model.Poly.degree A }
  | "setentry" => do
    let A ← P 0; let c ← S 1; let i ← N 2
    if i < 0 then pure { pre := false, spec := true } else
    let L := max A.length (i.toNat + 1)
    let padded := (A ++ zeros L).take L
    pure (exact1 (← RP 0) (padded.set i.toNat c) (some (Givaro.Model.PolyMore.setEntry A c i.toNat)))
  | "modinv" | "modv" => do
    let _A ← P 0; let v ← S 1
    if v = 0 then pure { pre := false, spec := true } else
    pure (exact1 (← RP 0) ([] : List K) (some (Givaro.Model.PolyMore.modVal _A v)))
  | "inv" | "invin" => do
    let A ← P 0
    if sdeg A != 0 then pure { pre := false, spec := true } else
    pure (exact1 (← RP 0) [1 / coeff (norm A) 0] (some (Givaro.Model.PolyMore.inv thr A)))
  | "shiftin" => do
    let A ← P 0; let sft ← N 1
    if sft < 0 then pure { pre := false, spec := true } else
    pure (exact1 (← RP 0) (zeros sft.toNat ++ A) (some (Givaro.Model.PolyMore.shiftin A sft.toNat)))
  | "random" => do
    -- random / nonzerorandom, overload `ov` in {0, s, d, b}: the draws are not determined (C17); the shape is: exactly
    -- target+1 coefficients, leading one non-zero, degree = target (`random_shape`, `randomTarget`)
    let ov ← a[0]?; let _nz ← N 1; let arg ← N 2; let q ← RP 0
    if arg > 4096 || arg < -4096 then pure { pre := false, spec := true } else
    let tgt := Givaro.Model.PolyMore.randomTarget ov arg
    let want : Int := if tgt < 0 then -1 else tgt
    pure { spec := q.1 = norm q.1 && sdeg q.1 == want && degOk q,
           model := (q.1.length : Int) == want + 1, info := toString want }
  | "modpowxin" => do
    let A ← P 0; let l ← N 1
    if l < 0 then pure { pre := false, spec := true } else
    pure (exact1 (← RP 0) (A.take l.toNat) (some (Givaro.Model.Poly.modpowx A l.toNat)))
  | "wrappers" => do
    let A ← P 0
    let ch ← r[0]? >>= parseHexNat; let cd ← r[1]? >>= parseHexInt; let dm ← r[2]? >>= parseHexInt
    let raw ← r[3]? >>= parsePoly; let d ← r[4]? >>= parseHexInt
    pure { spec := ch == FieldIO.card K && cd == 0 && dm == 1 && raw = norm A && d == sdeg A }
  -- the range forms: all n places of the R range are the contract
  | "rmul" | "rstdmul" | "rkaramul" => do
    let n ← N 0; let A ← P 1; let B ← P 2; let raw ← r[0]? >>= parsePoly
    if A.isEmpty || B.isEmpty || n < 1 then pure { pre := false, spec := true } else
    let nn := n.toNat
    let want : List K := ((smul A B) ++ zeros nn).take nn
    let fuel := A.length + B.length
    let m : List K :=
      if key == "rmul" then Givaro.Model.Poly.pad nn (Givaro.Model.Poly.mulR thr fuel nn A B)
      else if key == "rstdmul" then Givaro.Model.Poly.pad nn (Givaro.Model.Poly.stdmulR nn A B)
      else Givaro.Model.Poly.pad nn (Givaro.Model.Poly.karaStep (Givaro.Model.Poly.mulR thr fuel) nn A B)
    pure { spec := raw = want, model := raw = m, info := renderPoly m }
  | "rsqr" => do
    let A ← P 0; let raw ← r[0]? >>= parsePoly
    if A.isEmpty then pure { pre := false, spec := true } else
    let nn := 2 * A.length - 1
    let want : List K := ((smul A A) ++ zeros nn).take nn
    let m : List K := Givaro.Model.Poly.pad nn (Givaro.Model.Poly.sqrR thr (1 + 1) A.length A)
    pure { spec := raw = want, model := raw = m, info := renderPoly m }
  | "rmidmul" | "rstdmidmul" | "rkaramidmul" => do
    let n ← N 0; let A ← P 1; let B ← P 2; let raw ← r[0]? >>= parsePoly
    if B.isEmpty || A.length < B.length || n < 1 then pure { pre := false, spec := true } else
    let nn := n.toNat
    let want : List K := smulWindow A B (B.length - 1) nn
    let fuel := A.length + B.length
    let m : List K :=
      if key == "rmidmul" then Givaro.Model.Poly.pad nn (Givaro.Model.Poly.midR thr fuel nn A B)
      else if key == "rstdmidmul" then Givaro.Model.Poly.pad nn (Givaro.Model.Poly.stdmidmulR nn A B)
      else Givaro.Model.Poly.pad nn (Givaro.Model.Poly.karamidStep (Givaro.Model.Poly.midR thr fuel) nn A B)
    pure { spec := raw = want, model := raw = m, info := renderPoly m }
  -- interpolation / CRT through their defining identities
  | "interp" => do
    -- Interpolation<Domain> (givinterp.h): defining identity (values at the points, degree bound: `interp_unique`) and the
    -- model of the Newton / divided-difference object (`interp_exact`)
    let xs ← P 0; let fs ← P 1; let q ← RP 0
    if xs.length != fs.length || xs.eraseDups.length != xs.length then pure { pre := false, spec := true } else
    let ok := (xs.zip fs).all (fun (x, f) => seval q.1 x = f)
    let m := Givaro.Model.PolyInterp.interpolator (xs.zip fs)
    pure { spec := ok && decide (sdeg q.1 < xs.length) && degOk q, model := eqv m q.1, info := renderPoly (norm m) }
  | "crt" => do
    let xs ← P 0; let fs ← P 1; let q ← RP 0
    if xs.length != fs.length || xs.isEmpty || xs.eraseDups.length != xs.length then pure { pre := false, spec := true } else
    let ok := (xs.zip fs).all (fun (x, f) => seval q.1 x = f)
    let m := Givaro.Model.PolyCRT.rnsToRing thr xs fs
    pure { spec := ok && decide (sdeg q.1 < xs.length) && degOk q, model := eqv m q.1, info := renderPoly (norm m) }
  | "rtr" => do
    let xs ← P 0; let A ← P 1; let rs ← r[0]? >>= parsePoly
    pure { spec := rs = xs.map (fun x => seval A x), model := rs = Givaro.Model.PolyCRT.ringToRns xs A }
  | "padic_eval" => do
    let A ← P 0; let e ← r[0]? >>= parseHexInt
    let p : Nat := FieldIO.card K
    let val : Nat := A.foldr (fun c acc => ((parseHexNat (FieldIO.render c)).getD 0) + p * acc) 0
    let digs : List Nat := A.map (fun c => (parseHexNat (FieldIO.render c)).getD 0)
    pure { spec := e == (val : Int), model := e == (Givaro.Model.Padic.eval p digs : Int) }
  | "convertvec" => do
    let A ← P 0; let rs ← r[0]? >>= parsePoly
    pure { spec := rs = A }
  | "interpgeom" => do
    let A ← P 0; let n ← N 1; let q ← RP 0
    if n < 1 || (norm A).length > n.toNat then pure { pre := false, spec := true } else
    pure { spec := eqv q.1 A && degOk q }
  | "padic_eval64" => do
    let A ← P 0; let e ← r[0]? >>= parseHexInt
    let p : Nat := FieldIO.card K
    let digs : List Nat := A.map (fun c => (parseHexNat (FieldIO.render c)).getD 0)
    pure { spec := e == (Givaro.Model.Padic.eval p digs : Int) }
  | "padic_evaldirect" => do
    let A ← P 0; let e ← r[0]? >>= parseHexInt
    let p : Nat := FieldIO.card K
    let digs : List Nat := A.map (fun c => (parseHexNat (FieldIO.render c)).getD 0)
    if Givaro.Model.Padic.eval p digs ≥ 2 ^ 64 then pure { pre := false, spec := true } else
    pure { spec := e == (Givaro.Model.Padic.eval p digs : Int), model := e == (Givaro.Model.Padic.evalDirect p digs : Int) }
  | "padic_radixdirect" => do
    -- raw storage is the contract here: exactly n digits, not normalised
    let e ← a[0]? >>= parseHexNat; let n ← N 1; let raw ← (r[0]? >>= parsePoly : Option (List K))
    let p : Nat := FieldIO.card K
    if n < 0 || e ≥ 2 ^ 64 then pure { pre := false, spec := true } else
    let digs : List Nat := raw.map (fun c => (parseHexNat (FieldIO.render c)).getD 0)
    let m := Givaro.Model.Padic.radixDirect p n.toNat e
    pure { spec := digs.length == n.toNat && digs.all (fun d => d < p) && Givaro.Model.Padic.eval p digs == e % p ^ n.toNat,
           model := digs == m, info := toString m }
  | "padic_radixn" => do
    let e ← a[0]? >>= parseHexNat; let n ← N 1; let q ← RP 0
    let p : Nat := FieldIO.card K
    if n < 1 || e ≥ p ^ n.toNat then pure { pre := false, spec := true } else
    let val : Nat := q.1.foldr (fun c acc => ((parseHexNat (FieldIO.render c)).getD 0) + p * acc) 0
    let digs : List Nat := q.1.map (fun c => (parseHexNat (FieldIO.render c)).getD 0)
    let m := Givaro.Model.Padic.radixN p n.toNat e n.toNat
    pure { spec := val == e && q.1 = norm q.1 && degOk q, model := digs == m, info := toString m }
  | "padic_radix" => do
    let e ← a[0]? >>= parseHexNat; let q ← RP 0
    let p : Nat := FieldIO.card K
    let val : Nat := q.1.foldr (fun c acc => ((parseHexNat (FieldIO.render c)).getD 0) + p * acc) 0
    let digs : List Nat := q.1.map (fun c => (parseHexNat (FieldIO.render c)).getD 0)
    pure { spec := val == e && q.1 = norm q.1 && degOk q, model := digs == Givaro.Model.Padic.radix p e,
           info := toString (Givaro.Model.Padic.radix p e) }
  | _ => none

def verdict (thr : Nat) (key : String) (a r : Array String) (line : String) : String :=
  if r == #["CRASH"] || r == #["EXC"] || r == #["NOFUNC"] || r == #["NOFIELD"] then "BAD result | " ++ line else
  -- `al_<key>`: the same overload called in place (result object = polynomial operand): same contract
  let key := if key.startsWith "al_" then (key.drop 3).toString else key
  match polyCase (K := K) thr key a r with
  | none => "BAD parse | " ++ line
  | some v =>
    if !v.pre then "PRE"
    else if v.spec && v.model then "OK"
    else
      let kind := if !v.spec && !v.model then "BOTH" else if !v.spec then "SPEC" else "MODEL"
      s!"DIFF kind={kind} model={v.info} | {line}"

end

def polyLine (line : String) : String :=
  match splitLine line with
  | none => "BAD empty"
  | some (key, args, res) =>
    match args with
    | t :: f :: rest =>
      let line := line.trimAscii.toString
      match (if t.startsWith "t:" then parseHexNat (t.drop 2).toString else none) with
      | none => "BAD threshold | " ++ line
      | some thr =>
        if f == "Q" then verdict (K := Rat) thr key rest.toArray res.toArray line
        else if f.startsWith "p:" || f.startsWith "P:" then
          match parseHexNat (f.drop 2).toString with
          | some p => if p < 2 then "BAD field | " ++ line else verdict (K := Zp p) thr key rest.toArray res.toArray line
          | none => "BAD field | " ++ line
        else "BAD field | " ++ line
    | _ => "BAD args | " ++ line

end Driver.Poly
