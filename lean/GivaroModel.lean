-- Root of the `GivaroModel` library: models (core Lean only), specs, lemmas and property theorems.
import GivaroModel.Prim.Word
import GivaroModel.Prim.Gmp
import GivaroModel.Spec.IntegerSpec
import GivaroModel.Generated.IntegerOps
import GivaroModel.Generated.IntegerSpecs
import GivaroModel.Generated.IntegerThms
