-- Root of the `GivaroModel` library: models (core Lean only), specs, lemmas and property theorems.
import GivaroModel.Prim.Word
import GivaroModel.Prim.Gmp
import GivaroModel.Spec.IntegerSpec
import GivaroModel.Lemmas.GmpLemmas
import GivaroModel.Lemmas.IntegerTactics
import GivaroModel.Generated.IntegerThms
import GivaroModel.Props.C01
import GivaroModel.Props.C02
