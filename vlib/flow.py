"""The standard flow of a check whose model is hand-written and tied to the code by correspondence.

    V = report.Verdict(prop, tier, seed)
    L = flow.lean_stage(V, ["GivaroModel.Props.C07"], "GivaroModel/Props/C07.lean")      # theorems + audit
    bins = flow.build_harnesses("h_montgomery", configs=("S", "R"))                       # from /repo's working tree
    res = flow.correspond(bins, "montgomery", lines=None, harness_args=[tier, str(seed)]) # harness | driver
    flow.decide(V, res, known=report.findings_for(prop))
    flow.fill_coverage(V, L, res, rule="…")
    V.finish()

Driver verdict vocabulary (one verdict per harness output line):
    OK                         model, specification and implementation agree
    PRE                        the line is outside the property's precondition (not counted)
    DIFF kind=SPEC …  | line   the implementation's output is rejected by the specification  -> real failing input
    DIFF kind=BOTH …  | line   same, and the model differs from the implementation too
    DIFF kind=MODEL … | line   implementation meets the specification but differs from the model -> stale model
    BAD …             | line   protocol error
"""
import concurrent.futures as cf
import os
import re
import subprocess

from . import common, report

UB_NOTES = set()


# ------------------------------------------------------------------------------------------
def theorem_at(relfile, line, cache={}):
    p = os.path.join(common.LEAN_DIR, relfile)
    if p not in cache:
        try:
            with open(p) as fh:
                cache[p] = fh.read().split("\n")
        except OSError:
            cache[p] = []
    src = cache[p]
    i = min(line, len(src))
    while i > 0 and not re.match(r"\s*(?:@\[[^\]]*\]\s*)?(?:private |protected )?(theorem|lemma|example|def|instance)\b", src[i - 1]):
        i -= 1
    if i > 0:
        m = re.match(r"\s*(?:@\[[^\]]*\]\s*)?(?:private |protected )?(?:theorem|lemma|def|instance)\s+(\S+)", src[i - 1])
        return m.group(1) if m else "example@%d" % i
    return "?"


def lean_stage(V, modules, props_relpath, extra_theorem_files=()):
    """Build `modules` (+ the driver), audit the property theorems.  Records violations in V.
    Returns dict(ok, theorems, proved, failing, t)."""
    ok, out, t = common.lake_build(list(modules) + ["driver"])
    thms = common.theorems_in(props_relpath)
    for f in extra_theorem_files:
        thms += common.theorems_in(f)
    failing = {}
    if not ok:
        for f, ln, col, msg in common.lean_errors(out):
            failing.setdefault("%s:%s" % (f, theorem_at(f, ln)), msg)
        V.violation("lean_build", {"obligation": "lake build " + " ".join(modules),
                                   "what": "a proof obligation no longer checks (theorem or model does not elaborate)",
                                   "failing": failing or out[-3000:]}, no_failing_input=True)
    proved = 0
    ax_bad = {}
    if ok:
        # audit every theorem of the property file(s); the module to import is derived from each file's path
        axs = {}
        for rel in [props_relpath] + list(extra_theorem_files):
            names = common.theorems_in(rel)
            a_, missing, txt = common.print_axioms(rel[:-5].replace("/", "."), names)
            axs.update(a_)
        for n in thms:
            a = axs.get(n)
            if a is None:
                ax_bad[n] = ["<not found by #print axioms>"]
            elif a - common.ALLOWED_AXIOMS:
                ax_bad[n] = sorted(a - common.ALLOWED_AXIOMS)
            else:
                proved += 1
    forb = common.grep_forbidden()
    if forb:
        V.violation("audit_forbidden", {"obligation": "no sorry/admit/native_decide/bv_decide/implemented_by/unsafe/axiom in the Lean library",
                                        "hits": forb[:50]}, no_failing_input=True)
    if ax_bad:
        V.violation("audit_axioms", {"obligation": "axioms of every property theorem ⊆ {propext, Classical.choice, Quot.sound}",
                                     "theorems": ax_bad}, no_failing_input=True)
    rechecked = {}
    if ok and V.tier == "thorough":
        rechecked = common.leancheck(modules)
        bad = {m: o for m, (k, o) in rechecked.items() if not k}
        if bad:
            V.violation("audit_leanchecker", {"obligation": "leanchecker (independent kernel re-check of the compiled .olean files) accepts every module the property depends on",
                                               "modules": bad}, no_failing_input=True)
        V.note("leanchecker re-checked %d modules: %s" % (len(rechecked), ", ".join(sorted(rechecked))))
    return dict(ok=ok, theorems=thms, proved=proved, failing=failing, t=t, audit_ok=not (forb or ax_bad) and all(k for k, _ in rechecked.values()),
                out=out, leanchecked=sorted(rechecked))


# ------------------------------------------------------------------------------------------
def build_harnesses(name, configs=("S",), extra=(), link_lib=True, cxx="g++"):
    with cf.ThreadPoolExecutor(len(configs)) as ex:
        futs = {c: ex.submit(common.build_harness, name, c, list(extra), link_lib, cxx) for c in configs}
        return {c: f.result() for c, f in futs.items()}


def default_timeout():
    """A harness that loops forever on a broken tree must not hold a quick check for an hour."""
    return 1500 if os.environ.get("VERIF_TIER", "quick") == "quick" else 7200


def clamp_timeout(timeout):
    dt = default_timeout()
    return min(timeout or dt, dt) if os.environ.get("VERIF_TIER", "quick") == "quick" else (timeout or dt)


def run_harness(binp, lines=None, args=(), timeout=None, env_extra=None):
    """Run one harness.  lines: input lines (or None when the harness generates its own cases from args).
    Returns (output_lines, crash or None).  A crash is attributed to the first input line without output."""
    timeout = clamp_timeout(timeout)
    env = dict(os.environ)
    env["ASAN_OPTIONS"] = "detect_leaks=0:abort_on_error=0:allocator_may_return_null=1"
    env["UBSAN_OPTIONS"] = "print_stacktrace=0"
    if env_extra:
        env.update(env_extra)
    inp = ("\n".join(lines) + "\n") if lines is not None else ""
    try:
        p = subprocess.run([binp] + list(args), input=inp, stdout=subprocess.PIPE, stderr=subprocess.PIPE, text=True,
                           timeout=timeout, env=env, errors="replace")
    except subprocess.TimeoutExpired as e:
        out = (e.stdout or b"")
        out = out.decode(errors="replace") if isinstance(out, bytes) else out
        return [l for l in out.split("\n") if l], {"line": None, "returncode": "timeout", "stderr": "harness timed out after %ss" % timeout}
    out = [l for l in p.stdout.split("\n") if l]
    for m in re.finditer(r"^(\S+:\d+:\d+: runtime error: .*)$", p.stderr, re.M):
        UB_NOTES.add(m.group(1)[:300])
    if p.returncode == 0:
        return out, None
    crash = {"returncode": p.returncode, "stderr": p.stderr[-3000:], "last_output": out[-3:]}
    if lines is not None:
        idx = len(out)
        crash["line"] = lines[idx] if idx < len(lines) else None
        rest = lines[idx + 1:]
        if rest and idx < len(lines):
            more, c2 = run_harness(binp, rest, args, timeout, env_extra)
            out += more
            if c2 is not None:
                crash.setdefault("more", []).append({k: c2[k] for k in ("line", "returncode") if k in c2})
    return out, crash


def run_driver(mode, lines, timeout=None):
    timeout = clamp_timeout(timeout)
    p = subprocess.run([common.driver_path(), mode], input="\n".join(lines) + "\n", stdout=subprocess.PIPE,
                       stderr=subprocess.PIPE, text=True, timeout=timeout)
    if p.returncode != 0:
        raise RuntimeError("driver failed (mode %s): %s" % (mode, p.stderr[-2000:]))
    return [l for l in p.stdout.split("\n") if l]


def correspond(bins, mode, lines=None, harness_args=(), timeout=None, env_extra=None):
    """Run every harness build on the same inputs, feed all outputs to the driver.
    Returns dict(results=[(verdict, line, cfg)], crashes=[...])."""
    results, crashes = [], []
    for cfg, binp in bins.items():
        hout, crash = run_harness(binp, lines, harness_args, timeout, env_extra)
        if crash is not None:
            crash["config"] = cfg
            crashes.append(crash)
        verdicts = run_driver(mode, hout, timeout) if hout else []
        if len(verdicts) != len(hout):
            crashes.append({"config": cfg, "line": None, "returncode": "driver", "stderr": "driver printed %d verdicts for %d lines" % (len(verdicts), len(hout))})
        for v, l in zip(verdicts, hout):
            results.append((v, l, cfg))
    return dict(results=results, crashes=crashes)


def decide(V, res, known=(), key_of=lambda line: line.split(" ", 1)[0], classify_known=None):
    """Turn driver verdicts into VIOLATION / KNOWN-FINDING records.

    known: entries of known_findings.json for this property; an entry matches a failing line when
    `classify_known(entry, line, verdict)` is true (default: entry["match"] is a regex on the line)."""
    if classify_known is None:
        def classify_known(entry, line, verdict):
            return bool(entry.get("match")) and re.search(entry["match"], line) is not None
    by_key = {}
    n = {"OK": 0, "PRE": 0, "DIFF": 0, "BAD": 0}
    known_hit = {}
    for v, l, cfg in res["results"]:
        if v == "OK":
            n["OK"] += 1
        elif v == "PRE":
            n["PRE"] += 1
        elif v.startswith("DIFF"):
            n["DIFF"] += 1
            e = next((e for e in known if classify_known(e, l, v)), None)
            if e is not None and ("kind=SPEC" in v or "kind=BOTH" in v):
                known_hit.setdefault(e["id"], (e, l))
                continue
            by_key.setdefault(key_of(l), []).append((v, l, cfg))
        else:
            n["BAD"] += 1
            by_key.setdefault("protocol", []).append((v, l, cfg))
    for eid, (e, l) in sorted(known_hit.items()):
        V.known_finding("%s (%s; e.g. %s)" % (e.get("what", eid), eid, l[:160]))
    for k, items in sorted(by_key.items()):
        spec_items = [x for x in items if "kind=SPEC" in x[0] or "kind=BOTH" in x[0]]
        pick = sorted(spec_items or items, key=lambda x: len(x[1]))
        seen, short = set(), []
        for x in pick:
            if x[1] not in seen:
                seen.add(x[1])
                short.append(x)
            if len(short) == 5:
                break
        name = re.sub(r"\W+", "_", k)[:60]
        if k == "protocol":
            V.violation("protocol", {"obligation": "line protocol harness/driver", "lines": [l for _, l, _ in short],
                                     "driver": [v for v, _, _ in short]}, no_failing_input=True)
        elif spec_items:
            V.violation("impl_" + name, {"obligation": "correspondence: implementation vs specification (%s)" % k,
                                         "what": "the implementation's output is rejected by the specification / verified checker",
                                         "lines": [l for _, l, _ in short], "driver": [v for v, _, _ in short],
                                         "configs": sorted({c for _, _, c in short})})
        else:
            V.violation("corr_" + name, {"obligation": "correspondence: model vs implementation (%s)" % k,
                                         "what": "the implementation meets the specification on every generated input but differs from the model: "
                                                 "the theorems no longer speak about this code",
                                         "lines": [l for _, l, _ in short], "driver": [v for v, _, _ in short]}, no_failing_input=True)
    for c in res["crashes"]:
        V.violation("crash", {"obligation": "harness run", "what": "the implementation crashed, timed out or aborted under the sanitizers",
                              "lines": [c.get("line")], "detail": c})
    return n


def fill_coverage(V, L, res, counts, rule, extra=None, nontrivial=None):
    lines = [l for _, l, _ in res["results"]]
    if nontrivial is None:
        def nontrivial(l):
            toks = l.split(" = ")[0].split(" ")[1:]
            return any(t not in ("0", "1") for t in toks)
    distinct = {l.split(" = ")[0] for l in lines if nontrivial(l)}
    step = max(1, len(lines) // 12)
    cov = {
        "obligations": len(L["theorems"]) + 1,
        "discharged": L["proved"] + (1 if L["audit_ok"] else 0),
        "checker_cmd": "lake build <property modules> driver && #print axioms on every theorem of the property file (vlib/flow.py lean_stage)",
        "trusted_base": report.TRUSTED_BASE_COMMON + V.assumptions,
        "property_theorems": L["theorems"],
        "evaluations": len(lines),
        "distinct_nontrivial": len(distinct),
        "rule": rule,
        "samples": lines[::step][:12],
        "traces_validated_against_impl": counts.get("OK", 0),
        "precondition_rejected": counts.get("PRE", 0),
        "disagreements": counts.get("DIFF", 0),
        "undefined_behaviour_notes": sorted(UB_NOTES)[:40],
        "timing_s": {"lean": round(L["t"], 1)},
    }
    if extra:
        cov.update(extra)
    V.coverage = cov
