"""Shared machinery for the givaro verification checks.

Everything is derived from this file's location (VERIF) and from /repo's *working tree*
(REPO, overridable with VERIF_REPO for experiments on scratch worktrees).  Build products
live under VERIF/.cache (git-ignored) and are keyed by content hashes, so a check always
rebuilds what depends on a changed source file and never reuses a stale object.
"""
import concurrent.futures as cf
import hashlib
import json
import os
import re
import shutil
import subprocess
import sys
import time

VERIF = os.path.dirname(os.path.dirname(os.path.abspath(__file__)))
REPO = os.environ.get("VERIF_REPO", "/repo")
CACHE = os.path.join(VERIF, ".cache")
LEAN_DIR = os.path.join(VERIF, "lean")
# a run against another tree (VERIF_REPO=…, used to try seeded changes) must not overwrite the evidence of /repo
_ALT = os.path.abspath(REPO) != "/repo" or bool(os.environ.get("VERIF_COVERAGE"))   # such runs never touch the committed evidence
EVIDENCE_DIR = os.path.join(CACHE, "alt_evidence") if _ALT else os.path.join(VERIF, "evidence")
REPLAY_DIR = os.path.join(CACHE, "alt_replays") if _ALT else os.path.join(VERIF, "replays")   # runs against another tree (VERIF_REPO) never touch the committed dirs
NCPU = os.cpu_count() or 4

GUARD = "GIVARO_VERIF"

# configuration S: portable + sanitizers ; configuration R: the repository's own flags
CFG = {
    "S": ["-std=gnu++17", "-O1", "-g", "-DNDEBUG", "-UDEBUG", "-fsanitize=address,undefined",
          "-D" + GUARD, "-Wno-deprecated-declarations"],
    "R": ["-std=gnu++17", "-O2", "-march=native", "-DNDEBUG", "-UDEBUG", "-D" + GUARD,
          "-Wno-deprecated-declarations"],
    # T: ThreadSanitizer (use with cxx="clang++-14")
    "T": ["-std=gnu++17", "-O1", "-g", "-DNDEBUG", "-UDEBUG", "-fsanitize=thread", "-D" + GUARD, "-Wno-deprecated-declarations", "-w"],
    # plain: no sanitizers, moderate optimisation (fast to build; for heavy template harnesses)
    "P": ["-std=gnu++17", "-O1", "-DNDEBUG", "-UDEBUG", "-D" + GUARD,
          "-Wno-deprecated-declarations"],
}


def log(*a):
    print(*a, file=sys.stderr, flush=True)


def sh(cmd, cwd=None, timeout=None, env=None, check=False, input=None):
    """Run a command, return (rc, stdout, stderr)."""
    p = subprocess.run(cmd, cwd=cwd, timeout=timeout, env=env, input=input,
                       stdout=subprocess.PIPE, stderr=subprocess.PIPE, text=True)
    if check and p.returncode != 0:
        raise RuntimeError("command failed: %s\n%s\n%s" % (cmd, p.stdout[-4000:], p.stderr[-4000:]))
    return p.returncode, p.stdout, p.stderr


def sha(*parts):
    h = hashlib.sha256()
    for p in parts:
        if isinstance(p, str):
            p = p.encode()
        h.update(p)
        h.update(b"\0")
    return h.hexdigest()[:20]


# ------------------------------------------------------------------------------------------
# source tree
# ------------------------------------------------------------------------------------------
SRC_EXT = (".h", ".inl", ".C", ".hpp")


def repo_sources():
    """All source files under REPO/src (real files only, symlink dirs not followed)."""
    out = []
    for base in ("src/kernel", "src/library"):
        for d, dirs, files in os.walk(os.path.join(REPO, base), followlinks=False):
            dirs[:] = [x for x in dirs if not os.path.islink(os.path.join(d, x))]
            for f in files:
                if f.endswith(SRC_EXT):
                    out.append(os.path.join(d, f))
    out.sort()
    return out


_tree_hash = None


def tree_hash():
    """Hash of every source file under REPO/src plus the config headers (content, not mtime)."""
    global _tree_hash
    if _tree_hash is None:
        h = hashlib.sha256()
        for f in repo_sources() + [os.path.join(REPO, "givaro-config.h"), os.path.join(REPO, "config.h")]:
            h.update(f.encode())
            try:
                with open(f, "rb") as fh:
                    h.update(fh.read())
            except OSError:
                h.update(b"<missing>")
        _tree_hash = h.hexdigest()[:20]
    return _tree_hash


def shadow_inc():
    """Build VERIF/.cache/inc: givaro/<every source file> -> REPO file, gmp++ and recint dirs.

    The in-tree autotools build leaves `givaro -> .` symlinks around; the shadow tree makes the
    harness build independent of them and of any stale object file."""
    inc = os.path.join(CACHE, "inc")
    giv = os.path.join(inc, "givaro")
    want = {}
    for f in repo_sources():
        rel = os.path.relpath(f, REPO)
        if "/gmp++/" in rel or "/recint/" in rel:
            continue
        want[os.path.basename(f)] = f
    os.makedirs(giv, exist_ok=True)
    have = set(os.listdir(giv))
    for name in have - set(want):
        os.unlink(os.path.join(giv, name))
    for name, target in want.items():
        p = os.path.join(giv, name)
        if os.path.islink(p) and os.readlink(p) == target:
            continue
        if os.path.lexists(p):
            os.unlink(p)
        os.symlink(target, p)
    for d in ("gmp++", "recint"):
        p = os.path.join(inc, d)
        t = os.path.join(REPO, "src/kernel", d)
        if not (os.path.islink(p) and os.readlink(p) == t):
            if os.path.lexists(p):
                os.unlink(p)
            os.symlink(t, p)
    # recint headers are also included as "recint/..." from givaro/ and givaro/recint.h exists? keep both
    return inc


def inc_flags():
    inc = shadow_inc()
    return ["-I", inc, "-I", os.path.join(inc, "givaro"), "-I", REPO]


LIB_SKIP = ("givvector.C", "gmp++_int.C")


def lib_sources():
    out = []
    for f in repo_sources():
        if f.endswith(".C") and os.path.basename(f) not in LIB_SKIP:
            out.append(f)
    return out


def _compile_one(args):
    cxx, flags, src, obj = args
    rc, o, e = sh([cxx] + flags + ["-c", src, "-o", obj])
    return rc, src, e


COVERAGE = bool(os.environ.get("VERIF_COVERAGE"))
if COVERAGE:      # tools/coverage.py: every configuration becomes one gcov-instrumented -O0 build (g++)
    for _k in list(CFG):
        CFG[_k] = ["-std=gnu++17", "-O0", "-g", "--coverage", "-DNDEBUG", "-UDEBUG", "-D" + GUARD, "-w", "-DVERIF_COVERAGE_BUILD"]


def lib_objects(cfg="S", extra=(), cxx="g++"):
    """Compile every library .C file of REPO's working tree; returns list of object files."""
    if COVERAGE:
        cxx = "g++"
    flags = CFG[cfg] + list(extra) + inc_flags()
    srcs = lib_sources()
    key = sha(tree_hash(), " ".join(CFG[cfg]), " ".join(extra), cxx, " ".join(srcs))
    odir = os.path.join(CACHE, "obj", key)
    stamp = os.path.join(odir, ".done")
    objs = [os.path.join(odir, os.path.basename(s)[:-2] + ".o") for s in srcs]
    if os.path.exists(stamp):
        return objs
    prune(os.path.join(CACHE, "obj"), keep=16)
    os.makedirs(odir, exist_ok=True)
    jobs = [(cxx, flags, s, o) for s, o in zip(srcs, objs)]
    with cf.ThreadPoolExecutor(NCPU) as ex:
        for rc, src, err in ex.map(_compile_one, jobs):
            if rc != 0:
                raise BuildError("library source %s does not compile:\n%s" % (src, err[-3000:]))
    open(stamp, "w").close()
    return objs


class BuildError(Exception):
    pass


def prune(d, keep=6):
    """Keep only the `keep` most recently used sub-directories of d (bounded cache)."""
    if not os.path.isdir(d):
        return
    def mtime(p):
        try:
            return os.path.getmtime(p)
        except OSError:          # removed meanwhile by a concurrent build (threads of one check, or another check)
            return 0.0
    try:
        subs = [os.path.join(d, x) for x in os.listdir(d)]
    except OSError:
        return
    subs = sorted((x for x in subs if os.path.isdir(x)), key=mtime, reverse=True)
    for p in subs[keep:]:
        shutil.rmtree(p, ignore_errors=True)


def build_harness(name, cfg="S", extra=(), link_lib=True, cxx="g++", srcdir=None, extra_srcs=()):
    """Compile VERIF/harness/<name>.cpp against REPO's working tree.  Returns path of binary."""
    srcdir = srcdir or os.path.join(VERIF, "harness")
    src = os.path.join(srcdir, name + ".cpp")
    if COVERAGE:
        cxx = "g++"
    hdrs = b""
    for f in sorted(os.listdir(srcdir)):
        if f.endswith((".h", ".inc")):
            with open(os.path.join(srcdir, f), "rb") as fh:
                hdrs += fh.read()
    extra_blob = b""
    for f in extra_srcs:
        with open(f, "rb") as fh:
            extra_blob += fh.read()
    with open(src, "rb") as fh:
        key = sha(tree_hash(), " ".join(CFG[cfg]), " ".join(extra), cxx, fh.read(), hdrs, extra_blob, str(link_lib))
    bdir = os.path.join(CACHE, "bin", key)
    binp = os.path.join(bdir, name)
    if os.path.exists(binp):
        os.utime(bdir)
        return binp
    prune(os.path.join(CACHE, "bin"), keep=40)
    os.makedirs(bdir, exist_ok=True)
    flags = CFG[cfg] + list(extra) + inc_flags() + ["-I", srcdir]
    objs = lib_objects(cfg, (), cxx) if link_lib else []
    cmd = [cxx] + flags + [src] + list(extra_srcs) + objs + ["-o", binp + ".tmp", "-lgmpxx", "-lgmp", "-lpthread"]
    rc, o, e = sh(cmd)
    if rc != 0:
        raise BuildError("harness %s does not compile against the current tree:\n%s" % (name, e[-6000:]))
    os.rename(binp + ".tmp", binp)
    return binp


# ------------------------------------------------------------------------------------------
# Lean
# ------------------------------------------------------------------------------------------
FORBIDDEN = re.compile(r"\b(sorry|admit|native_decide|bv_decide|implemented_by)\b|^\s*axiom\s|\bunsafe\s|maxHeartbeats\s+0\b")
ALLOWED_AXIOMS = {"propext", "Classical.choice", "Quot.sound"}


def strip_lean_comments(text):
    # remove block comments (nested) and line comments
    out = []
    i, depth, n = 0, 0, len(text)
    while i < n:
        if text.startswith("/-", i):
            depth += 1
            i += 2
        elif depth and text.startswith("-/", i):
            depth -= 1
            i += 2
        elif depth:
            if text[i] == "\n":
                out.append("\n")
            i += 1
        elif text.startswith("--", i):
            while i < n and text[i] != "\n":
                i += 1
        elif text[i] == '"':
            j = i + 1
            while j < n and text[j] != '"':
                j += 2 if text[j] == "\\" else 1
            out.append('""')
            i = j + 1
        else:
            out.append(text[i])
            i += 1
    return "".join(out)


def lean_files():
    out = []
    for d, dirs, files in os.walk(LEAN_DIR):
        dirs[:] = [x for x in dirs if x not in (".lake",)]
        for f in files:
            if f.endswith(".lean"):
                out.append(os.path.join(d, f))
    return sorted(out)


def grep_forbidden():
    hits = []
    for f in lean_files():
        with open(f) as fh:
            txt = strip_lean_comments(fh.read())
        for ln, line in enumerate(txt.split("\n"), 1):
            if FORBIDDEN.search(line):
                hits.append("%s:%d: %s" % (os.path.relpath(f, VERIF), ln, line.strip()[:120]))
    return hits


def lake_build(targets, timeout=3600):
    """lake build of the given targets; returns (ok, output)."""
    t0 = time.time()
    rc, o, e = sh(["lake", "build"] + list(targets), cwd=LEAN_DIR, timeout=timeout)
    return rc == 0, o + e, time.time() - t0


def lean_errors(output):
    """Parse `error: file:line:col: msg` records from lake/lean output."""
    errs = []
    for m in re.finditer(r"^error: (\S+?\.lean):(\d+):(\d+): (.*)$", output, re.M):
        errs.append((m.group(1), int(m.group(2)), int(m.group(3)), m.group(4)))
    return errs


def project_imports(module, seen=None):
    """Transitive closure of the `import GivaroModel.…` lines of a module of this project (the module itself included)."""
    seen = set() if seen is None else seen
    if module in seen:
        return seen
    path = os.path.join(LEAN_DIR, module.replace(".", "/") + ".lean")
    if not os.path.exists(path):
        return seen
    seen.add(module)
    with open(path) as fh:
        for line in fh:
            m = re.match(r"\s*import\s+(GivaroModel\.\S+)", line)
            if m:
                project_imports(m.group(1), seen)
            elif line.strip() and not line.startswith("import") and not line.startswith("--") and not line.startswith("/-"):
                if re.match(r"\s*(namespace|open|def|theorem|set_option|section|structure|inductive|abbrev|@\[|/--)", line):
                    break
    return seen


def leancheck(modules, jobs=4):
    """Re-check the compiled .olean of each module (and of every module of this project it imports) with `leanchecker`, the
    toolchain's independent kernel re-checker.  Returns {module: (ok, tail of output)}."""
    import concurrent.futures as cf
    todo = set()
    for m in modules:
        project_imports(m, todo)

    def one(m):
        rc, o, e = sh(["lake", "env", "leanchecker", m], cwd=LEAN_DIR, timeout=3600)
        return m, (rc == 0, (o + e)[-800:])
    with cf.ThreadPoolExecutor(jobs) as ex:
        return dict(ex.map(one, sorted(todo)))


def print_axioms(module, theorems):
    """Run `#print axioms` on each theorem; returns {theorem: set(axioms)} ."""
    if not theorems:
        return {}
    src = "import %s\n" % module + "".join("#print axioms %s\n" % t for t in theorems)
    tmp = os.path.join(CACHE, "audit_%s_%d.lean" % (module.replace(".", "_"), os.getpid()))
    os.makedirs(CACHE, exist_ok=True)
    with open(tmp, "w") as fh:
        fh.write(src)
    rc, o, e = sh(["lake", "env", "lean", tmp], cwd=LEAN_DIR, timeout=1800)
    os.unlink(tmp)
    res = {}
    txt = o + e
    # messages look like: 'Foo.bar' depends on axioms: [propext, Quot.sound]   or   does not depend on any axioms
    for m in re.finditer(r"'(\S+)' (depends on axioms: \[([^\]]*)\]|does not depend on any axioms)", txt, re.S):
        name = m.group(1)
        axs = set()
        if m.group(3):
            axs = {a.strip() for a in m.group(3).replace("\n", " ").split(",") if a.strip()}
        res[name] = axs
    missing = [t for t in theorems if t not in res]
    return res, missing, txt


def theorems_in(relpath):
    """Names of theorems declared in a Lean file (top-level `theorem name`)."""
    p = os.path.join(LEAN_DIR, relpath)
    with open(p) as fh:
        txt = strip_lean_comments(fh.read())
    names = []
    ns = []
    for line in txt.split("\n"):
        m = re.match(r"\s*namespace\s+(\S+)", line)
        if m:
            ns.append(m.group(1))
            continue
        m = re.match(r"\s*end\s+(\S+)", line)
        if m and ns and ns[-1] == m.group(1):
            ns.pop()
            continue
        m = re.match(r"\s*(?:@\[[^\]]*\]\s*)?(?:private\s+|protected\s+)?theorem\s+([^\s:({\[]+)", line)
        if m:
            names.append(".".join(ns + [m.group(1)]))
    return names


def driver_path():
    return os.path.join(LEAN_DIR, ".lake", "build", "bin", "driver")


# ------------------------------------------------------------------------------------------
# PRNG (splitmix64) -- every random choice of the python side derives from VERIF_SEED
# ------------------------------------------------------------------------------------------
class SplitMix:
    def __init__(self, seed):
        self.s = seed & 0xFFFFFFFFFFFFFFFF

    def next(self):
        self.s = (self.s + 0x9E3779B97F4A7C15) & 0xFFFFFFFFFFFFFFFF
        z = self.s
        z = ((z ^ (z >> 30)) * 0xBF58476D1CE4E5B9) & 0xFFFFFFFFFFFFFFFF
        z = ((z ^ (z >> 27)) * 0x94D049BB133111EB) & 0xFFFFFFFFFFFFFFFF
        return z ^ (z >> 31)

    def below(self, n):
        return self.next() % n

    def choice(self, xs):
        return xs[self.below(len(xs))]


def seed_from_env():
    try:
        return int(os.environ.get("VERIF_SEED", "1"))
    except ValueError:
        return 1
