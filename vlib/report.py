"""Evidence files, replay files, known findings, verdict printing -- shared by all checks."""
import json
import os
import time

from . import common


def load_known_findings():
    """known_findings.json (+ fragments known_findings.d/*.json, each a list of finding entries).  Committed; never written at run time."""
    p = os.path.join(common.VERIF, "known_findings.json")
    kf = {"findings": [], "fixed": []}
    if os.path.exists(p):
        with open(p) as fh:
            kf = json.load(fh)
    d = os.path.join(common.VERIF, "known_findings.d")
    if os.path.isdir(d):
        for f in sorted(os.listdir(d)):
            if f.endswith(".json"):
                with open(os.path.join(d, f)) as fh:
                    kf["findings"] += json.load(fh)
    return kf


def findings_for(prop):
    return [f for f in load_known_findings().get("findings", []) if f.get("property") == prop]


class Verdict:
    """Collects what a check found; prints KNOWN-FINDING / VIOLATION lines; writes evidence."""

    def __init__(self, prop, tier, seed, level="proof"):
        self.prop, self.tier, self.seed, self.level = prop, tier, seed, level
        self.t0 = time.time()
        self.violations = []      # (replay_path, no_failing_input)
        self.known = []           # text
        self.notes = []
        self.coverage = {}
        self.assumptions = []

    def replay_path(self, name):
        os.makedirs(common.REPLAY_DIR, exist_ok=True)
        return os.path.join(common.REPLAY_DIR, "%s_%s.json" % (self.prop, name))

    def violation(self, name, payload, no_failing_input=False):
        """payload: dict describing the failing input (or the obligation that no longer checks)."""
        p = self.replay_path(name)
        payload = dict(payload)
        payload.setdefault("property", self.prop)
        payload["no_failing_input_found"] = bool(no_failing_input)
        with open(p, "w") as fh:
            json.dump(payload, fh, indent=1, default=str)
        self.violations.append((p, no_failing_input))

    def known_finding(self, text):
        self.known.append(text)

    def note(self, text):
        self.notes.append(text)

    def finish(self, exit_process=True):
        for k in self.known:
            print("KNOWN-FINDING: property=%s %s" % (self.prop, k), flush=True)
        seen = set()
        for p, nf in self.violations:
            if p in seen:
                continue
            seen.add(p)
            rel = os.path.relpath(p, common.VERIF)
            print("VIOLATION property=%s replay=%s%s" % (self.prop, rel, " no-failing-input-found" if nf else ""), flush=True)
        cov = dict(self.coverage)
        cov.setdefault("notes", self.notes)
        cov["known_findings_reported"] = self.known
        ev = {
            "property_id": self.prop,
            "tier": self.tier,
            "seed": int(self.seed),
            "level": self.level,
            "coverage": cov,
            "assumptions": self.assumptions,
            "wall_s": round(time.time() - self.t0, 2),
            "violations": len(seen),
        }
        os.makedirs(common.EVIDENCE_DIR, exist_ok=True)
        with open(os.path.join(common.EVIDENCE_DIR, "%s.json" % self.prop), "w") as fh:
            json.dump(ev, fh, indent=1, default=str)
        rc = 1 if seen else 0
        if exit_process:
            raise SystemExit(rc)
        return rc


TRUSTED_BASE_COMMON = [
    "Lean 4.33.0 kernel; axioms allowed: propext, Classical.choice, Quot.sound (audited with #print axioms on every property theorem each run)",
    "no sorry/admit/native_decide/bv_decide/implemented_by/unsafe/axiom in the library (grep audit each run)",
]
