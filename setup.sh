#!/bin/sh
# Build the framework from files on disk only (offline): regenerate the translated models from
# /repo's working tree, build the whole Lean library and the driver, warm the harness cache.
set -e
cd "$(dirname "$0")"
python3 translate/gen_integer.py > /dev/null
python3 translate/footprint.py > /dev/null 2>&1 || true
python3 -c "import sys; sys.path.insert(0,'.'); from checks import c17_tables; c17_tables.write_lean()" > /dev/null 2>&1 || true
python3 translate/gen_primes.py > /dev/null 2>&1 || true
python3 translate/gen_smf.py > /dev/null 2>&1 || true
python3 translate/gen_smf_domains.py > /dev/null 2>&1 || true
python3 translate/gen_rational.py > /dev/null 2>&1 || true
python3 translate/aliasfp.py > /dev/null 2>&1 || true
python3 -m vlib.genroot
cd lean
lake build GivaroModel driver 2>&1 | grep -E "^(error|✖)|Build completed|build failed" || true
test -x .lake/build/bin/driver
