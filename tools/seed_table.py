#!/usr/bin/env python3
"""tools/seed_table.py  -- rewrite the table between `<!-- seeded-table-begin -->` and `<!-- seeded-table-end -->` in DESIGN.md
from seeded/*/meta.json (one row per stored seeded change: what it is, what it needs, which check reported it and how)."""
import glob
import json
import os
import re

HERE = os.path.dirname(os.path.dirname(os.path.abspath(__file__)))


def cell(s, n):
    s = re.sub(r"\s+", " ", str(s or "")).replace("|", "\\|").strip()
    return s if len(s) <= n else s[:n - 1].rstrip() + "…"


def key(d):
    m = re.match(r"(C\d+)-([mwx])(\d+)", os.path.basename(d))
    return (m.group(1), m.group(2), int(m.group(3))) if m else (os.path.basename(d), "", 0)


rows = []
stats = {"total": 0, "detected": 0, "concrete": 0, "confirmed": 0}
for d in sorted(glob.glob(os.path.join(HERE, "seeded", "C*-[mwx]*")), key=key):
    try:
        m = json.load(open(os.path.join(d, "meta.json")))
    except Exception:
        continue
    det = m.get("detected_by") or []
    if isinstance(det, str):        # first-generation meta files (C01/C02): free text
        det = [det]
        m["detection"] = {det[0]: ["VIOLATION property=%s replay=replays/%s_%s.json" % (det[0], det[0], re.split(r"[ :(]", str(m.get("detection", "")))[0])]}
    lines = [l for p in det for l in m.get("detection", {}).get(p, []) if l.startswith("VIOLATION")]
    concrete = [l for l in lines if "no-failing-input-found" not in l]
    names = sorted({re.sub(r"^replays/C\d+_", "", l.split("replay=")[1].split()[0]).replace(".json", "") for l in (concrete or lines)})
    how = ", ".join(det) + (": " + ", ".join("`%s`" % n for n in names[:3]) + (" …" if len(names) > 3 else "") if det else "")
    if det and not concrete:
        how += " (no-failing-input-found)"
    if not det:
        how = m.get("not_detected_note", "**not detected**")
    conf = m.get("integrator_confirmation", {})
    stats["total"] += 1
    stats["detected"] += bool(det)
    stats["concrete"] += bool(concrete)
    stats["confirmed"] += bool(conf.get("confirmed"))
    rows.append("| %s | %s | %s | %s | %s |" % (os.path.basename(d), cell(m.get("summary"), 230), cell(m.get("needs"), 200), how,
                                               "yes" if conf.get("confirmed") else ("no: " + cell(json.dumps(conf), 80) if conf else "agent only")))

table = ["| id | change | needs | reported by (replay names) | 69 tests pass + demo fails/passes re-confirmed |", "|---|---|---|---|---|"] + rows
table.append("")
table.append("Totals: %(total)d stored changes, %(detected)d reported by a registered check, %(concrete)d with a concrete failing input as replay, "
             "%(confirmed)d re-confirmed by `tools/confirm_seed.py` (patch applies, library builds, 69/69 tests pass with it, demo fails with it and passes without)." % stats)
p = os.path.join(HERE, "DESIGN.md")
s = open(p).read()
b, e = "<!-- seeded-table-begin -->", "<!-- seeded-table-end -->"
if b in s and e in s:
    s = s[:s.index(b) + len(b)] + "\n" + "\n".join(table) + "\n" + s[s.index(e):]
    open(p, "w").write(s)
    print("DESIGN.md updated:", stats)
else:
    print("\n".join(table))
