#!/usr/bin/env python3
"""tools/collect_seed_meta.py <clone> [<prefix> …]  -- copy the seeded/*/meta.json that a staging clone's rerun produced into /verif/seeded,
keeping the integrator_confirmation already recorded there."""
import glob, json, os, sys
clone = sys.argv[1]
pref = sys.argv[2:]
n = 0
for f in sorted(glob.glob(os.path.join(clone, "seeded", "C*-[mw]*", "meta.json"))):
    name = os.path.basename(os.path.dirname(f))
    if pref and not any(name.startswith(p) for p in pref):
        continue
    dst = os.path.join("/verif/seeded", name, "meta.json")
    if not os.path.exists(dst):
        continue
    a, b = json.load(open(f)), json.load(open(dst))
    if a.get("confirmed_by_integrator") == b.get("confirmed_by_integrator"):
        continue
    if "integrator_confirmation" in b:
        a["integrator_confirmation"] = b["integrator_confirmation"]
    json.dump(a, open(dst, "w"), indent=1)
    n += 1
print("updated", n)
