#!/usr/bin/env python3
"""tools/run_seeds.py <Cxx> <base_commit> [<other props to run too> …]
Runs the registered checks against every seeded change /tmp/seed_<Cxx>_out/m<i> (tools/try_seed.py) and stores the change with what
detected it under /verif/seeded/<Cxx>-m<i>/ (patch.diff, demo.cpp, demo.sh, meta.json)."""
import json, os, shutil, subprocess, sys, glob, datetime
HERE = os.path.dirname(os.path.dirname(os.path.abspath(__file__)))

prop, base, others = sys.argv[1], sys.argv[2], sys.argv[3:]
src = os.environ.get("SEED_SRC") or "/tmp/seed_%s_out" % prop
tag = os.environ.get("SEED_TAG", "m")      # wave 1: <Cxx>-m<i>; wave 2 (SEED_TAG=w): <Cxx>-w<i>
for d in sorted(glob.glob(src + "/m*")):
    i = os.path.basename(d)
    if os.environ.get("SEED_ONLY") and i not in os.environ["SEED_ONLY"].split(","):
        continue
    r = subprocess.run(["python3", os.path.join(HERE, "tools", "try_seed.py"), d, base, prop] + others, stdout=subprocess.PIPE, stderr=subprocess.STDOUT, text=True)
    out = r.stdout
    res = {}
    for l in out.split("\n"):
        if l.startswith("{"):
            try:
                res = json.loads(l)
            except Exception:
                pass
    dst = "/verif/seeded/%s-%s%s" % (prop, tag, i[1:])
    os.makedirs(dst, exist_ok=True)
    for f in ("patch.diff", "demo.cpp", "demo.sh"):
        if os.path.exists(os.path.join(d, f)):
            shutil.copy(os.path.join(d, f), dst)
    try:
        meta = json.load(open(os.path.join(d, "meta.json")))
    except Exception:
        meta = {"property": prop}
    used = res.pop("_base", base)      # tools/try_seed.py judges on /repo's HEAD when the patch applies there
    det = [p for p, v in res.items() if v.get("rc") == 1 and any(x.startswith("VIOLATION") for x in v.get("lines", []))]
    try:
        old = json.load(open(os.path.join(dst, "meta.json")))
        if "integrator_confirmation" in old:
            meta["integrator_confirmation"] = old["integrator_confirmation"]
    except Exception:
        pass
    meta.setdefault("written_against", meta.get("base_commit", base))
    meta["base_commit"] = used
    meta["confirmed_by_integrator"] = "patch applied to a scratch worktree at %s; `tools/try_seed.py seeded/%s-%s %s %s` on %s" % (
        used, prop, tag + i[1:], used, " ".join([prop] + others), datetime.datetime.utcnow().strftime("%Y-%m-%d %H:%M UTC"))
    meta["detected_by"] = det
    meta["detection"] = {p: v.get("lines", [])[:4] for p, v in res.items()}
    # first concrete replay lines, for the record
    ex = [l.strip() for l in out.split("\n") if l.strip().startswith("['")]
    meta["example_replay_lines"] = ex[:3]
    json.dump(meta, open(os.path.join(dst, "meta.json"), "w"), indent=1)
    concrete = any("no-failing-input-found" not in x for v in res.values() for x in v.get("lines", []) if x.startswith("VIOLATION"))
    print("%s-%s: detected_by=%s concrete_replay=%s | %s" % (prop, tag + i[1:], det, concrete, (meta.get("summary") or "")[:110]))
