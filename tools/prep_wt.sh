#!/bin/sh
# usage: prep_wt.sh <dir> [<commit>]  -- create a buildable scratch worktree of /repo (HEAD or <commit>) at <dir>
set -e
d="$1"
git -C /repo worktree add -q --detach "$d" "${2:-HEAD}"
rsync -a --ignore-existing --exclude .git --exclude '*.o' --exclude '*.lo' --exclude '*.la' --exclude '.libs' --exclude '.deps' --exclude 'Makefile' --exclude 'config.status' --exclude 'config.log' --exclude 'libtool' --exclude 'givaro-config.h' --exclude 'config.h' --exclude 'stamp-h1' --exclude 'tests/test-*[a-z0-9]' /repo/ "$d"/
cd "$d" && ./configure --quiet >/dev/null 2>&1
echo "ready: $d  (build: make -j8 ; tests: make -C tests -j8 check)"
