#!/usr/bin/env python3
"""Run registered checks against a seeded breaking change.

  tools/try_seed.py <seed_dir> <base_commit> <prop> [<prop> …]

Creates a scratch worktree of /repo at <base_commit> under /tmp, applies <seed_dir>/patch.diff, runs `./check <prop>` with
VERIF_REPO pointing at it, prints the VIOLATION lines, removes the worktree.  Nothing is ever committed to /repo."""
import json
import os
import shutil
import subprocess
import sys
import tempfile

HERE = os.path.dirname(os.path.dirname(os.path.abspath(__file__)))


def main():
    seed, base, props = sys.argv[1], sys.argv[2], sys.argv[3:]
    # the checks mirror /repo's HEAD (every repaired defect included): a change is judged on HEAD whenever its patch still applies
    # there, so that everything reported is due to the change; otherwise on the commit it was written against
    patch = os.path.abspath(os.path.join(seed, "patch.diff"))
    if subprocess.run(["git", "-C", "/repo", "apply", "--check", patch], stdout=subprocess.DEVNULL, stderr=subprocess.DEVNULL).returncode == 0:
        base = subprocess.run(["git", "-C", "/repo", "rev-parse", "--short", "HEAD"], stdout=subprocess.PIPE, text=True).stdout.strip()
    print("base", base)
    wt = tempfile.mkdtemp(prefix="seedwt_", dir="/tmp")
    os.rmdir(wt)
    subprocess.run(["git", "-C", "/repo", "worktree", "add", "-q", "--detach", wt, base], check=True)
    res = {}
    try:
        for f in ("givaro-config.h", "config.h"):
            shutil.copy(os.path.join("/repo", f), os.path.join(wt, f))
        subprocess.run(["git", "-C", wt, "apply", os.path.abspath(os.path.join(seed, "patch.diff"))], check=True)
        for p in props:
            env = dict(os.environ, VERIF_REPO=wt)
            r = subprocess.run([os.path.join(HERE, "check"), p], env=env, stdout=subprocess.PIPE, stderr=subprocess.STDOUT, text=True, cwd=HERE)
            viol = [l for l in r.stdout.split("\n") if l.startswith("VIOLATION") or l.startswith("KNOWN-FINDING")]
            # concrete replays first, known findings last (only the first 12 lines are kept)
            viol.sort(key=lambda l: (l.startswith("KNOWN-FINDING"), "no-failing-input-found" in l))
            res[p] = {"rc": r.returncode, "lines": viol[:12]}
            print(p, "rc=%d" % r.returncode)
            for l in viol[:12]:
                print("   ", l)
                if "replay=" in l:
                    rp = l.split("replay=")[1].split()[0]
                    try:
                        with open(os.path.join(HERE, rp)) as fh:
                            j = json.load(fh)
                        print("        ", str([str(x)[:160] for x in (j.get("lines") or [j.get("obligation")])[:2]]))
                    except Exception:
                        pass
    finally:
        subprocess.run(["git", "-C", "/repo", "worktree", "remove", "--force", wt])
    res["_base"] = base
    print(json.dumps(res))


if __name__ == "__main__":
    main()
