#!/usr/bin/env python3
"""tools/run_harmless.py <base_commit> <h-dir> [<h-dir> …]  -- false-alarm test: run the registered checks of the properties a
behaviour-preserving change touches (meta.json: properties_nearby) against a scratch worktree of /repo with that change applied.
Expected: every check exits 0 without a VIOLATION line.  Results are stored under seeded/harmless/<name>/ (patch.diff, meta.json)."""
import datetime
import json
import os
import shutil
import subprocess
import sys

HERE = os.path.dirname(os.path.dirname(os.path.abspath(__file__)))
base = sys.argv[1]
for d in sys.argv[2:]:
    name = os.path.basename(d.rstrip("/"))
    meta = json.load(open(os.path.join(d, "meta.json")))
    props = [p for p in meta.get("properties_nearby", []) if os.path.exists(os.path.join(HERE, "checks", p.lower() + ".py"))]
    r = subprocess.run(["python3", os.path.join(HERE, "tools", "try_seed.py"), d, base] + props, stdout=subprocess.PIPE, stderr=subprocess.STDOUT, text=True)
    res = {}
    for l in r.stdout.split("\n"):
        if l.startswith("{"):
            try:
                res = json.loads(l)
            except Exception:
                pass
    res.pop("_base", None)
    dst = os.path.join("/verif/seeded/harmless", name)
    os.makedirs(dst, exist_ok=True)
    shutil.copy(os.path.join(d, "patch.diff"), dst)
    meta["base_commit"] = base
    meta["checks_run"] = props
    meta["run"] = "tools/run_harmless.py %s on %s" % (base, datetime.datetime.utcnow().strftime("%Y-%m-%d %H:%M UTC"))
    meta["results"] = {p: {"rc": v.get("rc"), "lines": [x for x in v.get("lines", []) if x.startswith("VIOLATION")][:6]} for p, v in res.items()}
    alarms = [p for p, v in meta["results"].items() if v["rc"] != 0 or v["lines"]]
    meta["alarms"] = alarms
    if not res:
        meta["error"] = r.stdout[-1500:]
    json.dump(meta, open(os.path.join(dst, "meta.json"), "w"), indent=1)
    print("%s: checks=%s alarms=%s | %s" % (name, props, alarms, (meta.get("summary") or "")[:100]), flush=True)
    for p in alarms:
        for x in meta["results"][p]["lines"][:3]:
            print("      ", x, flush=True)
