#!/usr/bin/env python3
"""tools/confirm_seed.py <Cxx> [<wt>]  -- the integrator's own confirmation of every stored seeded change seeded/<Cxx>-m<i>:

  1. the patch applies to the scratch worktree <wt> (default: the path named in demo.sh, `R=…`), the library builds,
     and the unedited 69-test suite passes with it;
  2. demo.sh fails (non-zero exit) with the patch;
  3. demo.sh passes (exit 0) on the unchanged tree.

The outcome is written into seeded/<Cxx>-m<i>/meta.json under "integrator_confirmation".  The worktree is left clean (no patch) and
rebuilt.  Nothing is done in /repo."""
import glob
import json
import os
import re
import subprocess
import sys

HERE = os.path.dirname(os.path.dirname(os.path.abspath(__file__)))
J = "-j%s" % os.environ.get("SEED_JOBS", "8")


def sh(cmd, cwd=None, timeout=3600):
    p = subprocess.run(cmd, shell=True, cwd=cwd, stdout=subprocess.PIPE, stderr=subprocess.STDOUT, text=True, timeout=timeout)
    return p.returncode, p.stdout


def build(wt):
    rc, out = sh("make %s 2>&1 | tail -5" % J, cwd=wt)
    rc2, _ = sh("test -f src/.libs/libgivaro.a", cwd=wt)
    return rc2 == 0 and "Error" not in out, out


def main():
    prop = sys.argv[1]
    for d in sorted(glob.glob(os.path.join(HERE, "seeded", prop + "-" + os.environ.get("SEED_TAG", "m") + "*"))):
        demo = os.path.join(d, "demo.sh")
        meta_p = os.path.join(d, "meta.json")
        meta = json.load(open(meta_p))
        wt = sys.argv[2] if len(sys.argv) > 2 else None
        if wt is None and os.path.exists(demo):
            txt = open(demo).read()
            m = re.search(r"^\s*(?:export\s+)?[A-Za-z_]+=\"?(\$\{[A-Za-z_]+:-)?(/tmp/seed[0-9]*_C[0-9]+)\b", txt, re.M) or re.search(r"(/tmp/seed[0-9]*_C[0-9]+)\b(?!_out)", txt)
            wt = m.group(m.lastindex) if m else None
            if wt and wt.startswith("${"):
                m = re.search(r":-([^}]+)\}", wt)
                wt = m.group(1) if m else None
            if wt and not wt.startswith("/tmp/seed"):
                wt = None
        if wt is None:
            wt = "/tmp/seed_%s" % prop
        if not os.path.isdir(wt):
            base = str(meta.get("base_commit", "HEAD")).split()[0]
            sh("sh %s/tools/prep_wt.sh %s %s" % (HERE, wt, base))
        conf = {"worktree": wt}
        sh("git checkout -- .", cwd=wt)
        rc, out = sh("git apply %s" % os.path.join(d, "patch.diff"), cwd=wt)
        conf["patch_applies"] = rc == 0
        if rc == 0:
            ok, out = build(wt)
            conf["builds_with_patch"] = ok
            rc, out = sh("make -C tests %s check 2>&1 | grep -E '^# (TOTAL|PASS|FAIL|ERROR)'" % J, cwd=wt)
            conf["tests_with_patch"] = " ".join(out.split("\n")).strip()
            conf["tests_pass_with_patch"] = bool(re.search(r"# PASS:\s+69", out)) and bool(re.search(r"# FAIL:\s+0", out))
            rc, out = sh("sh %s" % demo, cwd=d, timeout=1200)
            conf["demo_rc_with_patch"] = rc
            conf["demo_tail_with_patch"] = out[-300:]
        sh("git checkout -- .", cwd=wt)
        ok, out = build(wt)
        rc, out = sh("sh %s" % demo, cwd=d, timeout=1200)
        conf["demo_rc_unchanged"] = rc
        conf["confirmed"] = bool(conf.get("patch_applies") and conf.get("builds_with_patch") and conf.get("tests_pass_with_patch")
                                 and conf.get("demo_rc_with_patch") not in (0, None) and rc == 0)
        meta["integrator_confirmation"] = conf
        json.dump(meta, open(meta_p, "w"), indent=1)
        for f in ("demo",):
            try:
                os.unlink(os.path.join(d, f))
            except OSError:
                pass
        print("%s: confirmed=%s tests=%s demo(with)=%s demo(without)=%s" % (os.path.basename(d), conf["confirmed"],
              conf.get("tests_with_patch"), conf.get("demo_rc_with_patch"), conf["demo_rc_unchanged"]), flush=True)


if __name__ == "__main__":
    main()
