#!/bin/sh
# usage: tools/merge_agent.sh Cxx  -- copy the files a builder agent ADDED in /work/Cxx/verif into /verif; report edits to shared files
set -e
P="$1"
SRC=/work/$P/verif
cd /verif
echo "== new files"
rsync -a --ignore-existing --itemize-changes --exclude .cache --exclude 'lean/.lake' --exclude evidence --exclude replays --exclude __pycache__ --exclude '*.pyc' --exclude 'lean/GivaroModel/Generated' --exclude 'lean/Driver/Main.lean' --exclude 'lean/GivaroModel.lean' --exclude 'lean/Driver/Integer*Table.lean' --exclude 'repo_wt*' "$SRC"/ /verif/ | grep '^>f' || true
echo "== shared files the agent changed (not copied)"
rsync -a --dry-run --itemize-changes --existing --exclude .cache --exclude 'lean/.lake' --exclude evidence --exclude replays --exclude __pycache__ --exclude 'lean/GivaroModel/Generated' --exclude 'lean/Driver/Main.lean' --exclude 'lean/GivaroModel.lean' --exclude 'lean/Driver/Integer*Table.lean' --exclude MANIFEST.json "$SRC"/ /verif/ | grep '^>f.*c' | head -30 || true
