#!/usr/bin/env python3
"""Assemble MANIFEST.json from manifest.d/_base.json + manifest.d/Cxx.json fragments.
Properties of properties.jsonl without a fragment are listed under not_applicable with the reason
given in manifest.d/_not_claimed.json (default: not built yet)."""
import json
import os

HERE = os.path.dirname(os.path.dirname(os.path.abspath(__file__)))
D = os.path.join(HERE, "manifest.d")


def main():
    with open(os.path.join(D, "_base.json")) as fh:
        m = json.load(fh)
    props = [json.loads(l)["id"] for l in open(os.path.join(HERE, "properties.jsonl")) if l.strip()]
    reasons = {}
    p = os.path.join(D, "_not_claimed.json")
    if os.path.exists(p):
        with open(p) as fh:
            reasons = json.load(fh)
    checks, na = [], []
    for pid in props:
        f = os.path.join(D, pid + ".json")
        if os.path.exists(f):
            with open(f) as fh:
                c = json.load(fh)
            # quick_cmd takes its tier from VERIF_TIER (default quick); thorough_cmd names its tier explicitly
            c["quick_cmd"] = c["quick_cmd"].replace(" --tier quick", "")
            checks.append(c)
        else:
            na.append({"property_id": pid, "reason": reasons.get(pid, "no check registered yet: the model, theorems and correspondence for this property are still being built (DESIGN.md §4 describes the plan); nothing is claimed")})
    m["checks"] = checks
    m["not_applicable"] = na
    served = [c["property_id"] for c in checks]
    m["engines"] = [
        {"name": "lean-model", "path": "lean", "serves_properties": served, "kind_free_text": "Lean 4 library: executable models (core Lean), specs, lemmas, property theorems; compiled correspondence driver"},
        {"name": "translators", "path": "translate", "serves_properties": [p for p in served if p in ("C01", "C02", "C15", "C16", "C18", "C12")], "kind_free_text": "clang-14 JSON AST -> Lean translators (gmp++ Integer dialect), table extractors, generated harness stubs"},
        {"name": "correspondence", "path": "harness", "serves_properties": served, "kind_free_text": "C++ harnesses compiled from /repo's working tree (sanitizer build S, repository-flags build R), line protocol to the Lean driver"},
    ]
    with open(os.path.join(HERE, "MANIFEST.json"), "w") as fh:
        json.dump(m, fh, indent=1)
    print("MANIFEST.json: %d checks, %d not claimed" % (len(checks), len(na)))


if __name__ == "__main__":
    main()
