#!/bin/sh
# usage: tools/apply_fix.sh C12_1 [C12_2 …]  -- apply fixes/<name>.patch to /repo and commit it with fixes/<name>.msg
set -e
for n in "$@"; do
  git -C /repo apply --3way /verif/fixes/$n.patch 2>/dev/null || git -C /repo apply /verif/fixes/$n.patch
  git -C /repo add -u
  git -C /repo commit -q -F /verif/fixes/$n.msg
  echo "applied $n: $(git -C /repo log --oneline | head -1)"
done
