#!/usr/bin/env python3
"""tools/record_fixed.py Cxx <commit> [<commit> …]: append `fixed:` entries (commit hash + subject) to known_findings.json"""
import json, subprocess, sys
p = "/verif/known_findings.json"
k = json.load(open(p))
prop = sys.argv[1]
for c in sys.argv[2:]:
    subj = subprocess.run(["git", "-C", "/repo", "log", "-1", "--format=%h %s", c], stdout=subprocess.PIPE, text=True).stdout.strip()
    h, s = subj.split(" ", 1)
    e = "fixed: property=%s %s %s" % (prop, h, s[len("fix: "):] if s.startswith("fix: ") else s)
    if not any(h in x for x in k["fixed"]):
        k["fixed"].append(e)
json.dump(k, open(p, "w"), indent=1)
print("\n".join(k["fixed"][-len(sys.argv[2:]):]))
