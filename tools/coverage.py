#!/usr/bin/env python3
"""tools/coverage.py [run] [Cxx …]  -- which library functions do the correspondence harnesses actually execute?

`run`: runs the quick tier of the given checks (default: all) with VERIF_COVERAGE=1: every harness and the library objects are
rebuilt with `g++ -O0 --coverage`, so the runs leave gcov counters next to the binaries under .cache/.  Then (always) gcovr merges
all counters and this script writes coverage/summary.json and coverage/unexecuted.txt: per source file of /repo/src the functions that
are instantiated by some harness but never executed, and per property the line/function coverage of its anchored files.
The output is a map of what the differential tie sees; it is evidence about the generators, not a check."""
import json
import os
import re
import subprocess
import sys

HERE = os.path.dirname(os.path.dirname(os.path.abspath(__file__)))
CACHE = os.path.join(HERE, ".cache")
OUT = os.path.join(HERE, "coverage")


def main():
    args = sys.argv[1:]
    props = [json.loads(l) for l in open(os.path.join(HERE, "properties.jsonl")) if l.strip()]
    if args and args[0] == "run":
        todo = args[1:] or [p["id"] for p in props]
        for p in todo:
            env = dict(os.environ, VERIF_COVERAGE="1")
            r = subprocess.run([os.path.join(HERE, "check"), p], env=env, stdout=subprocess.PIPE, stderr=subprocess.STDOUT, text=True, cwd=HERE)
            print(p, "rc=%d" % r.returncode, [l for l in r.stdout.split("\n") if l.startswith("VIOLATION")][:3], flush=True)
    os.makedirs(OUT, exist_ok=True)
    # one gcovr run per build directory (the tree may have moved between builds: line numbers of one function then differ and gcovr
    # refuses to merge); merged here per (file, function) and per (file, line)
    import glob
    dirs = sorted({os.path.dirname(g) for g in glob.glob(os.path.join(CACHE, "bin", "*", "*.gcda")) + glob.glob(os.path.join(CACHE, "obj", "*", "*.gcda"))})
    files = {}
    for k, bd in enumerate(dirs):
        raw = os.path.join(CACHE, "coverage_raw_%d.json" % k)
        r = subprocess.run(["gcovr", "--root", "/", "--filter", r".*/(givaro|gmp\+\+|recint)/.*", "--filter", "/repo/src/.*",
                            "--gcov-ignore-parse-errors", "--json", raw, bd], stdout=subprocess.PIPE, stderr=subprocess.PIPE, text=True, timeout=1800)
        if not os.path.exists(raw):
            print("gcovr failed on", bd, r.stderr[-300:])
            continue
        d = json.load(open(raw))
        os.unlink(raw)
        for f in d["files"]:
            real = os.path.realpath(f["file"] if f["file"].startswith("/") else "/" + f["file"])
            if "/repo/src/" not in real:
                continue
            rel = real.split("/repo/")[1]
            e = files.setdefault(rel, {"lines": {}, "funcs": {}})
            for l in f["lines"]:
                if l.get("gcovr/noncode"):
                    continue
                e["lines"][l["line_number"]] = e["lines"].get(l["line_number"], 0) + l["count"]
            for fn in f.get("functions", []):
                e["funcs"][fn["name"]] = e["funcs"].get(fn["name"], 0) + fn.get("execution_count", 0)
    names = sorted({n for e in files.values() for n in e["funcs"]})
    dem = {}
    if names:
        o = subprocess.run(["c++filt"], input="\n".join(names), stdout=subprocess.PIPE, text=True).stdout.split("\n")
        dem = dict(zip(names, o))
    summary = {"files": {}, "properties": {}}
    lines_out = []
    for rel, e in sorted(files.items()):
        hit = sum(1 for c in e["lines"].values() if c > 0)
        un = sorted(dem.get(n, n) for n, c in e["funcs"].items() if c == 0)
        summary["files"][rel] = {"lines": len(e["lines"]), "lines_hit": hit, "functions": len(e["funcs"]), "functions_unexecuted": len(un)}
        if un:
            lines_out.append("== %s  (%d/%d instantiated functions never executed; lines %d/%d)" % (rel, len(un), len(e["funcs"]), hit, len(e["lines"])))
            lines_out += ["   " + re.sub(r"\s+", " ", u)[:200] for u in un]
    for p in props:
        fs = [f for f in p["anchors"]["files"] if f in summary["files"]]
        tl = sum(summary["files"][f]["lines"] for f in fs)
        hl = sum(summary["files"][f]["lines_hit"] for f in fs)
        tf = sum(summary["files"][f]["functions"] for f in fs)
        uf = sum(summary["files"][f]["functions_unexecuted"] for f in fs)
        summary["properties"][p["id"]] = {"anchored_files_seen": len(fs), "anchored_files": len(p["anchors"]["files"]),
                                          "lines": tl, "lines_hit": hl, "functions_instantiated": tf, "functions_unexecuted": uf,
                                          "files_not_seen": [f for f in p["anchors"]["files"] if f not in summary["files"]]}
        print("%s: anchored files %d/%d seen, lines %d/%d (%.0f%%), instantiated functions executed %d/%d" % (
            p["id"], len(fs), len(p["anchors"]["files"]), hl, tl, 100.0 * hl / max(tl, 1), tf - uf, tf))
    json.dump(summary, open(os.path.join(OUT, "summary.json"), "w"), indent=1)
    open(os.path.join(OUT, "unexecuted.txt"), "w").write("\n".join(lines_out) + "\n")


if __name__ == "__main__":
    main()
