#!/usr/bin/env python3
"""Give every agent-written driver module its own namespace Driver.<Area> (all modules are linked into one executable)."""
import os, re, sys
D = os.path.join(os.path.dirname(os.path.dirname(os.path.abspath(__file__))), "lean", "Driver")
SKIP = {"Common.lean", "Main.lean", "Integer.lean", "IntegerTable.lean", "IntegerAliasTable.lean"}
for f in sorted(os.listdir(D)):
    if not f.endswith(".lean") or f in SKIP:
        continue
    area = f[:-5]
    p = os.path.join(D, f)
    s = open(p).read()
    if "namespace Driver.%s" % area in s:
        continue
    s = re.sub(r"^namespace Driver$", "namespace Driver.%s\nopen Driver" % area, s, flags=re.M)
    s = re.sub(r"^end Driver$", "end Driver.%s" % area, s, flags=re.M)
    s = re.sub(r"^(-- @driver-mode(?:-io)? \S+ )Driver\.(\w+)\s*$", r"\1Driver.%s.\2" % area, s, flags=re.M)
    open(p, "w").write(s)
    print("namespaced", f)
