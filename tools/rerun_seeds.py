#!/usr/bin/env python3
"""tools/rerun_seeds.py [<id-prefix> …]  -- final pass: run every stored seeded change seeded/<Cxx>-m<i> again against the checks that
are recorded as having to see it (its own property + every property in detected_by), judged on /repo's HEAD when the patch applies
there (tools/try_seed.py).  Updates meta.json (detected_by, detection, base_commit, example_replay_lines)."""
import datetime
import glob
import json
import os
import re
import subprocess
import sys

HERE = os.path.dirname(os.path.dirname(os.path.abspath(__file__)))
pref = sys.argv[1:]
for d in sorted(glob.glob(os.path.join(HERE, "seeded", "C*-[mwx]*"))):
    name = os.path.basename(d)
    if pref and not any(name.startswith(p) for p in pref):
        continue
    meta = json.load(open(os.path.join(d, "meta.json")))
    det0 = meta.get("detected_by") or []
    if isinstance(det0, str):
        det0 = re.findall(r"C\d\d", det0)
    props = []
    for p in [meta.get("property", name[:3])] + list(det0) + list(meta.get("also_run", [])):
        if p and p not in props:
            props.append(p)
    r = subprocess.run(["python3", os.path.join(HERE, "tools", "try_seed.py"), d, str(meta.get("written_against") or meta.get("base_commit", "HEAD")).split()[0]] + props,
                       stdout=subprocess.PIPE, stderr=subprocess.STDOUT, text=True)
    res = {}
    for l in r.stdout.split("\n"):
        if l.startswith("{"):
            try:
                res = json.loads(l)
            except Exception:
                pass
    if not res:
        print(name, "ERROR", r.stdout[-400:], flush=True)
        continue
    used = res.pop("_base", "?")
    det = [p for p, v in res.items() if v.get("rc") == 1 and any(x.startswith("VIOLATION") for x in v.get("lines", []))]
    meta.setdefault("written_against", meta.get("base_commit"))
    meta["base_commit"] = used
    meta["confirmed_by_integrator"] = "patch applied to a scratch worktree at %s; `tools/try_seed.py seeded/%s %s %s` on %s" % (
        used, name, used, " ".join(props), datetime.datetime.utcnow().strftime("%Y-%m-%d %H:%M UTC"))
    meta["detected_by"] = det
    # concrete replays first (a check may print several stale-model lines before the failing input)
    meta["detection"] = {p: sorted([x for x in v.get("lines", []) if x.startswith("VIOLATION")], key=lambda x: "no-failing-input-found" in x)[:4]
                         for p, v in res.items()}
    meta["example_replay_lines"] = [l.strip() for l in r.stdout.split("\n") if l.strip().startswith("['")][:3]
    json.dump(meta, open(os.path.join(d, "meta.json"), "w"), indent=1)
    concrete = any("no-failing-input-found" not in x for v in meta["detection"].values() for x in v)
    print("%s: base=%s detected_by=%s concrete=%s" % (name, used, det, concrete), flush=True)
