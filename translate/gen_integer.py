#!/usr/bin/env python3
"""Regenerate, from /repo's working tree, everything C01/C02 need:

  lean/GivaroModel/Generated/IntegerOps.lean     model: one def per C++ function body
  lean/GivaroModel/Generated/IntegerSpecs.lean   spec / checker per overload (from integer_spec.py)
  lean/GivaroModel/Generated/IntegerThms.lean    one theorem per overload + proof script
  lean/Driver/IntegerTable.lean                  dispatch table for the correspondence driver
  .cache/gen/integer_calls.inc                   C++ call stubs for the harness (one per overload)
  .cache/gen/integer_meta.json                   signatures, preconditions, what was (un)translatable
"""
import json
import os
import re
import sys

HERE = os.path.dirname(os.path.abspath(__file__))
sys.path.insert(0, os.path.dirname(HERE))
from translate import gmpxx                      # noqa: E402
from translate.gmpxx import Untranslatable      # noqa: E402
from translate import integer_spec              # noqa: E402
from vlib import common                          # noqa: E402

UNITY = """#include "gmp++/gmp++.h"
#include "{r}/src/kernel/gmp++/gmp++_int_add.C"
#include "{r}/src/kernel/gmp++/gmp++_int_sub.C"
#include "{r}/src/kernel/gmp++/gmp++_int_mul.C"
#include "{r}/src/kernel/gmp++/gmp++_int_div.C"
#include "{r}/src/kernel/gmp++/gmp++_int_mod.C"
#include "{r}/src/kernel/gmp++/gmp++_int_compare.C"
#include "{r}/src/kernel/gmp++/gmp++_int_misc.C"
#include "{r}/src/kernel/gmp++/gmp++_int_gcd.C"
#include "{r}/src/kernel/gmp++/gmp++_int_pow.C"
#include "{r}/src/kernel/gmp++/gmp++_int_cstor.C"
#include "givaro/givinteger.h"
"""

NCHUNK = 12
NCHUNK_ALIAS = 12

CTYPE = {"S64": "int64_t", "U64": "uint64_t", "S32": "int32_t", "U32": "uint32_t", "S16": "int16_t", "U16": "uint16_t",
         "S8": "signed char", "U8": "unsigned char", "B": "bool"}

FILES_OF_INTEREST = ("gmp++_int_add.C", "gmp++_int_sub.C", "gmp++_int_mul.C", "gmp++_int_div.C", "gmp++_int_mod.C",
                     "gmp++_int_compare.C", "gmp++_int_misc.C", "gmp++_int_gcd.C", "gmp++_int_pow.C", "gmp++_int_cstor.C",
                     "gmp++_int.h", "givinteger.h")

# proof scripts per family (tactics are defined in Lemmas/IntegerTactics.lean)
TACTIC = {
    "addsub": "gmp_lin", "compare": "gmp_lin", "cast": "gmp_misc",
    "mul": "gmp_ring", "fused": "gmp_ring",
    "div": "gmp_div", "bits": "gmp_misc", "shift": "gmp_misc", "gcd": "gmp_misc", "pow": "gmp_misc", "misc": "gmp_misc",
}


def base_name(f):
    nm = f.name
    if f.kind == "CXXConversionDecl":
        return "conv_" + re.sub(r"\W+", "_", gmpxx.strip_cv(f.rettype)).strip("_")
    if f.kind == "CXXConstructorDecl":
        return "ctor"
    return gmpxx.OPNAMES.get(nm, re.sub(r"\W+", "_", nm))


def collect(prog):
    out, bad, seen = [], [], set()
    for f in prog.funcs:
        if f.body is None or not f.file:
            continue
        if os.path.basename(f.file) not in FILES_OF_INTEREST:
            continue
        if getattr(f, "in_template", False):
            continue
        if f.kind == "CXXDestructorDecl":
            continue
        if f.mangled and f.mangled in seen:
            continue
        seen.add(f.mangled)
        if f.cls not in (None, "Integer", "ZRing"):
            continue
        try:
            t = gmpxx.translate_function(prog, f)
            t.base = base_name(f)
            t.lean = gmpxx.emit_def(t)
            out.append(t)
        except Untranslatable as e:
            rec = dict(name=f.name, type=f.qual, file=os.path.basename(f.file), line=f.line, reason=str(e), cls=f.cls)
            bad.append(rec)
            try:
                # body outside the dialect: no model, no theorem -- but keep specification and harness stub (implementation vs spec)
                t = gmpxx.translate_function(prog, f, sig_only=True)
                t.base = base_name(f)
                t.lean = None
                t.untranslatable = str(e)
                rec["key"] = t.key
                out.append(t)
            except Untranslatable:
                pass
    # unique keys
    keys = {}
    for t in out:
        k = t.key
        if k in keys:
            keys[k] += 1
            t.key = "%s_v%d" % (k, keys[k])
            if t.lean is not None:
                t.lean = gmpxx.emit_def(t)
        else:
            keys[k] = 1
    return out, bad


def range_hyps(t):
    hs = []
    for n, c, ct in t.params:
        if ct != "Integer":
            hs.append("(h_%s : In%s %s)" % (n, ct, n))
    return hs


def callable_from_harness(t):
    f = t.f
    if f.access in ("private", "protected"):
        return False
    if f.kind == "CXXConstructorDecl":
        return True
    if f.cls is None and not any(ct == "Integer" for _, _, ct in t.params):
        return False   # friend-only helpers on plain words: not reachable by name lookup
    return True


def cxx_stub(t):
    """C++ lambda calling the overload on parsed arguments and printing ret + outs.
    Parameters that an alias pattern identifies are passed as the SAME C++ object."""
    f = t.f
    lines = []
    is_ring = (f.cls or "").startswith("ZRing")
    var = {}
    for idx, (n, c, ct) in enumerate(t.uparams):
        v = "v_" + n
        var[n] = v
        if ct == "Integer":
            lines.append("Integer %s = A.Z(%d);" % (v, idx))
        else:
            lines.append("%s %s = (%s)A.W(%d);" % (CTYPE[ct], v, CTYPE[ct], idx))
    params = list(t.params)
    obj = None
    if f.is_method and not f.static and f.kind != "CXXConstructorDecl" and not is_ring:
        obj = var[params[0][0]]
        params = params[1:]
    args = [var[n] for n, c, ct in params]
    outvars = []
    for label, loc in t.outs:
        if label == "this":
            outvars.append(obj if f.kind != "CXXConstructorDecl" else "v_new")
        else:
            outvars.append(var[label])
    a = ", ".join(args)
    if f.kind == "CXXConstructorDecl":
        lines.append("Integer v_new(%s);" % a if a else "Integer v_new;")
        lines.append("O.none();")
    else:
        if f.kind == "CXXConversionDecl":
            expr = "%s.operator %s()" % (obj, CTYPE[t.ret[1]])
        elif is_ring:
            expr = "ZZ.%s(%s)" % (f.name, a)
        elif obj:
            expr = "%s.%s(%s)" % (obj, f.name, a)
        elif f.cls == "Integer":
            expr = "Integer::%s(%s)" % (f.name, a)
        else:
            expr = "%s(%s)" % (f.name, a)   # unqualified: found by argument-dependent lookup, as in user code
        if t.ret[0] == "void":
            lines.append("%s;" % expr)
            lines.append("O.none();")
        elif t.ret[0] == "Z":
            # bind by const reference: observes the returned object (reference or temporary)
            lines.append("const Integer& rr = %s;" % expr)
            lines.append("O.Z(rr);")
        else:
            lines.append("auto rr = %s;" % expr)
            lines.append("O.W((long long)rr, %s);" % ("true" if t.ret[1].startswith("U") or t.ret[1] == "B" else "false"))
    for (label, loc), v in zip(t.outs, outvars):
        if loc.kind == "Z":
            lines.append("O.Z(%s);" % v)
        else:
            tag = loc.kind[5:]
            lines.append("O.W((long long)%s, %s);" % (v, "true" if tag.startswith("U") else "false"))
    body = " ".join(lines)
    return '  {"%s", [](Args& A, Out& O) { %s }},' % (t.key, body)


def lean_chk(t, sp):
    """Bool-valued checker  <key>_chk args (r : Res)."""
    conj = ["rr_.exc = false"]
    if sp["ret"] is not None:
        if sp["cmp"] == "sign":
            conj.append("Spec.sgn rr_.ret = %s" % sp["ret"])
        elif sp["cmp"] == "truthy":
            conj.append("Spec.b2i (rr_.ret ≠ 0) = %s" % sp["ret"])
        else:
            conj.append("rr_.ret = %s" % sp["ret"])
    outs = sp["outs"]
    if all(o is not None for o in outs):
        conj.append("rr_.outs = [%s]" % ", ".join(outs))
    else:
        conj.append("rr_.outs.length = %d" % len(outs))
        for i, o in enumerate(outs):
            if o is not None:
                conj.append("rr_.outs.getD %d 0 = %s" % (i, o))
    names = [p[0] for p in t.params]
    if sp["cmp"] == "bezout":
        conj.append("Spec.isBezout (rr_.outs.getD 0 0) (rr_.outs.getD 1 0) (rr_.outs.getD 2 0) %s %s = true" % (names[3], names[4]))
    if sp["cmp"] == "bezout2":
        conj.append("Spec.isBezout rr_.ret (rr_.outs.getD 0 0) (rr_.outs.getD 1 0) %s %s = true" % (names[2], names[3]))
    if sp["cmp"] == "invmod":
        conj.append(sp["extra"])
    return "decide (%s)" % " ∧ ".join(conj)


class Chunks:
    """theorem text is distributed round-robin over n modules so that lake proves them in parallel"""
    def __init__(self, n):
        self.bufs = [[] for _ in range(n)]
        self.i = 0
        self.where = {}

    def write(self, txt):
        self.bufs[self.i].append(txt)

    def next(self, name, group=None):
        """round-robin inside the chunk range of `group` (theorems of different properties never share a module)"""
        n = len(self.bufs)
        if group == "C02":
            lo, hi = n - max(2, n // 4), n
        elif group == "C01":
            lo, hi = 0, n - max(2, n // 4)
        else:
            lo, hi = 0, n
        cur = getattr(self, "_cur", {})
        i = cur.get(group, lo - 1) + 1
        if i >= hi or i < lo:
            i = lo
        cur[group] = i
        self._cur = cur
        self.i = i
        self.where[name] = self.i


def alias_patterns(t):
    """Alias patterns of a translated overload: set partitions of the Integer reference parameters (incl. *this) with at
    least one non-trivial group and no group holding two outputs.  More than four such parameters: pairs only."""
    pos = [i for i, (n, c, ct) in enumerate(t.params) if ct == "Integer" and t.isrefs[i]]
    outs = {i for i in pos if t.params[i][1] == "Z"}
    if len(pos) < 2 or not outs:
        return []
    pats = []
    if len(pos) <= 4:
        def parts(xs):
            if not xs:
                yield []
                return
            x, rest = xs[0], xs[1:]
            for p in parts(rest):
                yield [[x]] + p
                for k in range(len(p)):
                    yield p[:k] + [[x] + p[k]] + p[k + 1:]
        for p in parts(pos):
            gs = [tuple(sorted(g)) for g in p if len(g) > 1]
            if not gs or any(len(outs & set(g)) > 1 for g in gs):
                continue
            pats.append(sorted(gs))
    else:
        for a in pos:
            for b in pos:
                if a < b and not (a in outs and b in outs):
                    pats.append([(a, b)])
    return pats


def emit_set(ts, bad, prefix, entry_fn, outdir_lean, gendir, nchunk, what):
    """Write model, specs, theorem chunks, driver table, harness stubs and meta for one set of translated bodies."""
    gen = os.path.join(outdir_lean, "GivaroModel", "Generated")
    os.makedirs(gen, exist_ok=True)
    low = prefix[0].lower() + prefix[1:]
    with open(os.path.join(gen, prefix + "Ops.lean"), "w") as fh:
        fh.write("/- GENERATED by translate/gen_integer.py from /repo's working tree -- do not edit.\n"
                 "   %s (symbolic execution of the clang AST). -/\n"
                 "import GivaroModel.Prim.Gmp\nset_option maxRecDepth 4000\nset_option linter.unusedVariables false\nnamespace Givaro.Gen\nopen Givaro\n\n" % what)
        for t in ts:
            f = t.f
            if t.lean is None:
                fh.write("-- UNTRANSLATABLE `%s %s` (%s:%s): %s\n\n" % (f.name, f.qual, os.path.basename(f.file), f.line, t.untranslatable))
                continue
            fh.write("/-- `%s %s`  (%s:%s)%s -/\n" % (f.name, f.qual, os.path.basename(f.file), f.line,
                                                     ("  alias pattern %s" % t.alias) if t.alias else ""))
            fh.write(t.lean + "\n\n")
        fh.write("end Givaro.Gen\n")

    meta = {"functions": [], "untranslatable": bad}
    specs = {}
    ft = Chunks(nchunk)
    THM_HDR = ("/- GENERATED by translate/gen_integer.py -- do not edit.\n"
               "   One theorem per overload%s: under the range of each machine-word argument and the documented\n"
               "   precondition, the translated body satisfies its specification. -/\n"
               "import GivaroModel.Generated.%sOps\nimport GivaroModel.Generated.%sSpecs\nimport GivaroModel.Lemmas.IntegerTactics\n"
               "set_option maxRecDepth 4000\nset_option linter.unusedVariables false\nnamespace Givaro.Gen\nopen Givaro\n\n"
               % (" and alias pattern" if prefix != "Integer" else "", prefix, prefix))
    with open(os.path.join(gen, prefix + "Specs.lean"), "w") as fs:
        fs.write("/- GENERATED by translate/gen_integer.py from translate/integer_spec.py -- do not edit.\n"
                 "   Per overload: the precondition, the specified result and the Bool checker used by the driver. -/\n"
                 "import GivaroModel.Prim.Gmp\nimport GivaroModel.Spec.IntegerSpec\nset_option linter.unusedVariables false\nnamespace Givaro.Gen\nopen Givaro\n\n")
        for t in ts:
            sp = integer_spec.spec_for(t)
            if sp is not None and sp["ret"] is None and t.ret[0] == "void" and sp["cmp"] == "exact":
                sp["ret"] = "0"    # void functions / constructors: the model's returned value is the literal 0
            names = [p[0] for p in t.params]          # per position (aliased positions repeat a name)
            unames = [p[0] for p in t.uparams]
            args = " ".join(unames)
            binder = ("(%s : Int) " % args) if unames else ""
            rec = dict(key=t.key, name=t.f.name, type=t.f.qual, file=os.path.basename(t.f.file), line=t.f.line, cls=t.f.cls,
                       params=[(n, c, ct) for n, c, ct in t.uparams], nouts=len(t.outs), ret=list(t.ret),
                       access=t.f.access, spec=None, leaves=gmpxx.tree_stats(t.tree)[0], alias=t.alias,
                       base_key=getattr(t, "base_key", t.key), translated=t.lean is not None,
                       untranslatable=getattr(t, "untranslatable", None))
            if sp is not None and callable_from_harness(t):
                specs[t.key] = sp
                exact = sp["ret"] is not None and all(o is not None for o in sp["outs"]) and sp["cmp"] == "exact"
                pre_l = [integer_spec.pre_lean(p) for p in sp["pre"]]
                rng = ["In%s %s" % (ct, n) for n, c, ct in t.uparams if ct != "Integer"]
                fs.write("def %s_pre %s: Bool := decide (%s)\n" % (t.key, binder, " ∧ ".join(rng + pre_l) if (rng + pre_l) else "True"))
                if exact:
                    fs.write("def %s_spec %s: Res := ⟨%s, [%s], false⟩\n" % (t.key, binder, sp["ret"], ", ".join(sp["outs"])))
                    fs.write("def %s_chk %s(rr_ : Res) : Bool := decide (rr_ = %s_spec %s)\n\n" % (t.key, binder, t.key, args))
                else:
                    fs.write("def %s_chk %s(rr_ : Res) : Bool := %s\n\n" % (t.key, binder, lean_chk(t, sp)))
                rec["spec"] = dict(fam=sp["fam"], prop=sp["prop"], pre=[list(p) for p in sp["pre"]], exact=exact, cmp=sp["cmp"])
                if t.lean is None:
                    meta["functions"].append(rec)
                    continue       # no model: no theorem can be stated -- the check reports the broken obligation
                ft.next(t.key, sp["prop"] if prefix == "Integer" else None)
                hyps = ["(h_%s : In%s %s)" % (n, ct, n) for n, c, ct in t.uparams if ct != "Integer"] + \
                       ["(hp%d : %s)" % (i, p) for i, p in enumerate(pre_l)]
                tac = TACTIC.get(sp["fam"], "gmp_lin")
                if tac == "gmp_div":
                    nzs = [p[1] for p in sp["pre"] if p[0] == "nz"]
                    dv = nzs[0] if nzs else names[-1]
                    m_ = re.search(r"\(Spec\.\w+ (\w+) %s\)" % re.escape(dv), (sp["ret"] or "") + " " + " ".join(o or "" for o in sp["outs"]))
                    tac = "gmp_div %s %s" % (m_.group(1) if m_ else names[0], dv)
                wid = "".join("  wrap_id %s\n" % n for n, c, ct in t.uparams if ct != "Integer")
                if exact:
                    ft.write("theorem %s_exact %s%s :\n    %s %s = %s_spec %s := by\n  unfold %s %s_spec\n%s  %s\n\n" %
                             (t.key, binder, " ".join(hyps), t.key, args, t.key, args, t.key, t.key, wid, tac))
                else:
                    ft.write("theorem %s_exact %s%s :\n    %s_chk %s (%s %s) = true := by\n  unfold %s\n%s  gmp_cert %s_chk\n\n" %
                             (t.key, binder, " ".join(hyps), t.key, args, t.key, args, t.key, wid, t.key))
                rec["spec"] = dict(fam=sp["fam"], prop=sp["prop"], pre=[list(p) for p in sp["pre"]], exact=exact, cmp=sp["cmp"])
            meta["functions"].append(rec)
        fs.write("end Givaro.Gen\n")
    for f_old in os.listdir(gen):
        if re.match(re.escape(prefix) + r"Thms(\d\d)?\.lean$", f_old):
            os.unlink(os.path.join(gen, f_old))
    for ci, buf in enumerate(ft.bufs):
        with open(os.path.join(gen, "%sThms%02d.lean" % (prefix, ci)), "w") as fh:
            fh.write(THM_HDR + "".join(buf) + "end Givaro.Gen\n")
    with open(os.path.join(gen, prefix + "Thms.lean"), "w") as fh:
        fh.write("/- GENERATED: umbrella importing every theorem chunk -/\n" + "".join("import GivaroModel.Generated.%sThms%02d\n" % (prefix, ci) for ci in range(nchunk)))
    meta["thm_chunk"] = ft.where
    meta["nchunk"] = nchunk

    with open(os.path.join(outdir_lean, "Driver", prefix + "Table.lean"), "w") as fd:
        fd.write("/- GENERATED by translate/gen_integer.py -- do not edit. -/\n"
                 "import GivaroModel.Generated.%sOps\nimport GivaroModel.Generated.%sSpecs\n"
                 "namespace Givaro.Gen\nopen Givaro\n\n"
                 "/-- key ↦ (precondition holds, model result, checker applied to a given result, comparison mode) -/\n"
                 "def %s (key : String) (a : Array Int) : Option (Bool × Res × (Res → Bool) × String) :=\n  match key with\n" % (prefix, prefix, entry_fn))
        for t in ts:
            if t.key not in specs:
                continue
            n = len(t.uparams)
            al = " ".join("a[%d]!" % i for i in range(n))
            mode = specs[t.key]["cmp"]
            mode = {"bezout": "cert", "bezout2": "cert", "invmod": "cert"}.get(mode, mode)
            if t.lean is None:
                fd.write('  | "%s" => if a.size = %d then some (%s_pre %s, Res.thrown, %s_chk %s, "speconly") else none\n' % (t.key, n, t.key, al, t.key, al))
                continue
            fd.write('  | "%s" => if a.size = %d then some (%s_pre %s, %s %s, %s_chk %s, "%s") else none\n' % (t.key, n, t.key, al, t.key, al, t.key, al, mode))
        fd.write("  | _ => none\n\nend Givaro.Gen\n")

    with open(os.path.join(gendir, low + "_calls.inc"), "w") as fc:
        fc.write("// GENERATED by translate/gen_integer.py -- one stub per specified overload\n")
        for t in ts:
            if t.key in specs:
                fc.write(cxx_stub(t) + "\n")
    with open(os.path.join(gendir, low + "_meta.json"), "w") as fm:
        json.dump(meta, fm, indent=1)
    return meta, specs


def generate(outdir_lean, gendir, log=lambda *a: None, with_alias=True):
    docs = gmpxx.dump_ast(UNITY.format(r=common.REPO), common.inc_flags(), os.path.join(common.CACHE, "ast_integer"))
    prog = gmpxx.Program(docs)
    ts, bad = collect(prog)
    os.makedirs(gendir, exist_ok=True)
    meta, specs = emit_set(ts, bad, "Integer", "integerEntry", outdir_lean, gendir, NCHUNK,
                           "One definition per C++ function body of the gmp++ Integer layer")
    if with_alias:
        # C15: the same bodies re-executed with parameters sharing one location, for every alias pattern
        al_ts, al_bad = [], []
        for t in ts:
            if t.key not in specs:
                continue
            for pat in alias_patterns(t):
                try:
                    ta = gmpxx.translate_function(prog, t.f, alias=pat)
                    ta.base = t.base
                    ta.base_key = t.key
                    ta.lean = gmpxx.emit_def(ta)
                    al_ts.append(ta)
                except Untranslatable as e:
                    al_bad.append(dict(name=t.f.name, type=t.f.qual, file=os.path.basename(t.f.file), line=t.f.line, reason=str(e),
                                       cls=t.f.cls, alias=[list(g) for g in pat], base_key=t.key))
        ameta, aspecs = emit_set(al_ts, al_bad, "IntegerAlias", "integerAliasEntry", outdir_lean, gendir, NCHUNK_ALIAS,
                                 "The bodies of the gmp++ Integer layer re-executed under every alias pattern of their reference parameters")
        meta["alias_functions"] = len(ameta["functions"])
    return meta


if __name__ == "__main__":
    m = generate(common.LEAN_DIR, os.path.join(common.CACHE, "gen"))
    nspec = sum(1 for f in m["functions"] if f["spec"])
    print("translated %d bodies, %d with a specification, %d untranslatable" % (len(m["functions"]), nspec, len(m["untranslatable"])))
    for f in m["functions"]:
        if not f["spec"]:
            print("  unspecified:", f["key"])
