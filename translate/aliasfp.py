#!/usr/bin/env python3
"""C15 (ring / field / rational / polynomial interfaces): alias-footprint translator.

clang-14 JSON AST of the translation unit the alias harness is built from (harness/h_alias.cpp + the rational .C files)
  -> per function body an *event program* (reads / writes / copies / calls / branches / loops, in C++17 evaluation order) over
     blocks of *leaves* of its formals and locals (an opaque object is one leaf; RecInt ruint/rint/rmint have one leaf per limb)
  -> per (kind, operation, alias pattern) a specialised `Prog` term of lean/GivaroModel/Model/AliasProg.lean:
     a library call whose written arguments are not identified (by the pattern) with another argument of the same call is a
     primitive (a function of the values of its inputs); a call with such a conflict is descended into (`Prog.call`)
  -> lean/GivaroModel/Generated/AliasTable*.lean (`aliasTable`, `unsafeRows`, primitive names) + .cache/gen/aliasfp_meta.json.

The Python side also evaluates the discipline (`safe`, a mirror of the Lean function) to split the rows into safe / unsafe and to
say WHERE a row breaks the discipline; the Lean kernel re-evaluates every row it is given (`all_rows_safe`).
"""
import concurrent.futures as cf
import hashlib
import json
import os
import pickle
import re
import subprocess
import sys

HERE = os.path.dirname(os.path.abspath(__file__))
sys.path.insert(0, os.path.dirname(HERE))
from vlib import common              # noqa: E402

sys.setrecursionlimit(20000)

# names of the three-address / in-place operations that make a table row (member functions of the ring / polynomial classes)
RING_OPS = {"add", "sub", "mul", "div", "neg", "inv", "axpy", "axmy", "maxpy", "addin", "subin", "mulin", "divin", "negin", "invin",
            "axpyin", "axmyin", "maxpyin", "sqr", "sqrin", "gcd", "lcm", "divmod", "divmodin", "mod", "modin", "pdivmod", "pmod",
            "invmod", "invmodunit", "powmod", "pow", "stdmul", "karamul", "diff", "reverse", "quo", "rem", "quoin", "remin",
            "quorem", "gcdin", "lcmin", "assign"}
RATIONAL_OPS = {"operator+=", "operator-=", "operator*=", "operator/=", "operator+", "operator-", "operator*", "operator/"}
RECINT_OPS = {"add", "sub", "mul", "div", "div_q", "div_r", "mod", "mod_n", "exp", "exp_mod", "gcd", "inv_mod", "left_shift", "right_shift",
              "neg", "addmul", "square", "copy", "inv", "add_wc", "sub_wc"}

# library functions that are MODELLED, not analysed (the assumptions of the static tie; every one is exercised by the dynamic tie):
#   'copy'      the function copies the value of its input into its destination
#   'pointwise' element-wise loops over a container (coefficient i of the destination depends on coefficient i of the inputs only):
#               a function of the values of its inputs, assumed to tolerate destination = input
MODELLED = {
    ("Poly1Dom", "assign", "ra"): "copy",
    ("Poly1Dom", "add", "raa"): "pointwise", ("Poly1Dom", "sub", "raa"): "pointwise", ("Poly1Dom", "neg", "ra"): "pointwise",
    ("Poly1Dom", "addin", "ra"): "pointwise", ("Poly1Dom", "subin", "ra"): "pointwise",
    ("Poly1Dom", "mul", "ras"): "pointwise", ("Poly1Dom", "mul", "rsa"): "pointwise", ("Poly1Dom", "div", "ras"): "pointwise",
    ("Poly1Dom", "setdegree", "r"): "pointwise",
    # scalar * polynomial fused forms: r[i] <- a*x[i] + y[i]
    ("Poly1Dom", "axpy", "rsaa"): "pointwise", ("Poly1Dom", "axmy", "rsaa"): "pointwise", ("Poly1Dom", "maxpy", "rsaa"): "pointwise",
    ("Poly1Dom", "axpyin", "rsa"): "pointwise", ("Poly1Dom", "axmyin", "rsa"): "pointwise", ("Poly1Dom", "maxpyin", "rsa"): "pointwise",
    # in-place element-wise algorithms (iterators into the destination; coefficient i+1 is read after coefficient i is written)
    ("Poly1Dom", "diff", "ra"): "elementwise", ("Poly1Dom", "modin", "ra"): "elementwise",
    # x *= x, x /= x: safe only because equal denominators take an early path (depends on the VALUES, outside the discipline)
    ("Rational", "operator*=", "ra"): "value-dependent", ("Rational", "operator/=", "ra"): "value-dependent",
}

RECINT_CLASSES = ("ruint", "rint", "rmint")


class Unsupported(Exception):
    pass


class Retry(Exception):
    pass


# ------------------------------------------------------------------------------------------
# AST loading
# ------------------------------------------------------------------------------------------
def tu_source():
    rat = sorted(f for f in common.lib_sources() if "/rational/" in f)
    return '#include "%s/harness/h_alias.cpp"\n' % common.VERIF + "".join('#include "%s"\n' % f for f in rat)


def parse_docs(text):
    dec = json.JSONDecoder()
    i, n = 0, len(text)
    docs = []
    while i < n:
        while i < n and text[i].isspace():
            i += 1
        if i >= n:
            break
        d, j = dec.raw_decode(text, i)
        docs.append(d)
        i = j
    return docs


def _dump(args):
    src, filt, incs = args
    # address-space randomisation off: the node ids (addresses) of the two dumps of the same translation unit then coincide, so that
    # references from namespace Givaro into namespace RecInt resolve (checked in build(): `cross_refs_resolved`)
    cmd = ["setarch", "x86_64", "-R", "clang++-14", "-std=gnu++17", "-fsyntax-only", "-DNDEBUG", "-UDEBUG", "-w"] + incs + \
          ["-I", os.path.join(common.VERIF, "harness"), "-Xclang", "-ast-dump=json", "-Xclang", "-ast-dump-filter=" + filt, src]
    p = subprocess.run(cmd, stdout=subprocess.PIPE, stderr=subprocess.PIPE, text=True)
    if p.returncode != 0:
        raise RuntimeError("clang failed on the alias translation unit:\n" + p.stderr[-4000:])
    return parse_docs(p.stdout)


def load_ast(log=lambda *a: None):
    work = os.path.join(common.CACHE, "ast_alias")
    os.makedirs(work, exist_ok=True)
    src = os.path.join(work, "alias_tu.C")
    text = tu_source()
    with open(src, "w") as fh:
        fh.write(text)
    hh = hashlib.sha256()
    hh.update(common.tree_hash().encode())
    hdir = os.path.join(common.VERIF, "harness")
    for f in sorted(os.listdir(hdir)):
        if f.endswith((".h", ".inc")) or f == "h_alias.cpp":
            with open(os.path.join(hdir, f), "rb") as fh:
                hh.update(fh.read())
    key = hh.hexdigest()[:20]
    pk = os.path.join(work, "docs_%s.pkl" % key)
    if os.path.exists(pk):
        with open(pk, "rb") as fh:
            return pickle.load(fh), key
    for f in os.listdir(work):
        if f.startswith("docs_"):
            os.unlink(os.path.join(work, f))
    incs = common.inc_flags()
    with cf.ThreadPoolExecutor(2) as ex:
        parts = list(ex.map(_dump, [(src, "Givaro", incs), (src, "RecInt", incs)]))
    docs = parts[0] + parts[1]
    with open(pk, "wb") as fh:
        pickle.dump(docs, fh, protocol=pickle.HIGHEST_PROTOCOL)
    return docs, key


# ------------------------------------------------------------------------------------------
# index of records and functions
# ------------------------------------------------------------------------------------------
FUNC_KINDS = ("FunctionDecl", "CXXMethodDecl", "CXXConstructorDecl", "CXXConversionDecl", "CXXDestructorDecl")


def norm_type(s):
    s = s or ""
    s = re.sub(r"\b(Givaro|RecInt|std)::", "", s)
    s = re.sub(r"(\d+)[uU]?[lL]*\b", r"\1", s)
    return s.replace(" ", "")


class Rec:
    def __init__(self, node, ns):
        self.id = node["id"]
        self.node = node
        self.name = node.get("name") or ""
        self.ns = ns
        self.targs = [c.get("type", {}).get("qualType") or str(c.get("value", "")) for c in node.get("inner", [])
                      if c.get("kind") == "TemplateArgument"]
        self.fields = [(c.get("name"), c.get("type", {})) for c in node.get("inner", []) if c.get("kind") == "FieldDecl"]
        self.bases = [b.get("type", {}).get("desugaredQualType") or b.get("type", {}).get("qualType") for b in node.get("bases", [])]
        self.methods = []

    def key(self):
        return norm_type(self.name + ("<" + ",".join(self.targs) + ">" if self.targs else ""))


class Fn:
    def __init__(self, node, cls, ns, file):
        self.node = node
        self.id = node["id"]
        self.name = node.get("name") or ""
        self.kind = node["kind"]
        self.cls = cls
        self.ns = ns
        self.file = file
        rng = node.get("range", {}).get("begin", {})
        self.line = node.get("loc", {}).get("line") or rng.get("line")
        self.params = [c for c in node.get("inner", []) if c.get("kind") == "ParmVarDecl"]
        self.body = next((c for c in node.get("inner", []) if c.get("kind") == "CompoundStmt"), None)
        self.qual = node.get("type", {}).get("qualType", "")
        self.static = node.get("storageClass") == "static"
        self.is_method = self.kind != "FunctionDecl"
        self.const = bool(re.search(r"\)\s*const(\s*noexcept)?\s*$", self.qual))
        self.mangled = node.get("mangledName", "")
        self.ir = None
        self.ir_err = None

    def label(self):
        return "%s%s" % ((self.cls.name + "::") if self.cls else "", self.name)


class Index:
    def __init__(self, docs):
        self.recs = {}
        self.fns = {}           # every decl id -> Fn (with or without body)
        self.defs = {}          # decl id -> Fn with body (through redeclaration chains)
        self.typedefs = {}      # name -> record id (namespace alias_kinds)
        self.kind_types = {}    # name -> type string (non-class kinds)
        self.curfile = None
        for d in docs:
            self.walk(d, None, "", False)
        # link redeclarations
        for f in list(self.fns.values()):
            if f.body is not None:
                self.defs[f.id] = f
        for f in list(self.fns.values()):
            if f.body is None:
                continue
            p = f.node.get("previousDecl")
            seen = set()
            while p and p not in seen:
                seen.add(p)
                self.defs.setdefault(p, f)
                pf = self.fns.get(p)
                if pf is None:
                    break
                if f.cls is None and pf.cls is not None:
                    f.cls = pf.cls
                if pf.static:
                    f.static = True
                p = pf.node.get("previousDecl")
            pc = f.node.get("parentDeclContextId")
            if f.cls is None and pc in self.recs:
                f.cls = self.recs[pc]
        for f in self.fns.values():
            if f.cls is not None and f.body is not None and f not in f.cls.methods:
                f.cls.methods.append(f)
        self.rec_by_key = {}
        for r in self.recs.values():
            if r.node.get("completeDefinition") or r.fields or r.methods:
                self.rec_by_key.setdefault(r.key(), r)

    def note_file(self, n):
        loc = n.get("loc", {})
        for l in (loc, loc.get("spellingLoc", {}), loc.get("expansionLoc", {}), n.get("range", {}).get("begin", {})):
            if "file" in l:
                self.curfile = l["file"]

    def walk(self, n, cls, ns, pattern):
        k = n.get("kind")
        if k is None:
            return
        self.note_file(n)
        if k == "NamespaceDecl":
            ns2 = (ns + "::" if ns else "") + (n.get("name") or "")
            for c in n.get("inner", []):
                self.walk(c, None, ns2, pattern)
            return
        if k in FUNC_KINDS:
            f = Fn(n, cls, ns, self.curfile)
            if pattern:
                f.body = None
            old = self.fns.get(f.id)
            if old is None or (old.body is None and (f.body is not None or len(n.get("inner", [])) > len(old.node.get("inner", [])))):
                self.fns[f.id] = f
            return
        if k in ("ClassTemplateDecl",):
            first = True
            for c in n.get("inner", []):
                ck = c.get("kind")
                if ck == "CXXRecordDecl" and first:
                    first = False
                    continue            # the dependent pattern
                if ck == "ClassTemplateSpecializationDecl":
                    self.walk(c, cls, ns, pattern)
            return
        if k == "ClassTemplatePartialSpecializationDecl":
            return
        if k == "FunctionTemplateDecl":
            first = True
            for c in n.get("inner", []):
                ck = c.get("kind")
                if ck in FUNC_KINDS:
                    if first:
                        first = False
                        f = Fn(c, cls, ns, self.curfile)
                        f.body = None
                        self.fns[f.id] = f
                        continue
                    self.walk(c, cls, ns, pattern)
            return
        if k in ("CXXRecordDecl", "ClassTemplateSpecializationDecl"):
            r = Rec(n, ns)
            old = self.recs.get(r.id)
            if old is not None and len(old.node.get("inner", [])) >= len(n.get("inner", [])):
                return
            self.recs[r.id] = r
            for c in n.get("inner", []):
                ck = c.get("kind")
                if ck == "FriendDecl":
                    for cc in c.get("inner", []):
                        self.walk(cc, None, ns, pattern)
                    continue
                self.walk(c, r, ns, pattern)
            return
        if k in ("TypedefDecl", "TypeAliasDecl") and ns.endswith("alias_kinds"):
            best = [None, 10 ** 9]

            def find_rec(t, depth):
                if t.get("kind") == "RecordType" and t.get("decl") and depth < best[1]:
                    best[0], best[1] = t["decl"]["id"], depth
                for c in t.get("inner", []):
                    find_rec(c, depth + 1)
            find_rec(n, 0)
            self.typedefs[n.get("name")] = best[0]
            self.kind_types[n.get("name")] = n.get("type", {}).get("desugaredQualType") or n.get("type", {}).get("qualType")
            return
        if k in ("LinkageSpecDecl",):
            for c in n.get("inner", []):
                self.walk(c, cls, ns, pattern)

    def bases_closure(self, rec):
        out, todo = [], [rec]
        while todo:
            r = todo.pop()
            if r in out:
                continue
            out.append(r)
            for b in r.bases:
                br = self.rec_by_key.get(norm_type(b))
                if br is not None:
                    todo.append(br)
        return out


def demangle_all(fns):
    names = [f.mangled for f in fns if f.mangled]
    if not names:
        return
    p = subprocess.run(["c++filt"], input="\n".join(names) + "\n", stdout=subprocess.PIPE, text=True)
    dm = dict(zip(names, p.stdout.split("\n")))
    for f in fns:
        f.demangled = dm.get(f.mangled, "")


def split_top(s, sep=","):
    out, depth, cur = [], 0, ""
    for ch in s:
        if ch in "<([":
            depth += 1
        elif ch in ">)]":
            depth -= 1
        if ch == sep and depth == 0:
            out.append(cur.strip())
            cur = ""
        else:
            cur += ch
    if cur.strip():
        out.append(cur.strip())
    return out


def demangled_params(dm):
    """canonical parameter types from a demangled signature"""
    s = dm.rstrip()
    s = re.sub(r"(\s+const|\s*&{1,2}|\s+volatile)+$", "", s)
    if not s.endswith(")"):
        return None
    depth = 0
    for i in range(len(s) - 1, -1, -1):
        ch = s[i]
        if ch in ")>]":
            depth += 1
        elif ch in "(<[":
            depth -= 1
            if depth == 0:
                inner = s[i + 1:-1]
                if inner.strip() in ("", "void"):
                    return []
                return split_top(inner)
    return None


# ------------------------------------------------------------------------------------------
# types and layouts
# ------------------------------------------------------------------------------------------
def tstr(tnode):
    if not tnode:
        return ""
    return tnode.get("desugaredQualType") or tnode.get("qualType") or ""


def strip_cvref(t):
    t = re.sub(r"\*\s*(const|volatile|__restrict)\s*$", "*", (t or "").strip())
    changed = True
    while changed:
        changed = False
        for suf in ("&&", "&", " const", " volatile"):
            if t.endswith(suf):
                t = t[:-len(suf)].strip()
                changed = True
        for pre in ("const ", "volatile "):
            if t.startswith(pre):
                t = t[len(pre):].strip()
                changed = True
    return t


def _eval_int(s):
    s = re.sub(r"(\d+)[uUlL]+", r"\1", s)
    if not re.fullmatch(r"[\d\s+\-*()]+", s):
        return None
    try:
        return int(eval(s, {"__builtins__": {}}))
    except Exception:
        return None


def is_rational(t):
    return re.fullmatch(r"(class )?(Givaro::)?Rational", strip_cvref(t)) is not None


def recint_of(t):
    """(class, K) when t is a RecInt integer type"""
    t = strip_cvref(t)
    m = re.match(r"^(?:RecInt::)?(ruint|rint|rmint)<\s*([^,>]+)", t)
    if not m:
        return None
    k = _eval_int(m.group(2))
    if k is None or k < 6 or k > 16:
        return None
    return m.group(1), k


def leaves_of(t):
    r = recint_of(t)
    if r is None:
        return 2 if is_rational(t) else 1       # Rational { Integer num, den; }
    return 1 << (r[1] - 6)


LOW_FIRST = True     # ruint<K> { ruint<K-1> Low, High; }  (checked against the AST in build())


def field_block(t, name):
    """(offset, length, type of the field) of a member of a RecInt integer; None for anything else"""
    r = recint_of(t)
    if r is None:
        if is_rational(t) and name in ("num", "den"):
            return (0 if name == "num" else 1), 1, "Givaro::Integer"
        return None
    cls, k = r
    n = 1 << (k - 6)
    if cls in ("rint", "rmint"):
        if name == "Value":
            return 0, n, "RecInt::ruint<%d>" % k
        return None
    if k == 6:
        if name == "Value":
            return 0, 1, "limb"
        return None
    h = n // 2
    if name == "Low":
        return (0 if LOW_FIRST else h), h, "RecInt::ruint<%d>" % (k - 1)
    if name == "High":
        return (h if LOW_FIRST else 0), h, "RecInt::ruint<%d>" % (k - 1)
    return None


def is_pointerish(t):
    t = strip_cvref(t)
    return t.endswith("*") or "iterator" in t or "__normal_iterator" in t


def is_builtin(t):
    t = strip_cvref(t)
    return bool(re.fullmatch(r"(unsigned |signed )?(char|short|int|long|long long|__int128|bool|float|double|long double|size_t|"
                             r"limb|wchar_t)( unsigned| int)*", t)) or t in ("unsigned", "unsigned __int128", "std::size_t",
                                                                            "unsigned long long", "long unsigned int")


class Formal:
    def __init__(self, name, typ, is_ref, is_const, role, node_id=None, by_value=False, is_ptr=False):
        self.name, self.role, self.node_id = name, role, node_id
        self.typ = strip_cvref(typ)
        self.leaves = leaves_of(self.typ)
        self.is_ref, self.is_const, self.by_value, self.is_ptr = is_ref, is_const, by_value, is_ptr

    @property
    def out(self):
        return (self.role == "ret") or (self.is_ref and not self.is_const) or (self.is_ptr and not self.is_const)


def formals_of(f):
    """[this] + parameters + [ret]"""
    out = []
    if f.is_method and not f.static and f.cls is not None:
        tt = "class " + f.cls.key()
        if f.cls.name == "Rational":
            tt = "Givaro::Rational"
        if f.cls.name in RECINT_CLASSES and f.cls.targs:
            tt = "RecInt::%s<%s>" % (f.cls.name, ", ".join(f.cls.targs))
        out.append(Formal("this", tt, True, f.const, "this"))
    dps = demangled_params(getattr(f, "demangled", "") or "")
    for i, p in enumerate(f.params):
        qt = p.get("type", {}).get("qualType", "")
        canon = tstr(p.get("type"))
        if dps is not None and len(dps) == len(f.params):
            canon = dps[i]
        raw = qt.strip()
        is_ref = raw.endswith("&")
        is_ptr = strip_cvref(raw).endswith("*")
        core = raw[:-1].strip() if is_ref and not raw.endswith("&&") else raw
        is_const = core.startswith("const ") or core.endswith(" const") or (is_ptr and ("const " in core))
        out.append(Formal(p.get("name") or ("_p%d" % i), canon, is_ref, is_const, "param", p["id"], by_value=not is_ref and not is_ptr,
                          is_ptr=is_ptr))
    ret, _ps, _c = Body.fn_params_from_type(None, f.qual)
    me = re.search(r"enable_if<(.*)>::type", ret)
    if me:
        parts = split_top(me.group(1))
        ret = parts[-1].strip() if len(parts) > 1 else "void"
    f.ret_is_ref = ret.endswith("&")
    f.ret_type = ret
    if f.kind in ("CXXConstructorDecl", "CXXDestructorDecl"):
        f.ret_is_ref, f.ret_type = False, "void"
    if ret and ret != "void" and not f.ret_is_ref and f.kind not in ("CXXConstructorDecl", "CXXDestructorDecl"):
        rt = ret
        if "enable_if" in ret or "typename" in ret or "::type" in ret:
            rt = "?"
        out.append(Formal("<ret>", rt, True, False, "ret"))
    return out


def first_return_type(node):
    if node.get("kind") == "ReturnStmt":
        for c in node.get("inner", []):
            t = tstr(c.get("type"))
            if t:
                return t
    for c in node.get("inner", []):
        if c.get("kind") == "LambdaExpr":
            continue
        t = first_return_type(c)
        if t:
            return t
    return None


# ------------------------------------------------------------------------------------------
# function body -> event IR
# ------------------------------------------------------------------------------------------
# references:  ('par', i, off, len) | ('loc', off, len)
# IR nodes:    ('prim', name, outs, ins, where) ('copy', dst, src, where) ('seq', [nodes]) ('ite', cid, ins, T, E, where)
#              ('ifalias', a, b, T, E) ('loop', cid, ins, body, where) ('brk',) ('ret',) ('call', fn_id, args, where) ('unknown', why)
class LV:
    def __init__(self, ref, typ, partial=False, deps=(), temp=False):
        self.ref, self.typ, self.partial, self.deps, self.temp = ref, strip_cvref(typ), partial, list(deps), temp
        self.decl = None
        self.origin = None      # declaration of the local array / heap block this lvalue is an element of


class RV:
    def __init__(self, deps=(), stamp=0, ptr_of=None):
        self.deps, self.stamp, self.ptr_of = list(deps), stamp, ptr_of     # ptr_of: LV when the value is the address of an lvalue


def ref_len(r):
    return r[3] if r[0] == "par" else r[2]


def sub_ref(r, off, ln):
    if r[0] == "par":
        return ("par", r[1], r[2] + off, ln)
    return ("loc", r[1] + off, ln)


SKIP_KINDS = ("ParenExpr", "ExprWithCleanups", "MaterializeTemporaryExpr", "CXXBindTemporaryExpr", "ConstantExpr", "FullExpr",
              "SubstNonTypeTemplateParmExpr", "CXXDefaultArgExpr", "CXXDefaultInitExpr")
ASSIGN_OPS = {"operator=", "operator+=", "operator-=", "operator*=", "operator/=", "operator%=", "operator<<=", "operator>>=",
              "operator&=", "operator|=", "operator^=", "operator++", "operator--"}
ELEMENT_OPS = {"operator[]", "at", "front", "back", "operator*", "operator->"}


class Body:
    def __init__(self, idx, f):
        self.idx, self.f = idx, f
        self.formals = formals_of(f)
        for fo in self.formals:
            if fo.role == "ret" and fo.typ == "?":
                t = first_return_type(f.body) if f.body else None
                fo.typ = strip_cvref(t or "?")
                fo.leaves = leaves_of(fo.typ)
        self.pmap = {fo.node_id: i for i, fo in enumerate(self.formals) if fo.node_id}
        self.this_i = 0 if self.formals and self.formals[0].role == "this" else None
        self.ret_i = len(self.formals) - 1 if self.formals and self.formals[-1].role == "ret" else None
        self.locals = {}        # VarDecl id -> LV (storage) or LV (reference binding)
        self.frame = 0
        self.pts = {}           # VarDecl/ParmVarDecl id of a pointer/iterator -> set of container decl ids
        self.nwrites = 0
        self.materialise = False
        self.where = "%s:%s" % (os.path.basename(f.file or "?"), f.line)

    # -- storage
    def alloc(self, typ):
        n = leaves_of(typ)
        r = ("loc", self.frame, n)
        self.frame += n
        return r

    def formal_ref(self, i):
        return ("par", i, 0, self.formals[i].leaves)

    # -- emit
    def emit(self, blk, node):
        if node[0] in ("prim", "copy", "call"):
            outs = node[2] if node[0] == "prim" else ([node[1]] if node[0] == "copy" else [1])
            if outs:
                self.nwrites += 1
        blk.append(node)

    def w(self, e):
        b = e.get("range", {}).get("begin", {})
        ln = b.get("line") or b.get("expansionLoc", {}).get("line") or b.get("spellingLoc", {}).get("line")
        return "%s:%s" % (os.path.basename(self.f.file or "?"), ln or self.f.line)

    def heap_block(self, did):
        if did not in self.heap:
            t = self.heap_types.get(did, "int")
            self.heap[did] = LV(self.alloc(t), t, True)
            self.heap[did].origin = did
        return self.heap[did]

    # -- pointer prepass
    def prepass_pts(self, body):
        decls = {}
        self.heap, self.heap_types, self.heap_esc, self.ptr_arrays = {}, {}, {}, set()

        def has_alloc(e):
            if e.get("kind") == "CXXNewExpr":
                return True
            if e.get("kind") == "DeclRefExpr" and e.get("referencedDecl", {}).get("name") in ("malloc", "calloc", "realloc", "alloca"):
                return True
            return any(has_alloc(c) for c in e.get("inner", []))

        local_ids = set(self.pmap)

        def collect(n):
            if n.get("kind") == "VarDecl" and n.get("storageClass") != "static":
                local_ids.add(n["id"])
            for c in n.get("inner", []):
                collect(c)
        collect(body)
        self.local_ids = local_ids

        def roots(e, acc):
            k = e.get("kind")
            if k == "DeclRefExpr":
                rd = e.get("referencedDecl", {})
                if rd.get("kind") in ("VarDecl", "ParmVarDecl") and rd.get("id") in local_ids:
                    acc.add(rd["id"])
            if k == "CXXThisExpr":
                acc.add("this")
            for c in e.get("inner", []):
                if c.get("kind") != "LambdaExpr":
                    roots(c, acc)

        assigns = []
        calls = []

        def scan(n):
            k = n.get("kind")
            if k == "VarDecl" and re.search(r"\*\s*\[", tstr(n.get("type"))):
                self.ptr_arrays.add(n["id"])        # a local array of pointers
            if k == "VarDecl" and is_pointerish(tstr(n.get("type"))):
                decls[n["id"]] = n
                self.heap_types[n["id"]] = strip_cvref(tstr(n.get("type")))[:-1].strip() if strip_cvref(tstr(n.get("type"))).endswith("*") else "int"
                for c in n.get("inner", []):
                    a = set()
                    if has_alloc(c):
                        a.add("heap:" + n["id"])
                    else:
                        roots(c, a)
                    assigns.append((n["id"], a))
            if k in ("BinaryOperator", "CompoundAssignOperator") and n.get("opcode", "=") in ("=", "+=", "-=") and len(n.get("inner", [])) == 2:
                l = n["inner"][0]
                if l.get("kind") == "DeclRefExpr" and is_pointerish(tstr(l.get("type"))):
                    a = set()
                    if has_alloc(n["inner"][1]):
                        a.add("heap:" + l["referencedDecl"]["id"])
                    else:
                        roots(n["inner"][1], a)
                    assigns.append((l["referencedDecl"]["id"], a))
            if k in ("CallExpr", "CXXMemberCallExpr"):
                calls.append(n)
            if k == "CXXOperatorCallExpr" and len(n.get("inner", [])) >= 3:
                cal = n["inner"][0]
                while cal.get("kind") == "ImplicitCastExpr":
                    cal = cal["inner"][0]
                if cal.get("referencedDecl", {}).get("name") == "operator=":
                    l = n["inner"][1]
                    if l.get("kind") == "DeclRefExpr" and is_pointerish(tstr(l.get("type"))):
                        a = set()
                        roots(n["inner"][2], a)
                        assigns.append((l["referencedDecl"]["id"], a))
            for c in n.get("inner", []):
                scan(c)
        scan(body)
        ptr_params = {fo.node_id for fo in self.formals if fo.node_id and is_pointerish(fo.typ)}
        pts = {d: set() for d in decls}
        for p in ptr_params:
            pts[p] = {"?"}
        changed = True
        while changed:
            changed = False
            for d, a in assigns:
                cur = pts.setdefault(d, set())
                for x in a:
                    new = pts[x] if x in pts else {x}
                    if not new <= cur:
                        cur |= new
                        changed = True
        self.pts = pts
        self.call_nodes = calls

    def finish_heap_escapes(self):
        """objects handed to a call together with a local pointer array (heap block or array variable): the array's elements may
        point into them"""
        def owners(d):
            out = set()
            for t in self.pts.get(d, ()):
                if isinstance(t, str) and t.startswith("heap:"):
                    out.add(t[5:])
            if d in self.ptr_arrays:
                out.add(d)
            return out
        for n in self.call_nodes:
            args = n.get("inner", [])[1:]
            rs = []
            for a in args:
                acc = set()

                def roots(e):
                    if e.get("kind") == "DeclRefExpr" and e.get("referencedDecl", {}).get("kind") in ("VarDecl", "ParmVarDecl") and \
                            e["referencedDecl"]["id"] in self.local_ids:
                        acc.add(e["referencedDecl"]["id"])
                    for c in e.get("inner", []):
                        roots(c)
                roots(a)
                rs.append(acc)
            for i, acc in enumerate(rs):
                for d in acc:
                    for own in owners(d):
                        for j, other in enumerate(rs):
                            if j == i:
                                continue
                            for o in other:
                                if o in self.pmap and is_pointerish(self.formals[self.pmap[o]].typ):
                                    continue
                                if o in self.pts or o in self.ptr_arrays:
                                    continue
                                self.heap_esc.setdefault(own, set()).add(o)

    # -- expressions ------------------------------------------------------------------
    def rv(self, e, blk):
        """evaluate to an rvalue (set of blocks the value depends on)"""
        v = self.ev(e, blk)
        return self.to_rv(v, blk)

    def to_rv(self, v, blk):
        if v is None:
            return RV([], self.nwrites)
        if isinstance(v, RV):
            if v.stamp != self.nwrites and v.deps and not self.materialise:
                raise Retry()
            return v
        deps = [v.ref] + v.deps
        if self.materialise and not v.temp:
            t = self.alloc(v.typ if not v.partial else "int")
            if not v.partial and ref_len(t) == ref_len(v.ref) and not v.deps:
                self.emit(blk, ("copy", t, v.ref, self.where))
            else:
                self.emit(blk, ("prim", "load", [t], deps, self.where))
            return RV([t], self.nwrites)
        return RV(deps, self.nwrites)

    def lv(self, e, blk):
        v = self.ev(e, blk)
        if isinstance(v, LV):
            return v
        raise Unsupported("lvalue expected at %s (%s)" % (self.w(e), e.get("kind")))

    def temp_from_rv(self, v, typ, blk, why="tmp"):
        t = self.alloc(typ)
        self.emit(blk, ("prim", why, [t], list(v.deps), self.cur_where or self.where))
        return LV(t, typ, temp=True)

    cur_where = None

    def ev(self, e, blk):
        k = e.get("kind")
        if k is None:
            return None
        if e.get("range", {}).get("begin", {}).get("line"):
            self.cur_where = self.w(e)
        if k in SKIP_KINDS:
            inner = [c for c in e.get("inner", []) if c.get("kind")]
            if not inner:
                return RV([], self.nwrites)
            return self.ev(inner[-1], blk)
        m = getattr(self, "ev_" + k, None)
        if m is None:
            raise Unsupported("%s at %s" % (k, self.w(e)))
        return m(e, blk)

    def _lit(self, e, blk):
        return RV([], self.nwrites)
    ev_IntegerLiteral = ev_FloatingLiteral = ev_CXXBoolLiteralExpr = ev_CharacterLiteral = ev_StringLiteral = _lit
    ev_CXXNullPtrLiteralExpr = ev_UnaryExprOrTypeTraitExpr = ev_CXXScalarValueInitExpr = ev_GNUNullExpr = _lit
    ev_TypeTraitExpr = ev_SizeOfPackExpr = ev_ImplicitValueInitExpr = ev_CXXNoexceptExpr = _lit

    def ev_CXXThisExpr(self, e, blk):
        if self.this_i is None:
            raise Unsupported("this outside a method")
        return RV([], self.nwrites, ptr_of=LV(self.formal_ref(self.this_i), self.formals[self.this_i].typ))

    def ev_DeclRefExpr(self, e, blk):
        rd = e.get("referencedDecl", {})
        rk = rd.get("kind")
        did = rd.get("id")
        t = tstr(e.get("type"))
        if rk == "ParmVarDecl":
            if did not in self.pmap:
                raise Unsupported("parameter of an enclosing function at %s" % self.w(e))
            i = self.pmap[did]
            v = LV(self.formal_ref(i), self.formals[i].typ if self.formals[i].typ != "?" else t)
            v.decl = did
            return v
        if rk == "VarDecl":
            if did in self.locals:
                v0 = self.locals[did]
                v = LV(v0.ref, v0.typ, v0.partial, v0.deps, v0.temp)
                v.decl = did
                return v
            # static / global / static data member: read-only state outside the operands
            return RV([], self.nwrites)
        if rk in ("EnumConstantDecl", "NonTypeTemplateParmDecl"):
            return RV([], self.nwrites)
        if rk in FUNC_KINDS:
            return RV([], self.nwrites)
        if rk in ("FieldDecl", "IndirectFieldDecl"):
            return RV([], self.nwrites)
        raise Unsupported("reference to %s at %s" % (rk, self.w(e)))

    def ev_MemberExpr(self, e, blk):
        inner = [c for c in e.get("inner", []) if c.get("kind")]
        if not inner:
            raise Unsupported("member without base")
        name = e.get("name")
        t = tstr(e.get("type"))
        if "bound member function" in t:
            raise Unsupported("bound member function used as a value at %s" % self.w(e))
        base = self.ev(inner[0], blk)
        if isinstance(base, RV):
            if base.ptr_of is not None:
                base = base.ptr_of
            else:
                return RV(base.deps, base.stamp)
        fb = field_block(base.typ, name)
        if fb is not None and not base.partial:
            off, ln, ft = fb
            return LV(sub_ref(base.ref, off, ln), ft, False, base.deps, base.temp)
        return LV(base.ref, t, True, base.deps, base.temp)

    def ev_ArraySubscriptExpr(self, e, blk):
        a, i = e["inner"][0], e["inner"][1]
        av = self.ev(a, blk)
        iv = self.rv(i, blk)
        return self.element_of(av, iv.deps, tstr(e.get("type")), e)

    def element_of(self, av, idx_deps, typ, e):
        if isinstance(av, RV):
            if av.ptr_of is not None:
                v = LV(av.ptr_of.ref, typ, True, av.ptr_of.deps + list(idx_deps) + [d for d in av.deps])
                v.origin = av.ptr_of.origin or av.ptr_of.decl
                return v
            raise Unsupported("element of an untracked pointer at %s" % self.w(e))
        v = LV(av.ref, typ, True, av.deps + list(idx_deps), av.temp)
        v.origin = av.origin or av.decl
        return v

    def pointee(self, v, typ, e):
        """lvalue designated by dereferencing the pointer / iterator value v"""
        if isinstance(v, RV) and v.ptr_of is not None:
            r = LV(v.ptr_of.ref, typ, v.ptr_of.partial or False, v.ptr_of.deps + v.deps)
            r.origin = v.ptr_of.origin or v.ptr_of.decl
            return r
        raise Unsupported("dereference of an untracked pointer at %s" % self.w(e))

    def ptr_value(self, e, blk):
        """value of a pointer / iterator expression: RV with ptr_of"""
        v = self.ev(e, blk)
        if isinstance(v, RV):
            if v.ptr_of is None:
                raise Unsupported("untracked pointer value at %s" % self.w(e))
            return v
        return self.ptr_value_of_lv(v, e)

    def ev_UnaryOperator(self, e, blk):
        op = e.get("opcode")
        x = e["inner"][0]
        if op == "&":
            v = self.lv(x, blk)
            return RV([], self.nwrites, ptr_of=v)
        if op == "*":
            pv = self.ptr_value(x, blk)
            return self.pointee(pv, tstr(e.get("type")), e)
        if op in ("++", "--"):
            v = self.lv(x, blk)
            self.emit(blk, ("prim", "builtin" + op, [v.ref], [v.ref] + v.deps, self.w(e)))
            if e.get("isPostfix"):
                return RV([v.ref], self.nwrites)
            return v
        v = self.rv(x, blk)
        return RV(v.deps, v.stamp)

    def ev_ImplicitCastExpr(self, e, blk):
        ck = e.get("castKind")
        x = e["inner"][0]
        if ck == "LValueToRValue":
            v = self.ev(x, blk)
            if isinstance(v, LV) and is_pointerish(v.typ):
                try:
                    return self.ptr_value_of_lv(v, x)
                except Unsupported:
                    return self.to_rv(v, blk)
            return self.to_rv(v, blk)
        if ck in ("ArrayToPointerDecay",):
            v = self.ev(x, blk)
            if isinstance(v, LV):
                pv = LV(v.ref, v.typ, True, v.deps)
                pv.origin = v.origin or v.decl
                return RV([], self.nwrites, ptr_of=pv)
            return v
        if ck in ("FunctionToPointerDecay", "BuiltinFnToFnPtr", "NullToPointer"):
            return RV([], self.nwrites)
        v = self.ev(x, blk)
        if isinstance(v, LV):
            if ck in ("NoOp", "DerivedToBase", "UncheckedDerivedToBase", "BaseToDerived"):
                if ck != "NoOp" and leaves_of(v.typ) != 1:
                    return v
                if ck != "NoOp":
                    return LV(v.ref, tstr(e.get("type")), v.partial, v.deps, v.temp)
                return v
            return self.to_rv(v, blk)
        if isinstance(v, RV) and v.ptr_of is not None and ck in ("NoOp", "DerivedToBase", "UncheckedDerivedToBase", "BitCast", "BaseToDerived"):
            return v
        if isinstance(v, RV):
            return RV(v.deps, v.stamp)
        return v

    def ptr_value_of_lv(self, v, x):
        did = v.decl
        if did is None and v.partial and v.ref[0] == "par" and self.formals[v.ref[1]].role == "this":
            # a pointer data member of the domain object (a table): what it points to belongs to the domain object
            return RV([v.ref] + v.deps, self.nwrites, ptr_of=LV(v.ref, "?", True, v.deps))
        if did is None and v.partial and v.origin in self.heap_esc:
            # a pointer loaded from a local pointer array: it points into one of the objects handed over together with the array
            cands = self.heap_esc[v.origin]
            if len(cands) == 1:
                c = next(iter(cands))
                if c in self.pmap:
                    cref = self.formal_ref(self.pmap[c])
                elif c in self.locals:
                    cref = self.locals[c].ref
                else:
                    raise Unsupported("pointer loaded from a local array into an object that is not yet declared at %s" % self.w(x))
                return RV([v.ref] + v.deps, self.nwrites, ptr_of=LV(cref, "?", True, []))
            raise Unsupported("pointer loaded from a local array with %d possible targets at %s" % (len(cands), self.w(x)))
        if did is None or did not in self.pts:
            raise Unsupported("untracked pointer")
        tgt = self.pts[did]
        if len(tgt) != 1 or "?" in tgt:
            raise Unsupported("pointer/iterator may point into several or unknown objects at %s" % self.w(x))
        t = next(iter(tgt))
        if isinstance(t, str) and t.startswith("heap:"):
            base = self.heap_block(t[5:])
        elif t == "this":
            base = LV(self.formal_ref(self.this_i), self.formals[self.this_i].typ, True)
        elif t in self.pmap:
            base = LV(self.formal_ref(self.pmap[t]), self.formals[self.pmap[t]].typ, True)
        elif t in self.locals:
            b = self.locals[t]
            base = LV(b.ref, b.typ, True, b.deps)
        else:
            raise Unsupported("pointer into untracked storage")
        return RV([v.ref], self.nwrites, ptr_of=base)

    def _cast(self, e, blk):
        inner = [c for c in e.get("inner", []) if c.get("kind")]
        if not inner:
            return RV([], self.nwrites)
        if e.get("castKind") in ("ConstructorConversion", "UserDefinedConversion"):
            return self.ev(inner[-1], blk)
        v = self.ev(inner[-1], blk)
        if isinstance(v, LV):
            if e.get("valueCategory") == "lvalue" or e.get("castKind") == "NoOp":
                return v
            return self.to_rv(v, blk)
        return v
    ev_CStyleCastExpr = ev_CXXStaticCastExpr = ev_CXXFunctionalCastExpr = ev_CXXConstCastExpr = ev_CXXReinterpretCastExpr = _cast
    ev_CXXDynamicCastExpr = _cast

    def ev_BinaryOperator(self, e, blk):
        op = e.get("opcode")
        l, r = e["inner"][0], e["inner"][1]
        if op == ",":
            self.ev(l, blk)
            return self.ev(r, blk)
        if op == "=":
            rvv = self.ev(r, blk)                  # C++17: right operand first
            lvv = self.lv(l, blk)
            self.assign(lvv, rvv, blk, self.w(e))
            return lvv
        if op in ("&&", "||"):
            a = self.rv(l, blk)
            sub = []
            n0 = self.nwrites
            b = self.rv(r, sub)
            if sub:
                cid = "c@" + self.w(e)
                if op == "&&":
                    self.emit(blk, ("ite", cid, a.deps, ("seq", sub), ("seq", []), self.w(e)))
                else:
                    self.emit(blk, ("ite", cid, a.deps, ("seq", []), ("seq", sub), self.w(e)))
                self.nwrites = max(self.nwrites, n0)
                return RV(a.deps + b.deps, self.nwrites)
            return RV(a.deps + b.deps, self.nwrites)
        a = self.rv(l, blk)
        b = self.rv(r, blk)
        a = self.to_rv(a, blk)
        out = RV(a.deps + b.deps, self.nwrites)
        if op in ("+", "-") and (a.ptr_of is not None):
            out.ptr_of = a.ptr_of
        return out

    def assign(self, lvv, rvv, blk, where):
        ins_extra = list(lvv.deps) + ([lvv.ref] if lvv.partial else [])
        if isinstance(rvv, LV):
            if not lvv.partial and not rvv.partial and ref_len(lvv.ref) == ref_len(rvv.ref) and not lvv.deps and not rvv.deps:
                self.emit(blk, ("copy", lvv.ref, rvv.ref, where))
                return
            rvv = self.to_rv(rvv, blk)
        rvv = self.to_rv(rvv, blk)
        self.emit(blk, ("prim", "store", [lvv.ref], list(rvv.deps) + ins_extra, where))

    def ev_CompoundAssignOperator(self, e, blk):
        l, r = e["inner"][0], e["inner"][1]
        rvv = self.rv(r, blk)
        lvv = self.lv(l, blk)
        rvv = self.to_rv(rvv, blk)
        self.emit(blk, ("prim", "builtin" + e.get("opcode", "op="), [lvv.ref], [lvv.ref] + lvv.deps + rvv.deps, self.w(e)))
        return lvv

    def ev_ConditionalOperator(self, e, blk):
        c, a, b = e["inner"][0], e["inner"][1], e["inner"][2]
        cv = self.rv(c, blk)
        ta, tb = [], []
        n0 = self.nwrites
        va = self.ev(a, ta)
        n1 = self.nwrites
        self.nwrites = n0
        vb = self.ev(b, tb)
        self.nwrites = max(n1, self.nwrites)
        if ta or tb:
            self.emit(blk, ("ite", "c@" + self.w(e), cv.deps, ("seq", ta), ("seq", tb), self.w(e)))
        if isinstance(va, LV) and isinstance(vb, LV) and va.ref == vb.ref:
            return LV(va.ref, va.typ, va.partial or vb.partial, va.deps + vb.deps + cv.deps)
        if e.get("valueCategory") == "lvalue" and isinstance(va, LV) and isinstance(vb, LV):
            raise Unsupported("conditional lvalue over two objects at %s" % self.w(e))
        deps = list(cv.deps)
        for v in (va, vb):
            if isinstance(v, LV):
                deps += [v.ref] + v.deps
            elif isinstance(v, RV):
                deps += v.deps
        return RV(deps, self.nwrites)
    ev_BinaryConditionalOperator = None

    def ev_InitListExpr(self, e, blk):
        deps = []
        for c in e.get("inner", []):
            if c.get("kind"):
                deps += self.rv(c, blk).deps
        return RV(deps, self.nwrites)

    def ev_CXXThrowExpr(self, e, blk):
        for c in e.get("inner", []):
            if c.get("kind"):
                try:
                    self.ev(c, blk)
                except Unsupported:
                    pass
        blk.append(("ret",))
        return None

    def ev_CXXNewExpr(self, e, blk):
        raise Unsupported("new-expression at %s" % self.w(e))

    def ev_LambdaExpr(self, e, blk):
        raise Unsupported("lambda at %s" % self.w(e))

    # -- calls ------------------------------------------------------------------------
    READONLY_METHODS = {"size", "empty", "begin", "end", "cbegin", "cend", "rbegin", "rend", "capacity", "front", "back", "at", "operator[]",
                        "data", "max_size", "value", "operator*", "operator->", "operator==", "operator!=", "operator<", "operator>",
                        "operator<=", "operator>=", "operator+", "operator-", "base", "c_str", "length", "get_mpz", "get_mpz_const",
                        "get_rep", "bitsize", "operator bool"}

    def fn_params_from_type(self, qt):
        """parameter type strings and const-ness of a function type string"""
        s = qt.strip()
        const = bool(re.search(r"\)\s*const(\s*noexcept)?\s*$", s))
        s2 = re.sub(r"\)\s*(const)?\s*(noexcept)?\s*$", ")", s)
        depth = 0
        for i in range(len(s2) - 1, -1, -1):
            ch = s2[i]
            if ch in ")>]":
                depth += 1
            elif ch in "(<[":
                depth -= 1
                if depth == 0:
                    inner = s2[i + 1:-1]
                    ret = s2[:i].strip()
                    ps = [] if inner.strip() in ("", "void") else split_top(inner)
                    return ret, ps, const
        return "", None, const

    def callee_info(self, e):
        k = e["kind"]
        inner = [c for c in e.get("inner", [])]
        head, args = inner[0], inner[1:]
        obj = None
        name, did, qt, is_method = None, None, None, False
        if k == "CXXMemberCallExpr":
            h = head
            while h.get("kind") in SKIP_KINDS or h.get("kind") == "ImplicitCastExpr":
                h = h["inner"][0]
            if h.get("kind") != "MemberExpr":
                raise Unsupported("member call through %s at %s" % (h.get("kind"), self.w(e)))
            name = h.get("name")
            did = h.get("referencedMemberDecl")
            obj = [c for c in h.get("inner", []) if c.get("kind")][0]
            is_method = True
            f = self.idx.fns.get(did)
            qt = f.qual if f is not None else None
        else:
            h = head
            while h.get("kind") in SKIP_KINDS or h.get("kind") == "ImplicitCastExpr":
                h = h["inner"][0]
            if h.get("kind") != "DeclRefExpr":
                raise Unsupported("call through %s at %s" % (h.get("kind"), self.w(e)))
            rd = h.get("referencedDecl", {})
            name, did = rd.get("name"), rd.get("id")
            qt = rd.get("type", {}).get("qualType")
            if rd.get("kind") in ("CXXMethodDecl", "CXXConversionDecl") and k == "CXXOperatorCallExpr":
                f = self.idx.fns.get(did)
                if not (f is not None and f.static):
                    obj, args = args[0], args[1:]
                    is_method = True
        return name, did, qt, is_method, obj, args

    def obj_lv(self, obj, blk):
        v = self.ev(obj, blk)
        if isinstance(v, RV):
            if v.ptr_of is not None:
                return v.ptr_of
            # a prvalue object: materialise
            return self.temp_from_rv(v, tstr(obj.get("type")), blk, "tmpobj")
        return v

    def _call(self, e, blk):
        name, did, qt, is_method, obj, args = self.callee_info(e)
        g = self.idx.defs.get(did)
        rett = tstr(e.get("type"))
        is_lvalue = e.get("valueCategory") == "lvalue"
        where = self.w(e)
        if g is not None and g.kind == "CXXDestructorDecl":
            return None
        # object
        ov = self.obj_lv(obj, blk) if obj is not None else None
        # copy assignment
        if name == "operator=" and ov is not None and len(args) == 1 and strip_cvref(tstr(args[0].get("type"))) == ov.typ.replace("const ", ""):
            src = self.ev(args[0], blk)
            self.assign(ov, src, blk, where)
            return ov
        internal = g is not None and g.body is not None and (g.ns.startswith("Givaro") or g.ns.startswith("RecInt")) and \
            g.kind not in ("CXXConstructorDecl", "CXXConversionDecl") and not g.node.get("variadic")
        if internal:
            return self._internal_call(e, g, ov, args, blk, where, rett, is_lvalue)
        return self._external_call(e, name, qt, is_method, ov, obj, args, blk, where, rett, is_lvalue, did)
    ev_CallExpr = ev_CXXMemberCallExpr = ev_CXXOperatorCallExpr = _call

    def bind_via_temp(self, v, typ, is_out, blk, post, where):
        t = self.alloc(typ)
        self.emit(blk, ("prim", "load-part", [t], [v.ref] + v.deps, where))
        if is_out:
            post.append(("prim", "store-part", [v.ref], [v.ref, t] + v.deps, where))
        return t

    def _internal_call(self, e, g, ov, args, blk, where, rett, is_lvalue):
        G = formals_of(g)
        bound, post, lvs = [], [], []
        ai = 0
        for fo in G:
            if fo.role == "ret":
                if fo.typ == "?":
                    fo.typ = strip_cvref(rett)
                    fo.leaves = leaves_of(fo.typ)
                t = self.alloc(fo.typ)
                bound.append(t)
                lvs.append(LV(t, fo.typ, temp=True))
                continue
            if fo.role == "this":
                v = ov
                if v is None:
                    raise Unsupported("method call without object at %s" % where)
            else:
                if ai >= len(args):
                    raise Unsupported("missing argument at %s" % where)
                a = args[ai]
                ai += 1
                if fo.is_ref or fo.is_ptr:
                    v = self.ev(a, blk)
                    if isinstance(v, RV):
                        if v.ptr_of is not None and fo.is_ptr:
                            v = v.ptr_of
                        elif fo.is_ptr:
                            raise Unsupported("untracked pointer argument at %s" % where)
                        else:
                            v = self.temp_from_rv(self.to_rv(v, blk), fo.typ, blk, "tmparg")
                    elif fo.is_ptr:
                        v = self.ptr_value_of_lv(v, a).ptr_of
                else:
                    v = self.ev(a, blk)
                    if isinstance(v, LV) and v.temp and not v.partial and ref_len(v.ref) == fo.leaves:
                        pass
                    elif isinstance(v, LV) and not v.partial and ref_len(v.ref) == fo.leaves and not v.deps:
                        t = self.alloc(fo.typ)
                        self.emit(blk, ("copy", t, v.ref, where))
                        v = LV(t, fo.typ, temp=True)
                    else:
                        v = self.temp_from_rv(self.to_rv(v, blk), fo.typ, blk, "byvalue")
            if v is None:
                raise Unsupported("void argument at %s" % where)
            if v.partial or v.deps or ref_len(v.ref) != fo.leaves:
                if not v.partial and ref_len(v.ref) != fo.leaves and not (fo.role == "this"):
                    raise Unsupported("argument of %d leaves bound to a formal of %d leaves (%s <- %s) at %s" %
                                      (ref_len(v.ref), fo.leaves, fo.typ, v.typ, where))
                if fo.role == "this" and ref_len(v.ref) != fo.leaves:
                    raise Unsupported("object of %d leaves for a method of a %d-leaf class at %s" % (ref_len(v.ref), fo.leaves, where))
                t = self.bind_via_temp(v, fo.typ, fo.out, blk, post, where)
                bound.append(t)
            else:
                bound.append(v.ref)
            lvs.append(v)
        self.emit(blk, ("call", g.id, bound, where))
        for p in post:
            self.emit(blk, p)
        if g.ret_is_ref:
            ri = returned_formal(self.idx, g)
            if ri is IGNORE or ri is None or ri >= len(lvs):
                cand = [i for i, fo in enumerate(G) if fo.out and fo.role != "ret" and norm_type(strip_cvref(lvs[i].typ)) == norm_type(strip_cvref(rett))]
                if not cand:
                    return self._unknown_ref(where, g)
                ri = cand[0]            # convention of the library's three-address functions: the (first) destination is returned
            return lvs[ri]
        if G and G[-1].role == "ret":
            v = lvs[-1]
            if is_builtin(v.typ) or is_pointerish(v.typ):
                return RV([v.ref], self.nwrites)
            return v
        return None

    def _unknown_ref(self, where, g=None):
        raise Unsupported("call of %s returning a reference to an undetermined object at %s" % (g.label() if g else "?", where))

    def _external_call(self, e, name, qt, is_method, ov, obj, args, blk, where, rett, is_lvalue, did):
        ptypes, const = None, False
        if qt:
            _, ptypes, const = self.fn_params_from_type(qt)
        outs, ins = [], []
        ptr_src = None
        if ov is not None:
            objt = tstr(obj.get("type")) if obj is not None else ""
            readonly = const or objt.startswith("const ") or (qt is None and name in self.READONLY_METHODS) or \
                (name in self.READONLY_METHODS and name not in ASSIGN_OPS)
            ins += [ov.ref] + ov.deps
            if not readonly:
                outs.append(ov.ref)
            if is_pointerish(ov.typ):
                try:
                    ptr_src = self.ptr_value_of_lv(ov, obj).ptr_of
                except Unsupported:
                    ptr_src = None
        first_lv = None
        for i, a in enumerate(args):
            if not a.get("kind"):
                continue
            pt = ptypes[i].strip() if ptypes is not None and i < len(ptypes) else None
            v = self.ev(a, blk)
            if i == 0 and isinstance(v, LV):
                first_lv = v
            nonconst_ref = pt is not None and pt.endswith("&") and not pt.endswith("&&") and \
                not (pt[:-1].strip().startswith("const ") or pt[:-1].strip().endswith(" const"))
            nonconst_ptr = pt is not None and strip_cvref(pt).endswith("*") and "const" not in pt
            if isinstance(v, LV):
                ins += [v.ref] + v.deps
                if nonconst_ref:
                    outs.append(v.ref)
                if ptr_src is None and is_pointerish(v.typ) and i == 0 and ov is None:
                    try:
                        ptr_src = self.ptr_value_of_lv(v, a).ptr_of
                    except Unsupported:
                        pass
            elif isinstance(v, RV):
                ins += v.deps
                if v.ptr_of is not None:
                    ins += [v.ptr_of.ref] + v.ptr_of.deps
                    if nonconst_ptr or pt is None:
                        outs.append(v.ptr_of.ref)
                    if ptr_src is None and i == 0 and ov is None:
                        ptr_src = v.ptr_of
        pname = "ext:" + (name or "?")
        ret_ref = rett and is_lvalue
        # value of the call
        if ret_ref:
            if outs:
                self.emit(blk, ("prim", pname, outs, ins, where))
            if name in ELEMENT_OPS:
                if ptr_src is not None:
                    return LV(ptr_src.ref, rett, True, ptr_src.deps + [d for d in ins if d != ptr_src.ref][:0])
                if ov is not None:
                    return LV(ov.ref, rett, True, ov.deps + [d for d in ins if d != ov.ref])
            if name in ASSIGN_OPS and ov is not None:
                return ov
            if ov is not None:
                return LV(ov.ref, rett, True, ov.deps)
            if first_lv is not None and strip_cvref(first_lv.typ) == strip_cvref(rett):
                return first_lv         # convention of the external three-address functions (Integer::add(r, a, b) returns r)
            if not any(isinstance(x, tuple) for x in outs):
                return LV(self.alloc("int"), rett, True, [], True)      # a reference to an object outside the operands (std::cerr << …)
            raise Unsupported("external call %s returning a reference at %s" % (name, where))
        if not rett or rett == "void":
            if outs:
                self.emit(blk, ("prim", pname, outs, ins, where))
            return None
        if is_builtin(rett) or is_pointerish(rett) or not outs:
            if outs or self.materialise:
                t = self.alloc(rett)
                self.emit(blk, ("prim", pname, outs + [t], ins, where))
                r = RV([t], self.nwrites)
            else:
                r = RV(ins, self.nwrites)
            if is_pointerish(rett):
                if name in ("begin", "end", "cbegin", "cend", "data", "rbegin", "rend") and ov is not None:
                    r.ptr_of = LV(ov.ref, ov.typ, True, ov.deps)
                elif ptr_src is not None:
                    r.ptr_of = ptr_src
            if not (is_builtin(rett) or is_pointerish(rett)):
                # a class prvalue computed by a pure external function: materialise it as a temporary object
                t = self.alloc(rett)
                self.emit(blk, ("prim", pname, [t], ins, where))
                return LV(t, rett, temp=True)
            return r
        t = self.alloc(rett)
        self.emit(blk, ("prim", pname, outs + [t], ins, where))
        return LV(t, rett, temp=True)

    # -- construction -----------------------------------------------------------------
    def construct_into(self, target, typ, e, blk):
        args = [c for c in e.get("inner", []) if c.get("kind")]
        where = self.w(e)
        if len(args) == 1 and strip_cvref(tstr(args[0].get("type"))) == strip_cvref(typ):
            v = self.ev(args[0], blk)
            self.assign(LV(target, typ), v, blk, where)
            return
        deps = []
        for a in args:
            v = self.ev(a, blk)
            if isinstance(v, LV):
                deps += [v.ref] + v.deps
            elif isinstance(v, RV):
                deps += v.deps
                if v.ptr_of is not None:
                    deps += [v.ptr_of.ref]
        self.emit(blk, ("prim", "ctor", [target], deps, where))

    def ev_CXXConstructExpr(self, e, blk):
        typ = tstr(e.get("type"))
        args = [c for c in e.get("inner", []) if c.get("kind")]
        if e.get("elidable") and len(args) == 1:
            return self.ev(args[0], blk)
        t = self.alloc(typ)
        self.construct_into(t, typ, e, blk)
        return LV(t, typ, temp=True)
    ev_CXXTemporaryObjectExpr = ev_CXXConstructExpr

    # -- statements -------------------------------------------------------------------
    def full(self, fn, blk):
        save = (self.frame, self.nwrites, len(blk))
        try:
            return fn(blk)
        except Retry:
            self.frame, self.nwrites = save[0], save[1]
            del blk[save[2]:]
            self.materialise = True
            try:
                return fn(blk)
            finally:
                self.materialise = False

    def alias_test(self, c):
        """('alias', lvA, lvB, negated) when c is an address comparison"""
        while c.get("kind") in SKIP_KINDS or (c.get("kind") == "ImplicitCastExpr" and c.get("castKind") in ("NoOp", "LValueToRValue")):
            c = [x for x in c["inner"] if x.get("kind")][-1]
        if c.get("kind") == "BinaryOperator" and c.get("opcode") in ("==", "!="):
            sides = []
            for s in c["inner"]:
                while s.get("kind") in SKIP_KINDS or s.get("kind") in ("ImplicitCastExpr", "CStyleCastExpr", "CXXStaticCastExpr", "CXXReinterpretCastExpr"):
                    s = [x for x in s["inner"] if x.get("kind")][-1]
                if s.get("kind") == "CXXThisExpr" and self.this_i is not None:
                    sides.append(self.formal_ref(self.this_i))
                elif s.get("kind") == "UnaryOperator" and s.get("opcode") == "&":
                    try:
                        v = self.ev(s["inner"][0], [])
                    except Unsupported:
                        return None
                    if not isinstance(v, LV) or v.partial:
                        return None
                    sides.append(v.ref)
                else:
                    return None
            return ("alias", sides[0], sides[1], c.get("opcode") == "!=")
        return None

    def const_value(self, e):
        """value of an integral constant expression made of literals (template arguments are literals after substitution)"""
        while e.get("kind") in SKIP_KINDS or (e.get("kind") == "ImplicitCastExpr" and e.get("castKind") in
                                              ("IntegralCast", "IntegralToBoolean", "NoOp")) or e.get("kind") in ("CStyleCastExpr", "CXXStaticCastExpr", "CXXFunctionalCastExpr"):
            xs = [x for x in e.get("inner", []) if x.get("kind")]
            if not xs:
                return None
            e = xs[-1]
        k = e.get("kind")
        if k == "IntegerLiteral":
            try:
                return int(e.get("value"))
            except (TypeError, ValueError):
                return None
        if k == "CXXBoolLiteralExpr":
            return 1 if e.get("value") else 0
        if k == "UnaryOperator" and e.get("opcode") in ("!", "-", "+"):
            v = self.const_value(e["inner"][0])
            if v is None:
                return None
            return {"!": int(not v), "-": -v, "+": v}[e["opcode"]]
        if k == "BinaryOperator":
            a, b = self.const_value(e["inner"][0]), self.const_value(e["inner"][1])
            op = e.get("opcode")
            if op == "&&" and (a == 0 or b == 0):
                return 0
            if op == "||" and ((a is not None and a != 0) or (b is not None and b != 0)):
                return 1
            if a is None or b is None:
                return None
            try:
                return int({"+": lambda: a + b, "-": lambda: a - b, "*": lambda: a * b, "/": lambda: a // b, "%": lambda: a % b,
                            "<": lambda: a < b, "<=": lambda: a <= b, ">": lambda: a > b, ">=": lambda: a >= b, "==": lambda: a == b,
                            "!=": lambda: a != b, "&&": lambda: bool(a) and bool(b), "||": lambda: bool(a) or bool(b),
                            "<<": lambda: a << b, ">>": lambda: a >> b, "&": lambda: a & b, "|": lambda: a | b}[op]())
            except (KeyError, ZeroDivisionError, ValueError):
                return None
        return None

    def cond_branch(self, c, T, E, blk):
        """emit: if (c) T else E, decomposing ||, &&, ! and address tests; a constant condition selects its branch"""
        cv0 = self.const_value(c)
        if cv0 is not None:
            blk.extend((T if cv0 else E)[1])
            return
        cc = c
        while cc.get("kind") in SKIP_KINDS:
            cc = [x for x in cc["inner"] if x.get("kind")][-1]
        if cc.get("kind") == "BinaryOperator" and cc.get("opcode") in ("||", "&&") and self.has_alias_test(cc):
            l, r = cc["inner"]
            sub = []
            if cc["opcode"] == "||":
                self.cond_branch(r, T, E, sub)
                self.cond_branch(l, T, ("seq", sub), blk)
            else:
                self.cond_branch(r, T, E, sub)
                self.cond_branch(l, ("seq", sub), E, blk)
            return
        if cc.get("kind") == "UnaryOperator" and cc.get("opcode") == "!" and self.has_alias_test(cc):
            self.cond_branch(cc["inner"][0], E, T, blk)
            return
        at = self.alias_test(cc)
        if at is not None:
            _, a, b, neg = at
            blk.append(("ifalias", a, b, E if neg else T, T if neg else E))
            return
        cv = self.full(lambda b: self.rv(c, b), blk)
        blk.append(("ite", "c@" + self.w(c), list(cv.deps), T, E, self.w(c)))

    def has_alias_test(self, c):
        if self.alias_test(c) is not None:
            return True
        k = c.get("kind")
        if k in SKIP_KINDS or (k == "BinaryOperator" and c.get("opcode") in ("||", "&&")) or (k == "UnaryOperator" and c.get("opcode") == "!"):
            return any(self.has_alias_test(x) for x in c.get("inner", []) if x.get("kind"))
        return False

    def block_of(self, s):
        b = []
        if s is not None and s.get("kind"):
            self.stmt(s, b)
        return ("seq", b)

    def stmt(self, s, blk):
        k = s.get("kind")
        if k is None or k == "NullStmt":
            return
        if k == "CompoundStmt":
            for c in s.get("inner", []):
                self.stmt(c, blk)
            return
        if k == "DeclStmt":
            for d in s.get("inner", []):
                self.decl(d, blk)
            return
        if k == "IfStmt":
            inner = s.get("inner", [])
            if s.get("hasInit") or s.get("hasVar"):
                raise Unsupported("if with init/variable at %s" % self.w(s))
            c = inner[0]
            T = self.block_of(inner[1]) if len(inner) > 1 else ("seq", [])
            E = self.block_of(inner[2]) if len(inner) > 2 else ("seq", [])
            self.cond_branch(c, T, E, blk)
            return
        if k in ("ForStmt", "WhileStmt", "DoStmt"):
            inner = s.get("inner", [])
            if k == "ForStmt":
                init, _cv, cond, inc, body = (inner + [{}] * 5)[:5]
                if init.get("kind"):
                    self.stmt(init, blk)
            elif k == "WhileStmt":
                cond, body = inner[-2], inner[-1]
                inc = {}
            else:
                body, cond = inner[0], inner[1]
                inc = {}
            cb = []
            cv = self.full(lambda b: self.rv(cond, b), cb) if cond.get("kind") else RV([], self.nwrites)
            bb = []
            if self.contains(body, "ContinueStmt"):
                raise Unsupported("continue at %s" % self.w(s))
            self.stmt(body, bb)
            if inc.get("kind"):
                self.full(lambda b: self.ev(inc, b), bb)
            cid = "c@" + self.w(s)
            if k == "DoStmt" and self.const_false(cond) and not self.contains(body, "BreakStmt"):
                blk.extend(bb)          # the do { … } while (0) of a macro
                return
            if k == "DoStmt":
                test = cb + [("ite", cid, list(cv.deps), ("seq", []), ("seq", [("brk",)]), self.w(s))]
                blk.append(("loop", "true", [], ("seq", bb + test), self.w(s)))
            elif cb:
                test = cb + [("ite", cid, list(cv.deps), ("seq", []), ("seq", [("brk",)]), self.w(s))]
                blk.append(("loop", "true", [], ("seq", test + bb), self.w(s)))
            else:
                blk.append(("loop", cid, list(cv.deps), ("seq", bb), self.w(s)))
            return
        if k == "ReturnStmt":
            inner = [c for c in s.get("inner", []) if c.get("kind")]
            if inner:
                x = inner[0]
                if self.ret_i is not None:
                    rr = self.formal_ref(self.ret_i)
                    rt = self.formals[self.ret_i].typ

                    def go(b):
                        y = x
                        while y.get("kind") in SKIP_KINDS:
                            y = [c for c in y["inner"] if c.get("kind")][-1]
                        if y.get("kind") in ("CXXConstructExpr", "CXXTemporaryObjectExpr") and not (is_builtin(rt)):
                            self.construct_into(rr, rt, y, b)
                        else:
                            v = self.ev(x, b)
                            self.assign(LV(rr, rt), v if v is not None else RV([], self.nwrites), b, self.w(s))
                    self.full(go, blk)
                else:
                    self.full(lambda b: self.ev(x, b), blk)
            blk.append(("ret",))
            return
        if k == "BreakStmt":
            blk.append(("brk",))
            return
        if k in ("ContinueStmt", "SwitchStmt", "CXXTryStmt", "CXXForRangeStmt", "GotoStmt", "LabelStmt", "GCCAsmStmt", "CaseStmt"):
            raise Unsupported("%s at %s" % (k, self.w(s)))
        # expression statement
        self.full(lambda b: self.ev(s, b), blk)

    def const_false(self, c):
        while c.get("kind") in SKIP_KINDS or c.get("kind") == "ImplicitCastExpr":
            c = [x for x in c["inner"] if x.get("kind")][-1]
        return (c.get("kind") == "IntegerLiteral" and c.get("value") == "0") or (c.get("kind") == "CXXBoolLiteralExpr" and c.get("value") is False)

    def contains(self, n, kind):
        if n.get("kind") == kind:
            return True
        return any(self.contains(c, kind) for c in n.get("inner", []) if c.get("kind") not in ("LambdaExpr",))

    def decl(self, d, blk):
        k = d.get("kind")
        if k != "VarDecl":
            if k in ("TypedefDecl", "TypeAliasDecl", "StaticAssertDecl", "UsingDecl", "UsingDirectiveDecl", "EmptyDecl", "CXXRecordDecl", "EnumDecl"):
                return
            raise Unsupported("declaration %s at %s" % (k, self.w(d)))
        qt = d.get("type", {}).get("qualType", "")
        typ = tstr(d.get("type"))
        init = next((c for c in d.get("inner", []) if c.get("kind")), None)
        if d.get("storageClass") == "static":
            if init is not None and not all(c.get("kind", "").endswith("Literal") for c in [init]):
                pass
            return      # static storage: outside the operands (C16 covers hidden state)
        if qt.strip().endswith("&"):
            if init is None:
                raise Unsupported("reference without initialiser")
            v = self.full(lambda b: self.ev(init, b), blk)
            if isinstance(v, RV):
                v = self.temp_from_rv(v, typ, blk, "reftmp")
            self.locals[d["id"]] = v
            return
        st = self.alloc(typ)
        self.locals[d["id"]] = LV(st, typ)
        if init is None:
            return
        y = init
        while y.get("kind") in SKIP_KINDS:
            ys = [c for c in y.get("inner", []) if c.get("kind")]
            if not ys:
                break
            y = ys[-1]

        def go(b):
            if y.get("kind") in ("CXXConstructExpr", "CXXTemporaryObjectExpr"):
                self.construct_into(st, typ, y, b)
            else:
                v = self.ev(init, b)
                self.assign(LV(st, typ), v if v is not None else RV([], self.nwrites), b, self.w(d))
        self.full(go, blk)

    def translate(self):
        f = self.f
        self.prepass_pts(f.body)
        self.finish_heap_escapes()
        blk = []
        self.stmt(f.body, blk)
        return ("seq", blk)


IGNORE = "<ignore>"


def returned_formal(idx, g):
    """index of the formal a reference-returning function returns (None when undetermined)"""
    if hasattr(g, "_retf"):
        return g._retf
    g._retf = IGNORE
    B = Body(idx, g)
    res = set()

    def light(x):
        while x.get("kind") in SKIP_KINDS or x.get("kind") in ("ImplicitCastExpr", "CStyleCastExpr", "CXXStaticCastExpr", "CXXConstCastExpr"):
            xs = [c for c in x.get("inner", []) if c.get("kind")]
            if not xs:
                return None
            x = xs[-1]
        k = x.get("kind")
        if k == "DeclRefExpr":
            return B.pmap.get(x.get("referencedDecl", {}).get("id"))
        if k == "UnaryOperator" and x.get("opcode") == "*":
            y = x["inner"][0]
            while y.get("kind") in SKIP_KINDS or y.get("kind") == "ImplicitCastExpr":
                y = y["inner"][0]
            if y.get("kind") == "CXXThisExpr":
                return B.this_i
            return None
        if k in ("BinaryOperator", "CompoundAssignOperator") and x.get("opcode", "").endswith("="):
            return light(x["inner"][0])
        if k == "ConditionalOperator":
            a, b = light(x["inner"][1]), light(x["inner"][2])
            return a if a == b else None
        if k in ("CallExpr", "CXXMemberCallExpr", "CXXOperatorCallExpr"):
            try:
                name, did, qt, is_method, obj, args = B.callee_info(x)
            except Unsupported:
                return None
            g2 = idx.defs.get(did)
            if g2 is not None and g2.body is not None:
                formals_of(g2)
                if not g2.ret_is_ref:
                    return None
                j = returned_formal(idx, g2)
                if j is IGNORE:
                    return IGNORE        # a call back into a function under examination: no information from this path
                if j is None:
                    return None
                G2 = formals_of(g2)
                if G2 and G2[0].role == "this":
                    if j == 0:
                        return light(obj) if obj is not None else None
                    j -= 1
                return light(args[j]) if j < len(args) else None
            if name in ASSIGN_OPS and obj is not None:
                return light(obj)
            if name in ASSIGN_OPS and args:
                return light(args[0])
            return None
        return None

    def scan(n):
        if n.get("kind") == "ReturnStmt":
            inner = [c for c in n.get("inner", []) if c.get("kind")]
            res.add(light(inner[0]) if inner else None)
            return
        for c in n.get("inner", []):
            if c.get("kind") != "LambdaExpr":
                scan(c)
    if g.body is not None:
        scan(g.body)
    res.discard(IGNORE)
    g._retf = None
    if len(res) == 1 and None not in res:
        g._retf = next(iter(res))
    elif g.ret_is_ref:
        # convention of the library's three-address functions: the destination is returned
        for i, fo in enumerate(B.formals):
            if fo.out and fo.role != "this" and strip_cvref(fo.typ) != "?" and \
                    norm_type(strip_cvref(g.ret_type)).endswith(norm_type(fo.typ).split("::")[-1][-12:]):
                g._retf = i
                g._retf_assumed = True
                break
        if g._retf is None and B.this_i is not None and not g.const:
            g._retf = B.this_i
            g._retf_assumed = True
    return g._retf


def get_ir(idx, f):
    """('ok', Body, ir) or ('unknown', reason)"""
    if f.ir is not None or f.ir_err is not None:
        return f.ir, f.ir_err
    try:
        B = Body(idx, f)
        ir = B.translate()
        f.ir = (B, ir)
    except Unsupported as ex:
        f.ir_err = str(ex)
    except (KeyError, IndexError, TypeError, AttributeError) as ex:
        f.ir_err = "translator error %s: %s" % (type(ex).__name__, ex)
    return f.ir, f.ir_err


# ------------------------------------------------------------------------------------------
# rows, alias patterns
# ------------------------------------------------------------------------------------------
def shape_of(formals):
    """(shape string, element type, aliasable formal indices with letters)"""
    outs = [fo for fo in formals if fo.out and fo.role != "this"] or [fo for fo in formals if fo.out]
    if not outs:
        return None
    t0 = outs[0].typ
    shape, letters = "", {}
    ro, ri = iter("rstuvw"), iter("abcdefgh")
    for i, fo in enumerate(formals):
        if fo.role == "this" and fo.typ != t0:
            continue
        if fo.typ == t0:
            if fo.out:
                shape += "r"
                letters[i] = next(ro)
            else:
                shape += "a"
                letters[i] = next(ri)
        else:
            shape += "o" if fo.out else "s"
    return shape, t0, letters


def partitions(items, is_out):
    """set partitions of items in which no block holds two outputs"""
    if not items:
        yield []
        return
    first, rest = items[0], items[1:]
    for p in partitions(rest, is_out):
        for i, blk in enumerate(p):
            if is_out(first) and any(is_out(x) for x in blk):
                continue
            yield p[:i] + [[first] + blk] + p[i + 1:]
        yield [[first]] + p


def pattern_name(blocks, letters):
    names = []
    for b in blocks:
        if len(b) > 1:
            ls = sorted((letters[i] for i in b), key=lambda c: (c in "abcdefgh", c))
            names.append("".join(ls))
    return "_".join(sorted(names, key=lambda s: (s[0] in "abcdefgh", s))) or "none"


class Row:
    def __init__(self, kind, fn, formals, shape, letters):
        self.kind, self.fn, self.formals, self.shape, self.letters = kind, fn, formals, shape, letters
        self.op = "%s:%s" % (fn.name, shape)


def class_rows(idx, kind, rec):
    rows = []
    opset = RATIONAL_OPS if rec.name == "Rational" else RING_OPS
    seen = set()
    for r in idx.bases_closure(rec):
        for f in r.methods:
            if f.name not in opset or f.body is None or f.static or f.kind != "CXXMethodDecl":
                continue
            fo = formals_of(f)
            sh = shape_of(fo)
            if sh is None:
                continue
            shape, t0, letters = sh
            if len(letters) < 2 or not any(fo[i].out for i in letters):
                continue
            if any(is_pointerish(x.typ) for x in fo):
                continue        # iterator-range helpers: internal, never called by the harness
            key = (f.name, shape)
            if key in seen:
                continue        # overridden in a more derived class
            seen.add(key)
            rows.append(Row(kind, f, fo, shape, letters))
    return rows


def recint_rows(idx, kind, typ):
    rows = []
    want = norm_type(strip_cvref(typ))
    for f in idx.fns.values():
        if f.body is None or f.cls is not None or not f.ns.startswith("RecInt") or f.name not in RECINT_OPS:
            continue
        fo = formals_of(f)
        sh = shape_of(fo)
        if sh is None:
            continue
        shape, t0, letters = sh
        if norm_type(t0) != want or len(letters) < 2 or not any(fo[i].out for i in letters):
            continue
        rows.append(Row(kind, f, fo, shape, letters))
    # several instantiations with the same (name, shape) can exist (different scalar types): keep all, numbered
    bykey = {}
    for r in rows:
        bykey.setdefault(r.op, []).append(r)
    out = []
    for op, rs in sorted(bykey.items()):
        rs.sort(key=lambda r: r.fn.qual)
        for j, r in enumerate(rs):
            if j:
                r.op = "%s#%d" % (op, j)
            out.append(r)
    return out


# ------------------------------------------------------------------------------------------
# specialisation to Prog terms (mirror of the Lean data type)
# ------------------------------------------------------------------------------------------
class Gen:
    def __init__(self, idx):
        self.idx = idx
        self.prims = {"read": 0}
        self.conds = {"true": 0}
        self.tasks = {}          # (fn id, sig) -> (name, term) ; term None while in progress
        self.task_list = []
        self.modelled_used = set()
        self.pruned = set()
        self.term_by_name = {}

    def prim_id(self, name):
        return self.prims.setdefault(name, len(self.prims))

    def cond_id(self, name):
        return self.conds.setdefault(name, len(self.conds))

    @staticmethod
    def lref(r):
        return r

    def modelled(self, g):
        if g.cls is None:
            return None
        fo = formals_of(g)
        sh = shape_of(fo)
        if sh is None:
            return None
        return MODELLED.get((g.cls.name, g.name, sh[0]))

    def task(self, fn, sig):
        key = (fn.id, sig)
        if key in self.tasks:
            name, term = self.tasks[key]
            if term is None:
                return None, "recursive call of %s under aliasing" % fn.label()
            return name, None
        ir, err = get_ir(self.idx, fn)
        if ir is None:
            return None, "%s is outside the dialect: %s" % (fn.label(), err)
        name = "t%d" % len(self.tasks)
        self.tasks[key] = (name, None)
        B, tree = ir
        term = self.spec(B, tree, sig, True)
        self.tasks[key] = (name, term)
        self.term_by_name[name] = term
        self.task_list.append((name, fn, term, B.frame))
        return name, None

    def leaf_ids(self, B, sig, ref):
        """identity of every leaf of a block: ('F', k) flat index of a formal leaf or ('L', off)"""
        if ref[0] == "par":
            base = sum(fo.leaves for fo in B.formals[:ref[1]])
            return [("F", base + ref[2] + k) for k in range(ref[3])]
        return [("L", ref[1] + k) for k in range(ref[2])]

    def spec(self, B, node, sig, descend):
        t = node[0]
        if t == "seq":
            items = [self.spec(B, x, sig, descend) for x in node[1]]
            items = [x for x in items if x[0] != "skip"]
            if not items:
                return ("skip",)
            out = items[-1]
            for x in reversed(items[:-1]):
                out = ("seq", x, out)
            return out
        if t == "prim":
            return ("prim", self.prim_id(node[1]), list(node[2]), list(node[3]), node[4])
        if t == "copy":
            return ("copy", node[1], node[2], node[3])
        if t == "ite":
            return ("ite", self.cond_id(node[1]), list(node[2]), self.spec(B, node[3], sig, descend), self.spec(B, node[4], sig, descend), node[5])
        if t == "loop":
            return ("loop", self.cond_id(node[1]), list(node[2]), self.spec(B, node[3], sig, descend), node[4])
        if t in ("brk", "ret"):
            return (t,)
        if t == "ifalias":
            a, b = node[1], node[2]
            ia, ib = self.leaf_ids(B, sig, a)[:1], self.leaf_ids(B, sig, b)[:1]
            taken = False
            if ia and ib:
                x, y = ia[0], ib[0]
                if x == y:
                    taken = True
                elif x[0] == "F" and y[0] == "F":
                    taken = sig[x[1]][0] == sig[y[1]][0] or sig[x[1]][1] == sig[y[1]][1]
            T = self.spec(B, node[3], sig, descend and taken)
            E = self.spec(B, node[4], sig, descend and not taken)
            return ("ifAlias", a, b, T, E)
        if t == "call":
            g = self.idx.defs.get(node[1]) or self.idx.fns.get(node[1])
            args = node[2]
            G = formals_of(g)
            where = node[3]
            mod = self.modelled(g)
            outs = [a for a, fo in zip(args, G) if fo.out]
            if mod == "copy":
                ins = [a for a, fo in zip(args, G) if not fo.out and fo.role != "this"]
                self.modelled_used.add(g.label())
                if len(outs) == 1 and len(ins) == 1 and ref_len(outs[0]) == ref_len(ins[0]):
                    return ("copy", outs[0], ins[0], where)
            if mod is not None and mod != "copy":
                self.modelled_used.add(g.label())
                return ("prim", self.prim_id(mod + ":" + g.label()), outs, list(args), where)
            # conflict: a written argument leaf identified (by the pattern) with another argument leaf at a different location
            ids = [self.leaf_ids(B, sig, a) for a in args]
            flat = [x for l in ids for x in l]
            conflict = False
            for a, fo, l in zip(args, G, ids):
                if not fo.out:
                    continue
                for wleaf in l:
                    if wleaf[0] != "F":
                        continue
                    for x in flat:
                        if x[0] == "F" and x != wleaf and sig[x[1]][0] != sig[wleaf[1]][0] and sig[x[1]][1] == sig[wleaf[1]][1]:
                            conflict = True
            if not conflict or not descend:
                self.pruned.add(g.label())
                return ("prim", self.prim_id("call:" + g.label()), outs, list(args), where)
            # induced signature of the callee
            locs, clss, csig = {}, {}, []
            for x in flat:
                lk = ("F", sig[x[1]][0]) if x[0] == "F" else x
                ck = ("F", sig[x[1]][1]) if x[0] == "F" else x
                csig.append((locs.setdefault(lk, len(locs)), clss.setdefault(ck, len(clss))))
            name, err = self.task(g, tuple(csig))
            if name is None:
                return ("bad", err + " (called at %s)" % where)
            return ("call", name, list(args), B.frame, where)
        if t == "unknown":
            return ("bad", node[1])
        raise RuntimeError("IR node %r" % (t,))


# ------------------------------------------------------------------------------------------
# mirror of the Lean discipline (Model/AliasProg.lean `safe`), with reasons
# ------------------------------------------------------------------------------------------
class Unsafe(Exception):
    pass


class Mirror:
    def __init__(self, gen, conf, al, describe):
        self.gen, self.conf, self.al, self.describe = gen, conf, al, describe
        self.terms = gen.term_by_name
        self.steps = 0

    @staticmethod
    def start(E, r):
        rho, sp = E
        if r[0] == "par":
            return (rho[r[1]] if r[1] < len(rho) else 0) + r[2]
        return sp + r[1]

    def locs(self, E, r):
        s = self.start(E, r)
        return range(s, s + ref_len(r))

    def mask(self, E, rs):
        m = 0
        for r in rs:
            m |= ((1 << ref_len(r)) - 1) << self.start(E, r)
        return m

    def wr(self, D, w):
        return (D & ~(1 << w)) | (self.conf(w) & ~(1 << w))

    def check_read(self, D, E, ins, where, what):
        bad = D & self.mask(E, ins)
        if bad:
            raise Unsafe("%s reads %s after the aliased destination was written (%s)" % (what, self.describe(bad), where))

    def safe(self, p, E, D):
        """(nr, n, b, r): mirror of the Lean `safe` (raises Unsafe instead of returning none)"""
        self.steps += 1
        t = p[0]
        if t == "skip":
            return (True, D, 0, 0)
        if t == "prim":
            self.check_read(D, E, p[3], p[4], "primitive '%s'" % self.gen_prim_name(p[1]))
            for r in p[2]:
                for w in self.locs(E, r):
                    D = self.wr(D, w)
            return (True, D, 0, 0)
        if t == "copy":
            for d, s in zip(self.locs(E, p[1]), self.locs(E, p[2])):
                if D >> s & 1:
                    raise Unsafe("copy reads %s after the aliased destination was written (%s)" % (self.describe(1 << s), p[3]))
                D = (D & ~(1 << d)) if self.al(d, s) else self.wr(D, d)
            return (True, D, 0, 0)
        if t == "seq":
            x = self.safe(p[1], E, D)
            if not x[0]:
                return x
            y = self.safe(p[2], E, x[1])
            return (y[0], y[1], x[2] | y[2], x[3] | y[3])
        if t == "ite":
            self.check_read(D, E, p[2], p[5], "condition")
            x = self.safe(p[3], E, D)
            y = self.safe(p[4], E, D)
            return (x[0] or y[0], x[1] | y[1], x[2] | y[2], x[3] | y[3])
        if t == "ifAlias":
            if self.al(self.start(E, p[1]), self.start(E, p[2])):
                return self.safe(p[3], E, D)
            return self.safe(p[4], E, D)
        if t == "loop":
            x = self.safe(p[3], E, D)
            inv = D | x[1]
            y = self.safe(p[3], E, inv)
            if (y[1] | inv) != inv:
                raise Unsafe("loop at %s: the dirty set does not stabilise after one pass" % p[4])
            self.check_read(inv, E, p[2], p[4], "loop condition")
            return (True, inv | y[2], 0, y[3])
        if t == "brk":
            return (False, 0, D, 0)
        if t == "ret":
            return (False, 0, 0, D)
        if t == "call":
            rho, sp = E
            E2 = ([self.start(E, a) for a in p[2]], sp + p[3])
            x = self.safe(self.terms[p[1]], E2, D)
            return (True, x[1] | x[2] | x[3], 0, 0)
        if t == "bad":
            raise Unsafe(p[1])
        raise RuntimeError(t)

    def gen_prim_name(self, pid):
        for k, v in self.gen.prims.items():
            if v == pid:
                return k
        return "?"


# ------------------------------------------------------------------------------------------
# build: rows -> entries -> classification -> Lean
# ------------------------------------------------------------------------------------------
def lean_str(s):
    return '"' + s.replace("\\", "\\\\").replace('"', '\\"') + '"'


def lean_ref(r):
    if r[0] == "par":
        return ".par %d %d %d" % (r[1], r[2], r[3])
    return ".loc %d %d" % (r[1], r[2])


def lean_refs(rs):
    return "[" + ", ".join(lean_ref(r) for r in rs) + "]"


def lean_term(p):
    t = p[0]
    if t == "skip":
        return ".skip"
    if t == "prim":
        return "(.prim %d %s %s)" % (p[1], lean_refs(p[2]), lean_refs(p[3]))
    if t == "copy":
        return "(.copy (%s) (%s))" % (lean_ref(p[1]), lean_ref(p[2]))
    if t == "seq":
        return "(.seq %s %s)" % (lean_term(p[1]), lean_term(p[2]))
    if t == "ite":
        return "(.ite %d %s %s %s)" % (p[1], lean_refs(p[2]), lean_term(p[3]), lean_term(p[4]))
    if t == "ifAlias":
        return "(.ifAlias (%s) (%s) %s %s)" % (lean_ref(p[1]), lean_ref(p[2]), lean_term(p[3]), lean_term(p[4]))
    if t == "loop":
        return "(.loop %d %s %s)" % (p[1], lean_refs(p[2]), lean_term(p[3]))
    if t == "brk":
        return ".brk"
    if t == "ret":
        return ".ret"
    if t == "call":
        return "(.call %s %s %d)" % (p[1], lean_refs(p[2]), p[3])
    if t == "bad":
        return ".skip"      # only inside branches that the pattern's address tests never take, or inside unsafe rows (not emitted)
    raise RuntimeError(t)


def term_tasks(p, acc):
    if p[0] == "call":
        acc.add(p[1])
    for x in p[1:]:
        if isinstance(x, tuple) and x and isinstance(x[0], str) and x[0] in ("skip", "prim", "copy", "seq", "ite", "ifAlias", "loop", "brk", "ret", "call", "bad"):
            term_tasks(x, acc)


def build(log=lambda *a: None):
    global LOW_FIRST
    docs, key = load_ast(log)
    idx = Index(docs)
    demangle_all([f for f in idx.fns.values() if f.body is not None])
    for r in idx.recs.values():
        if r.name == "ruint" and len(r.fields) >= 2 and {r.fields[0][0], r.fields[1][0]} == {"Low", "High"}:
            LOW_FIRST = r.fields[0][0] == "Low"
            break
    gen = Gen(idx)
    rows = []
    kinds = {}
    for kind, rid in sorted(idx.typedefs.items()):
        typ = idx.kind_types.get(kind) or ""
        rec = idx.recs.get(rid)
        if recint_of(typ) is not None:
            rs = recint_rows(idx, kind, typ)
        elif rec is not None:
            # the typedef may name a declaration of the specialisation other than its definition
            if not rec.methods and not rec.fields:
                rec = idx.rec_by_key.get(rec.key(), rec)
            rs = class_rows(idx, kind, rec)
        else:
            rs = []
        kinds[kind] = len(rs)
        rows += rs
    entries, unsafe, assumed = [], [], []
    for row in rows:
        F = row.formals
        sizes = [fo.leaves for fo in F]
        bases = [sum(sizes[:i]) for i in range(len(sizes))]
        sp = sum(sizes)
        outs_mask = 0
        for fo, b in zip(F, bases):
            if fo.out:
                outs_mask |= ((1 << fo.leaves) - 1) << b
        if gen.modelled(row.fn) is not None:
            assumed.append(dict(kind=row.kind, op=row.op, what=gen.modelled(row.fn), where="%s:%s" % (os.path.basename(row.fn.file or "?"), row.fn.line)))
            continue
        items = sorted(row.letters)
        names = {}
        for i, fo in enumerate(F):
            for k in range(fo.leaves):
                names[bases[i] + k] = fo.name + ("[%d]" % k if fo.leaves > 1 else "")

        def describe(mask, names=names):
            return ", ".join(names.get(l, "local@%d" % l) for l in range(mask.bit_length()) if mask >> l & 1)
        for blocks in partitions(items, lambda i: F[i].out):
            pat = pattern_name(blocks, row.letters)
            classes = []
            conf = {}
            rep_of = {}
            for b in blocks:
                b = [i for i in b if not F[i].by_value]        # a by-value formal is a private copy of its argument
                if len(b) < 2:
                    continue
                n = F[b[0]].leaves
                for k in range(n):
                    members = [bases[i] + k for i in b]
                    m = 0
                    for l in members:
                        m |= 1 << l
                    classes.append((min(members), m))
                    for l in members:
                        conf[l] = m
                        rep_of[l] = min(members)
            sig = tuple((l, rep_of.get(l, l)) for l in range(sp))
            e = dict(kind=row.kind, op=row.op, pat=pat, sizes=sizes, outs=outs_mask, d0=0, cls=classes,
                     where="%s:%s" % (os.path.basename(row.fn.file or "?"), row.fn.line), fn=row.fn.label())
            name, err = gen.task(row.fn, sig)
            if name is None:
                if "recursive call of" in (err or ""):
                    # (mutually) recursive bodies -- e.g. RecInt add(a,b,scalar) <-> sub(a,b,|scalar|) dispatching on the sign of the scalar --
                    # have no event program (a callee's program is a sub-term of its call): the row is modelled, not analysed, and is
                    # decided by the dynamic tie only, like the other assumed rows
                    if not any(a["kind"] == row.kind and a["op"] == row.op for a in assumed):
                        assumed.append(dict(kind=row.kind, op=row.op, what="recursion: " + err,
                                            where="%s:%s" % (os.path.basename(row.fn.file or "?"), row.fn.line)))
                    continue
                e["reason"] = err
                unsafe.append(e)
                continue
            e["prog"] = name
            mir = Mirror(gen, lambda w, conf=conf: conf.get(w, 0), lambda a, b, rep_of=rep_of: rep_of.get(a, a) == rep_of.get(b, b), describe)
            try:
                x = mir.safe(gen.term_by_name[name], (bases, sp), 0)
                bad = ((x[1] if x[0] else 0) | x[3]) & outs_mask
                if bad:
                    raise Unsafe("the output %s may hold a value computed from an overwritten operand" % describe(bad))
                e["weight"] = mir.steps * max(1, sp // 4)
                entries.append(e)
            except Unsafe as ex:
                if "recursive call of" in str(ex):      # see above: recursion is modelled, not analysed
                    if not any(a["kind"] == row.kind and a["op"] == row.op for a in assumed):
                        assumed.append(dict(kind=row.kind, op=row.op, what="recursion: " + str(ex),
                                            where="%s:%s" % (os.path.basename(row.fn.file or "?"), row.fn.line)))
                    continue
                e["reason"] = str(ex)
                unsafe.append(e)
            except RecursionError:
                e["reason"] = "analysis too deep"
                unsafe.append(e)
    meta = dict(key=key, kinds=kinds, entries=entries, unsafe=unsafe, assumed=assumed,
                prims=sorted(gen.prims, key=gen.prims.get), modelled_used=sorted(gen.modelled_used), pruned_calls=len(gen.pruned),
                tasks=len(gen.task_list), rows=len(rows),
                outside_dialect=sorted({"%s: %s" % (f.label(), f.ir_err) for f in idx.fns.values() if f.ir_err})[:400])
    return gen, meta


CHUNK = 150
TASKS_PER_FILE = 350


def lean_term_canon(p, canon):
    if p[0] == "call":
        return "(.call %s %s %d)" % (canon[p[1]], lean_refs(p[2]), p[3])
    t = p[0]
    if t == "seq":
        return "(.seq %s %s)" % (lean_term_canon(p[1], canon), lean_term_canon(p[2], canon))
    if t == "ite":
        return "(.ite %d %s %s %s)" % (p[1], lean_refs(p[2]), lean_term_canon(p[3], canon), lean_term_canon(p[4], canon))
    if t == "ifAlias":
        return "(.ifAlias (%s) (%s) %s %s)" % (lean_ref(p[1]), lean_ref(p[2]), lean_term_canon(p[3], canon), lean_term_canon(p[4], canon))
    if t == "loop":
        return "(.loop %d %s %s)" % (p[1], lean_refs(p[2]), lean_term_canon(p[3], canon))
    return lean_term(p)


def emit(gen, meta):
    """Generated/AliasTasks<level>_<i>.lean (the programs, identical ones shared, grouped by call depth so that the files of one level
    compile in parallel) and Generated/AliasTable.lean (entries, unsafe rows, assumed rows, primitive names)."""
    gend = os.path.join(common.LEAN_DIR, "GivaroModel", "Generated")
    os.makedirs(gend, exist_ok=True)
    from vlib import genroot
    # tasks needed by the safe entries (closed under calls)
    need = set()
    todo = [e["prog"] for e in meta["entries"]]
    callees = {}
    while todo:
        n = todo.pop()
        if n in need:
            continue
        need.add(n)
        acc = set()
        term_tasks(gen.term_by_name[n], acc)
        callees[n] = acc
        todo += list(acc)
    fn_of = {name: fn for name, fn, _, _ in gen.task_list}
    # canonical names, bottom up
    canon, text_of, by_text, depth = {}, {}, {}, {}

    def visit(n):
        if n in canon:
            return
        for c in sorted(callees[n], key=lambda x: int(x[1:])):
            visit(c)
        txt = lean_term_canon(gen.term_by_name[n], canon)
        if txt in by_text:
            canon[n] = by_text[txt]
        else:
            cn = "p%d" % len(by_text)
            by_text[txt] = cn
            canon[n] = cn
            text_of[cn] = (txt, fn_of[n])
            depth[cn] = 1 + max([depth[canon[c]] for c in callees[n]] or [-1])
    for n in sorted(need, key=lambda x: int(x[1:])):
        visit(n)
    levels = {}
    for cn, d in depth.items():
        levels.setdefault(d, []).append(cn)
    files = []          # (module name, [canonical names])
    for d in sorted(levels):
        names = sorted(levels[d], key=lambda x: int(x[1:]))
        for i in range(0, len(names), TASKS_PER_FILE):
            files.append(("AliasTasks%d_%d" % (d, i // TASKS_PER_FILE), d, names[i:i + TASKS_PER_FILE]))
    written = set()
    for mod, d, names in files:
        imps = ["import GivaroModel.Model.AliasProg"] + ["import GivaroModel.Generated.%s" % m for m, dd, _ in files if dd < d]
        L = ["/- GENERATED by translate/aliasfp.py from the clang AST of the alias harness translation unit -- do not edit.",
             "   One `Prog` per (function body, aliasing situation of its formals) that an alias pattern of a table row reaches through calls whose",
             "   written arguments are identified with another argument; every other call is a primitive.  Identical programs are shared. -/"] + imps + \
            ["namespace Givaro.Gen.AliasTable", "open Givaro.Model.AliasProg", ""]
        for cn in names:
            txt, fn = text_of[cn]
            L.append("/-- %s (%s:%s) -/" % (fn.label().replace("-/", ""), os.path.basename(fn.file or "?"), fn.line))
            L.append("def %s : Prog := %s" % (cn, txt))
        L += ["", "end Givaro.Gen.AliasTable", ""]
        genroot.write_if_changed(os.path.join(gend, mod + ".lean"), "\n".join(L))
        written.add(mod + ".lean")
    for f in os.listdir(gend):
        if f.startswith("AliasTasks") and f not in written:
            os.unlink(os.path.join(gend, f))
    L = ["/- GENERATED by translate/aliasfp.py -- do not edit.  The table of (kind, operation, alias pattern) entries. -/"] + \
        ["import GivaroModel.Generated.%s" % m for m, _, _ in files] + ["import GivaroModel.Model.AliasProg",
         "namespace Givaro.Gen.AliasTable", "open Givaro.Model.AliasProg", ""]
    ents = meta["entries"]
    # chunks of bounded evaluation cost (the per-chunk theorems are checked in parallel)
    total = sum(e.get("weight", 1) for e in ents)
    limit = max(1, total // 56)
    chunks, cur, w = [], [], 0
    for e in ents:
        if cur and (w + e.get("weight", 1) > limit or len(cur) >= CHUNK):
            chunks.append(cur)
            cur, w = [], 0
        cur.append(e)
        w += e.get("weight", 1)
    if cur or not chunks:
        chunks.append(cur)
    for ci, ch in enumerate(chunks):
        L.append("def chunk%d : List Entry := [" % ci)
        L.append(",\n".join("  ⟨%s, %s, %s, [%s], %d, %d, [%s], %s⟩" % (
            lean_str(e["kind"]), lean_str(e["op"]), lean_str(e["pat"]), ", ".join(map(str, e["sizes"])), e["outs"], e["d0"],
            ", ".join("(%d, %d)" % tuple(c) for c in e["cls"]), canon[e["prog"]]) for e in ch))
        L.append("]")
    L.append("def chunks : List (List Entry) := [%s]" % ", ".join("chunk%d" % i for i in range(len(chunks))))
    L.append("/-- every (kind, operation, alias pattern) whose program passes the discipline in the Python mirror; the kernel re-evaluates each -/")
    L.append("def aliasTable : List Entry := chunks.flatten")
    L.append("")
    L.append("/-- rows that break the discipline on the current tree: (kind, operation, pattern, reason) -/")
    L.append("def unsafeRows : List (String × String × String × String) := [")
    L.append(",\n".join("  (%s, %s, %s, %s)" % (lean_str(e["kind"]), lean_str(e["op"]), lean_str(e["pat"]), lean_str(e["reason"][:300])) for e in meta["unsafe"]))
    L.append("]")
    L.append("/-- rows that are modelled, not analysed (element-wise container loops, `assign`, value-dependent paths): decided by the dynamic tie only -/")
    L.append("def assumedRows : List (String × String × String) := [")
    L.append(",\n".join("  (%s, %s, %s)" % (lean_str(a["kind"]), lean_str(a["op"]), lean_str(a["what"])) for a in meta["assumed"]))
    L.append("]")
    L.append("/-- names of the primitives (index = the number used in `Prog.prim`): external functions, built-in operators, element-wise")
    L.append("    library loops (`pointwise:` …) and library calls whose arguments are not in conflict (`call:`) -- each is assumed to be a function of")
    L.append("    the values of its inputs, also when an output is one of its inputs -/")
    L.append("def primNames : List String := [%s]" % ", ".join(lean_str(p) for p in meta["prims"]))
    L += ["", "end Givaro.Gen.AliasTable", ""]
    path = os.path.join(gend, "AliasTable.lean")
    genroot.write_if_changed(path, "\n".join(L))
    nper = 4
    safemods = []
    for k in range(0, len(chunks), nper):
        mod = "AliasSafe%d" % (k // nper)
        safemods.append(mod)
        T = ["/- GENERATED by translate/aliasfp.py -- do not edit.  Kernel evaluation of the discipline over chunks of the table. -/",
             "import GivaroModel.Generated.AliasTable", "namespace Givaro.Gen.AliasTable", "open Givaro.Model.AliasProg", ""]
        for ci in range(k, min(k + nper, len(chunks))):
            T.append("theorem chunk%d_safe : chunk%d.all safeEntry = true := by decide +kernel" % (ci, ci))
        T += ["", "end Givaro.Gen.AliasTable", ""]
        genroot.write_if_changed(os.path.join(gend, mod + ".lean"), "\n".join(T))
    for f in os.listdir(gend):
        if re.fullmatch(r"AliasSafe\d*\.lean", f) and f[:-5] not in safemods and f != "AliasSafe.lean":
            os.unlink(os.path.join(gend, f))
    T = ["/- GENERATED by translate/aliasfp.py -- do not edit. -/"] + ["import GivaroModel.Generated.%s" % m for m in safemods] + \
        ["import GivaroModel.Generated.AliasTable", "namespace Givaro.Gen.AliasTable", "open Givaro.Model.AliasProg", "",
         "/-- every chunk of the regenerated table passes the discipline (each chunk by kernel evaluation) -/",
         "theorem all_chunks_safe : chunks.all (fun c => c.all safeEntry) = true := by",
         "  simp only [chunks, List.all_cons, List.all_nil, Bool.and_self, %s]" % ", ".join("chunk%d_safe" % i for i in range(len(chunks))),
         "", "end Givaro.Gen.AliasTable", ""]
    genroot.write_if_changed(os.path.join(gend, "AliasSafe.lean"), "\n".join(T))
    meta["lean_programs"] = len(by_text)
    meta["safe_modules"] = safemods + ["AliasSafe"]
    meta["lean_modules"] = [m for m, _, _ in files] + ["AliasTable"]
    meta["chunks"] = len(chunks)
    os.makedirs(os.path.join(common.CACHE, "gen"), exist_ok=True)
    with open(os.path.join(common.CACHE, "gen", "aliasfp_meta.json"), "w") as fh:
        json.dump(meta, fh, indent=1)
    return path


if __name__ == "__main__":
    import time
    t0 = time.time()
    gen, meta = build(print)
    emit(gen, meta)
    print("%d rows, %d safe entries, %d unsafe, %d assumed, %d tasks, %d prims  (%.1fs)" % (
        meta["rows"], len(meta["entries"]), len(meta["unsafe"]), len(meta["assumed"]), meta["tasks"], len(meta["prims"]), time.time() - t0))
    print("kinds:", meta["kinds"])
    seen = set()
    for e in meta["unsafe"]:
        k = (e["kind"].split("_")[0], e["op"], e["reason"][:100])
        if k in seen:
            continue
        seen.add(k)
        print("UNSAFE", e["kind"], e["op"], e["pat"], "|", e["reason"][:260])
