"""Hand-written specification table for the gmp++ `Integer` API (C01, C02).

For every translated function (identified by base name, parameter codes and constness) this
table says which Z-operation the header documents.  It is deliberately short and declarative:
the semantic content is in `GivaroModel/Spec/IntegerSpec.lean`; this file only says *which*
specification function applies to *which* overload and in which argument roles.

spec_for(t) returns None (no specification: the overload is reported as `unspecified`) or a dict
  ret   : Lean expression for the returned value (None = unconstrained / void)
  outs  : list of Lean expressions, one per output location (this / non-const refs), None = unconstrained
  pre   : list of preconditions, each a tuple from the small vocabulary below
  fam   : family name (selects the proof script and groups the evidence)
  prop  : 'C01' or 'C02'
  cmp   : 'exact' | 'bezout' (outputs checked through the Bezout certificate instead of equality)

precondition vocabulary (each gives a Lean Prop and a python predicate):
  ('nz', x)          x ≠ 0
  ('ge0', x)         0 ≤ x
  ('gt0', x)         0 < x
  ('dvd', d, n)      d ∣ n
  ('coprime', a, b)  gcd a b = 1
  ('fits', tag, x)   x representable in the word type
  ('small', x, k)    x ≤ k   (keeps exponents / shift counts feasible for the harness)
"""
import math
import re

from .gmpxx import RANGE

WORDS = ("s64", "u64", "s32", "u32", "s16", "u16", "s8", "u8", "b")


def is_word(c):
    return c in WORDS


def pre_lean(p):
    k = p[0]
    if k == "nz":
        return "%s ≠ 0" % p[1]
    if k == "ge0":
        return "0 ≤ %s" % p[1]
    if k == "gt0":
        return "0 < %s" % p[1]
    if k == "dvd":
        return "%s ∣ %s" % (p[1], p[2])
    if k == "coprime":
        return "Int.gcd %s %s = 1" % (p[1], p[2])
    if k == "fits":
        return "In%s %s" % (p[1], p[2])
    if k == "small":
        return "%s ≤ %d" % (p[1], p[2])
    raise ValueError(k)


def _tdiv(n, d):
    q = abs(n) // abs(d)
    return q if (n >= 0) == (d >= 0) else -q


PYSPEC = {
    "Spec.add": lambda a, b: a + b, "Spec.sub": lambda a, b: a - b, "Spec.mul": lambda a, b: a * b, "Spec.neg": lambda a: -a,
    "Spec.iabs": lambda a: abs(a), "Spec.land": lambda a, b: a & b, "Spec.lor": lambda a, b: a | b, "Spec.lxor": lambda a, b: a ^ b,
    "Spec.tdivQ": _tdiv, "Spec.tmodR": lambda n, d: n - d * _tdiv(n, d),
    "Spec.fdivQ": lambda n, d: n // d, "Spec.fmodR": lambda n, d: n - d * (n // d),
    "Spec.cdivQ": lambda n, d: -((-n) // d), "Spec.cmodR": lambda n, d: n - d * (-((-n) // d)),
    "Spec.edivQ": lambda n, d: (n - (n % abs(d))) // d, "Spec.emodR": lambda n, d: n % abs(d),
    "Spec.shl": lambda a, k: a << k, "Spec.shr": lambda a, k: _tdiv(a, 1 << k),
    "Spec.gcd": lambda a, b: math.gcd(a, b), "Spec.pow": lambda b, e: b ** e,
}


def py_eval(expr, env):
    """evaluate a (tiny) Lean spec expression `(Spec.f a b)` / variable / literal on python ints."""
    expr = expr.strip()
    toks = re.findall(r"\(|\)|[^\s()]+", expr)
    pos = [0]

    def parse():
        t = toks[pos[0]]
        pos[0] += 1
        if t == "(":
            f = toks[pos[0]]
            pos[0] += 1
            args = []
            while toks[pos[0]] != ")":
                args.append(parse())
            pos[0] += 1
            return PYSPEC[f](*args)
        if re.fullmatch(r"-?\d+", t):
            return int(t)
        return env[t]
    return parse()


def pre_py(p, env):
    k = p[0]
    if k == "nz":
        return env[p[1]] != 0
    if k == "ge0":
        return env[p[1]] >= 0
    if k == "gt0":
        return env[p[1]] > 0
    if k == "dvd":
        d, n = env[p[1]], env[p[2]]
        return (n == 0) if d == 0 else n % d == 0
    if k == "coprime":
        return math.gcd(env[p[1]], env[p[2]]) == 1
    if k == "fits":
        lo, hi = RANGE[p[1]]
        return lo <= py_eval(p[2], env) <= hi
    if k == "small":
        return env[p[1]] <= p[2]
    raise ValueError(k)


BIN = {  # base operation -> (lean spec fn, family, property, preconditions on (x, y))
    "add": ("Spec.add", "addsub", "C01", []),
    "sub": ("Spec.sub", "addsub", "C01", []),
    "mul": ("Spec.mul", "mul", "C01", []),
    "div": ("Spec.tdivQ", "div", "C02", ["nz:y"]),
    "mod": ("Spec.emodR", "div", "C02", ["nz:y"]),         # named function mod/modin: 0 ≤ r < |d|
    "rem": ("Spec.tmodR", "div", "C02", ["nz:y"]),         # operator % / %= : truncation, sign of n
    "divexact": ("Spec.tdivQ", "div", "C02", ["nz:y", "dvd:y:x"]),
    "floor": ("Spec.fdivQ", "div", "C02", ["nz:y"]),
    "ceil": ("Spec.cdivQ", "div", "C02", ["nz:y"]),
    "trunc": ("Spec.tdivQ", "div", "C02", ["nz:y"]),
    "trem": ("Spec.tmodR", "div", "C02", ["nz:y"]),
    "crem": ("Spec.cmodR", "div", "C02", ["nz:y"]),
    "frem": ("Spec.fmodR", "div", "C02", ["nz:y"]),
    "and": ("Spec.land", "bits", "C01", []),
    "or": ("Spec.lor", "bits", "C01", []),
    "xor": ("Spec.lxor", "bits", "C01", []),
    "shl": ("Spec.shl", "shift", "C01", ["ge0:y", "small:y:100000"]),
    "shr": ("Spec.shr", "shift", "C01", ["ge0:y", "small:y:100000"]),
    "gcd": ("Spec.gcd", "gcd", "C01", []),
    "lcm": ("Spec.lcm", "gcd", "C01", []),
    "pow": ("Spec.pow", "pow", "C01", ["ge0:y", "small:y:64"]),
    # Euclidean-ring view of ZRing<Integer>
    "quo": ("Spec.edivQ", "div", "C02", ["nz:y"]),
    "erem": ("Spec.emodR", "div", "C02", ["nz:y"]),
}

CMP = {"lt": "<", "gt": ">", "le": "≤", "ge": "≥", "eq": "=", "ne": "≠"}
ZRING_CMP = {"isgeq": "≥", "isleq": "≤", "isgt": ">", "islt": "<", "areEqual": "=", "areNEqual": "≠"}

OPMAP = {"op_add": "add", "op_sub": "sub", "op_mul": "mul", "op_div": "div", "op_mod": "rem",
         "op_and": "and", "op_or": "or", "op_xor": "xor", "op_shl": "shl", "op_shr": "shr"}
OPINMAP = {"op_addin": "add", "op_subin": "sub", "op_mulin": "mul", "op_divin": "div", "op_modin": "rem",
           "op_andin": "and", "op_orin": "or", "op_xorin": "xor", "op_shlin": "shl", "op_shrin": "shr"}
NAMED3 = ("add", "sub", "mul", "div", "mod", "divexact", "floor", "ceil", "trunc", "trem", "crem", "frem", "gcd", "lcm", "pow", "quo")
NAMEDIN = {"addin": "add", "subin": "sub", "mulin": "mul", "divin": "div", "modin": "mod", "quoin": "quo", "remin": "erem",
           "gcdin": "gcd", "lcmin": "lcm"}


def mkpre(tmpl, x, y):
    out = []
    for s in tmpl:
        parts = s.split(":")
        vals = [{"x": x, "y": y}.get(q, q) for q in parts[1:]]
        if parts[0] == "small":
            out.append(("small", vals[0], int(vals[1])))
        else:
            out.append(tuple([parts[0]] + vals))
    return out


def word_ret_pre(t):
    """a word-typed return value must be representable (casts / word remainders)."""
    return []


def spec_for(t):
    """t: Translated (key, params [(name, code, ctype)], outs [(label, loc)], f, ret)."""
    f = t.f
    names = [p[0] for p in t.params]
    codes = [p[1] for p in t.params]
    base = t.base            # name without class and types, e.g. 'add', 'op_addin', 'conv_int64_t'
    cls = f.cls or ""
    ring = cls.startswith("ZRing")
    nouts = len(t.outs)
    retkind = t.ret[0]       # 'Z' | 'word' | 'void'

    def S(ret, outs, pre=(), fam="misc", prop="C01", cmp="exact"):
        return dict(ret=ret, outs=list(outs), pre=list(pre), fam=fam, prop=prop, cmp=cmp)

    def wordret(expr):
        # value returned through a word type: the contract only holds when representable
        if retkind == "word":
            tag = t.ret[1]
            return expr, [("fits", tag, expr)] if tag != "B" else []
        return expr, []

    # ---------------- three-address named functions  f(res, x, y)
    if base in NAMED3 and len(codes) == 3 and codes[0] == "Z" and nouts == 1:
        op = base
        if ring and base == "rem":
            op = "erem"
        fn, fam, prop, pt = BIN[op]
        e = "(%s %s %s)" % (fn, names[1], names[2])
        return S(e, [e], mkpre(pt, names[1], names[2]), fam, prop)
    if ring and base == "rem" and len(codes) == 3 and codes[0] == "Z":
        fn, fam, prop, pt = BIN["erem"]
        e = "(%s %s %s)" % (fn, names[1], names[2])
        return S(e, [e], mkpre(pt, names[1], names[2]), fam, prop)
    # value-returning named functions  f(x, y)
    if base in NAMED3 and len(codes) == 2 and nouts == 0 and retkind in ("Z", "word"):
        fn, fam, prop, pt = BIN[base]
        e = "(%s %s %s)" % (fn, names[0], names[1])
        pre = mkpre(pt, names[0], names[1])
        if retkind == "word":
            # word-returning remainders follow GMP: absolute value of the remainder
            if base in ("trem", "crem", "frem"):
                e = "(Spec.iabs %s)" % e
            e, extra = wordret(e)
            pre += extra
        return S(e, [], pre, fam, prop)
    # in-place named functions  f(res, y)
    if base in NAMEDIN and len(codes) == 2 and codes[0] == "Z" and nouts == 1:
        fn, fam, prop, pt = BIN[NAMEDIN[base]]
        e = "(%s %s %s)" % (fn, names[0], names[1])
        return S(e, [e], mkpre(pt, names[0], names[1]), fam, prop)
    # member compound operators  self op= y
    if base in OPINMAP and len(codes) == 2 and codes[0] == "Z" and nouts == 1:
        fn, fam, prop, pt = BIN[OPINMAP[base]]
        e = "(%s %s %s)" % (fn, names[0], names[1])
        return S(e, [e], mkpre(pt, names[0], names[1]), fam, prop)
    # binary operators (member const: self op y ; free: x op y)
    if base in OPMAP and len(codes) == 2 and nouts == 0:
        fn, fam, prop, pt = BIN[OPMAP[base]]
        e = "(%s %s %s)" % (fn, names[0], names[1])
        pre = mkpre(pt, names[0], names[1])
        e, extra = wordret(e)
        return S(e, [], pre + extra, fam, prop)
    # ---------------- fused
    FUSED4 = {"axpy": "(Spec.add (Spec.mul {a} {x}) {y})", "maxpy": "(Spec.sub {y} (Spec.mul {a} {x}))", "axmy": "(Spec.sub (Spec.mul {a} {x}) {y})"}
    if base in FUSED4 and len(codes) == 4 and codes[0] == "Z" and nouts == 1:
        e = FUSED4[base].format(a=names[1], x=names[2], y=names[3])
        return S(e, [e], [], "fused")
    FUSED3 = {"axpyin": "(Spec.add {r} (Spec.mul {a} {x}))", "maxpyin": "(Spec.sub {r} (Spec.mul {a} {x}))", "axmyin": "(Spec.sub (Spec.mul {a} {x}) {r})"}
    if base in FUSED3 and len(codes) == 3 and codes[0] == "Z" and nouts == 1:
        e = FUSED3[base].format(r=names[0], a=names[1], x=names[2])
        return S(e, [e], [], "fused")
    # ---------------- unary
    if base == "neg" and len(codes) == 2 and codes[0] == "Z":
        e = "(Spec.neg %s)" % names[1]
        return S(e, [e], [], "addsub")
    if base == "negin" and len(codes) == 1 and codes[0] == "Z":
        e = "(Spec.neg %s)" % names[0]
        return S(e, [e], [], "addsub")
    if base == "op_sub" and len(codes) == 1 and nouts == 0:
        return S("(Spec.neg %s)" % names[0], [], [], "addsub")
    if base == "op_not" and len(codes) == 1 and nouts == 0:
        return S("(Spec.lnot %s)" % names[0], [], [], "bits")
    if base == "abs" and len(codes) == 1 and nouts == 0:
        return S("(Spec.iabs %s)" % names[0], [], [], "addsub")
    if base in ("sign", "priv_sign") and len(codes) == 1 and nouts == 0:
        return S("(Spec.sgn %s)" % names[0], [], [], "compare")
    if base == "op_inc" and len(codes) == 1 and nouts == 1:      # ++x
        e = "(Spec.add %s 1)" % names[0]
        return S(e, [e], [], "addsub")
    if base == "op_dec" and len(codes) == 1 and nouts == 1:
        e = "(Spec.sub %s 1)" % names[0]
        return S(e, [e], [], "addsub")
    if base == "op_inc" and len(codes) == 2 and nouts == 1:      # x++ : returns the old value
        return S(names[0], ["(Spec.add %s 1)" % names[0]], [], "addsub")
    if base == "op_dec" and len(codes) == 2 and nouts == 1:
        return S(names[0], ["(Spec.sub %s 1)" % names[0]], [], "addsub")
    # ---------------- comparisons
    if base[3:] in CMP and base.startswith("op_") and len(codes) == 2 and nouts == 0:
        return S("(Spec.b2i (%s %s %s))" % (names[0], CMP[base[3:]], names[1]), [], [], "compare", cmp="truthy")
    if ring and base in ZRING_CMP and len(codes) == 2 and nouts == 0:
        return S("(Spec.b2i (%s %s %s))" % (names[0], ZRING_CMP[base], names[1]), [], [], "compare", cmp="truthy")
    if base == "compare" and len(codes) == 2 and nouts == 0:
        return S("(Spec.sgn (%s - %s))" % (names[0], names[1]), [], [], "compare", cmp="sign")
    if base == "absCompare" and len(codes) == 2 and nouts == 0:
        return S("(Spec.sgn (Spec.iabs %s - Spec.iabs %s))" % (names[0], names[1]), [], [], "compare", cmp="sign")
    UN = {"isZero": "{x} = 0", "nonZero": "{x} ≠ 0", "isOne": "{x} = 1", "isMOne": "{x} = -1", "isOdd": "{x} % 2 = 1",
          "isUnit": "{x} = 1 ∨ {x} = -1"}
    if base in UN and len(codes) == 1 and nouts == 0:
        return S("(Spec.b2i (%s))" % UN[base].format(x=names[0]), [], [], "compare", cmp="truthy")
    # ---------------- Euclidean division with both outputs
    if base in ("divmod", "quoRem") and len(codes) == 4 and nouts == 2:
        q = "(Spec.edivQ %s %s)" % (names[2], names[3])
        r = "(Spec.emodR %s %s)" % (names[2], names[3])
        pre = [("nz", names[3])]
        return S(q if retkind != "void" else None, [q, r], pre, "div", "C02")
    # ---------------- gcd with cofactors
    if base == "gcd" and len(codes) == 5 and nouts == 3:
        g = "(Spec.gcd %s %s)" % (names[3], names[4])
        return S(g, [g, None, None], [], "gcd", "C01", cmp="bezout")
    if base == "gcd" and len(codes) == 4 and nouts == 2 and retkind == "Z":
        g = "(Spec.gcd %s %s)" % (names[2], names[3])
        return S(g, [None, None], [], "gcd", "C01", cmp="bezout2")
    # modular inverse  inv(u, a, b): u*a ≡ 1 (mod b), 0 ≤ u < |b|
    if base in ("inv", "invmod") and len(codes) == 3 and codes[0] == "Z" and nouts == 1:
        d = S(None, [None], [("coprime", names[1], names[2]), ("nz", names[2])], "gcd", cmp="invmod")
        d["extra"] = "rr_.ret = rr_.outs.getD 0 0 ∧ Spec.isInvMod rr_.ret %s %s = true" % (names[1], names[2])
        return d
    if base in ("invin", "invmodin") and len(codes) == 2 and codes[0] == "Z" and nouts == 1:
        d = S(None, [None], [("coprime", names[0], names[1]), ("nz", names[1])], "gcd", cmp="invmod")
        d["extra"] = "rr_.ret = rr_.outs.getD 0 0 ∧ Spec.isInvMod rr_.ret %s %s = true" % (names[0], names[1])
        return d
    # ---------------- powers
    if base == "powmod" and len(codes) == 4 and codes[0] == "Z" and nouts == 1:
        e = "(Spec.powmod %s %s %s)" % (names[1], names[2], names[3])
        return S(e, [e], [("ge0", names[2]), ("small", names[2], 2000), ("nz", names[3])], "pow")
    if base == "powmod" and len(codes) == 3 and nouts == 0:
        e = "(Spec.powmod %s %s %s)" % (names[0], names[1], names[2])
        return S(e, [], [("ge0", names[1]), ("small", names[1], 2000), ("nz", names[2])], "pow")
    if base == "sqrt" and len(codes) == 2 and codes[0] == "Z" and nouts == 1:
        e = "(Spec.isqrt %s)" % names[1]
        return S(e, [e], [("ge0", names[1])], "pow")
    if base == "sqrt" and len(codes) == 1 and nouts == 0:
        return S("(Spec.isqrt %s)" % names[0], [], [("ge0", names[0])], "pow")
    if base == "sqrtrem" and len(codes) == 3 and nouts == 2:
        e = "(Spec.isqrt %s)" % names[1]
        r = "(%s - %s * %s)" % (names[1], e, e)
        return S(e, [e, r], [("ge0", names[1])], "pow")
    if base == "sqrtrem" and len(codes) == 2 and nouts == 1:
        e = "(Spec.isqrt %s)" % names[0]
        r = "(%s - %s * %s)" % (names[0], e, e)
        return S(e, [r], [("ge0", names[0])], "pow")
    # ---------------- conversions to and from words
    m = re.match(r"conv_(u?int\d+_t|bool|unsigned_char|signed_char)$", base)
    if m and len(codes) == 1 and nouts == 0 and retkind == "word":
        tag = t.ret[1]
        if tag == "B":
            return S("(Spec.b2i (%s ≠ 0))" % names[0], [], [], "cast")
        return S(names[0], [], [("fits", tag, names[0])], "cast")
    if base == "ctor" and len(codes) == 1 and nouts == 1 and (is_word(codes[0]) or codes[0] == "Zc"):
        return S(None, [names[0]], [], "cast")
    if base in ("op_assign", "logcpy", "copy") and len(codes) == 2 and codes[0] == "Z" and nouts == 1:
        return S(names[1], [names[1]], [], "cast")
    if base == "swap" and len(codes) == 2 and nouts == 2:
        return S(None, [names[1], names[0]], [], "cast")
    if base == "bitsize" and len(codes) == 1 and nouts == 0:
        return S("(Spec.bitsize %s)" % names[0], [], [], "cast")
    return None
