#!/usr/bin/env python3
"""Interprocedural "who writes through which parameter" analysis for the footprint table (C18 / C16).

translate/footprint.py records the stores a const member function makes to data members of `*this` directly.  What it could not see
(DESIGN §I.9, found dynamically as fix C18_2) is a const member function that hands a data member of the shared object to a callee
as a `const T&` / `const T*` argument, and the callee -- or something the callee forwards the parameter to -- writes it through a
`const_cast` (`Poly1Dom::isZero(const Rep& P)` normalises `const_cast<Rep&>(P)`; harmless on a thread-private element, a data race
when P is the domain's own `zero`).

For every function body f of the translation unit this module computes

    pw[f]  =  the set of parameter positions (0-based; -1 = the object of a non-static member function) through which f may write:
              a store / compound assignment / ++ / -- / overloaded assignment whose lvalue is rooted at the parameter, a non-const
              member call on an object rooted at it, handing it (or something rooted at it) to a callee position in pw[callee],
              or handing it as a non-const pointer/reference to a callee whose body is not in the translation unit (GMP, libstdc++).
              A non-const non-static member function is assumed to write its object (-1 ∈ pw).

as a least fixpoint over the call graph, and then, for every const member function / copy constructor f,

    shared_arg_writes[f]  =  the data members of *this (or *this itself, or the source object of a copy constructor) that f passes
                             at a position in pw[callee], or stores to through an lvalue rooted at them that the direct scan of
                             footprint.py does not classify (iterators, `*begin()`, element access).

Roots are followed through casts (const_cast and C-style casts included -- that is the point), member access, subscripts, `*`, `&`,
`operator[]`/`operator*`/`operator->`, the standard accessors begin/end/data/front/back/at/rbegin/rend, and local references /
pointers / iterators initialised from a rooted expression.
"""

CASTS = ("ImplicitCastExpr", "ParenExpr", "CStyleCastExpr", "CXXStaticCastExpr", "CXXConstCastExpr", "CXXFunctionalCastExpr",
         "CXXReinterpretCastExpr", "ExprWithCleanups", "MaterializeTemporaryExpr", "CXXBindTemporaryExpr", "ConstantExpr")
ACCESSORS = ("begin", "end", "data", "front", "back", "at", "rbegin", "rend", "operator[]", "operator*", "operator->", "get")
ASSIGN_OPS = ("operator=", "operator+=", "operator-=", "operator*=", "operator/=", "operator%=", "operator++", "operator--",
              "operator<<=", "operator>>=", "operator&=", "operator|=", "operator^=")


def qt(n):
    t = n.get("type", {})
    return t.get("desugaredQualType") or t.get("qualType", "")


def is_ptr_or_ref_type(s):
    return s.rstrip().endswith("*") or s.rstrip().endswith("&") or "iterator" in s or "__normal_iterator" in s


def const_pointee(s):
    """is the object designated by an expression of this type const?  `const T`, `const T &`, `const T *`, `T const *` -> True"""
    s = s.strip()
    if s.endswith("&&"):
        s = s[:-2].strip()
    if s.endswith("&"):
        s = s[:-1].strip()
    if s.endswith("*const"):
        s = s[:-5].strip()
    if s.endswith("*"):
        s = s[:-1].strip()
        return s.startswith("const ") or s.endswith(" const")
    return s.startswith("const ") or s.endswith(" const") or "const_iterator" in s or "__normal_iterator<const " in s


class Analysis:
    def __init__(self, prog, funcs, resolve):
        self.prog = prog
        self.funcs = funcs            # id -> gmpxx.Func with a body
        self.resolve = resolve        # decl id -> id of a function in funcs, or None
        self.direct = {}              # id -> set of positions
        self.calls = {}               # id -> list of (callee id | None, pos, root)
        self.shared_direct = {}       # id -> set of strings (stores rooted at this-members not through a plain MemberExpr chain)
        for i, f in funcs.items():
            self.scan(i, f)

    # ---- roots
    def root(self, e, pidx, alias, value_ok=False):
        """('param', i) | ('this', None) | ('member', name) | None.  `value_ok`: the expression is used as a pointer value"""
        while True:
            k = e.get("kind")
            inner = e.get("inner") or []
            if k == "ImplicitCastExpr" and e.get("castKind") == "LValueToRValue":
                # reading the value of an lvalue: the designated object is only reachable if the value is a pointer / iterator
                if not is_ptr_or_ref_type(qt(e)):
                    return None
                e = inner[0]
                continue
            if k in CASTS and inner:
                e = inner[-1]
                continue
            if k == "MemberExpr":
                if not inner:
                    return None       # implicit this->member is always printed with a CXXThisExpr child; be safe
                b = self.root(inner[0], pidx, alias)
                if b is None:
                    return None
                if b[0] == "this":
                    return ("member", e.get("name"))
                return b
            if k == "ArraySubscriptExpr" and inner:
                e = inner[0]
                continue
            if k == "UnaryOperator" and e.get("opcode") in ("*", "&", "++", "--") and inner:
                e = inner[0]
                continue
            if k == "BinaryOperator" and e.get("opcode") in ("+", "-", ",") and inner:
                e = inner[-1] if e.get("opcode") == "," else inner[0]      # pointer arithmetic keeps the root
                continue
            if k == "CXXOperatorCallExpr" and len(inner) > 1:
                callee = inner[0]
                while callee.get("kind") in CASTS and callee.get("inner"):
                    callee = callee["inner"][-1]
                nm = callee.get("referencedDecl", {}).get("name", "")
                if nm in ACCESSORS or nm in ("operator+", "operator-", "operator++", "operator--"):
                    e = inner[1]
                    continue
                return None
            if k == "CXXMemberCallExpr" and inner:
                m = inner[0]
                while m.get("kind") in CASTS and m.get("inner"):
                    m = m["inner"][-1]
                if m.get("kind") == "MemberExpr" and m.get("name") in ACCESSORS and m.get("inner"):
                    e = m["inner"][0]
                    continue
                return None
            if k == "CXXThisExpr":
                return ("this", None)
            if k == "DeclRefExpr":
                rid = e.get("referencedDecl", {}).get("id")
                if rid in pidx:
                    return ("param", pidx[rid])
                if rid in alias:
                    return alias[rid]
                return None
            return None

    @staticmethod
    def designates_const(e):
        """does the expression, as written (casts included), designate a const object?"""
        return const_pointee(qt(e))

    # ---- one body
    def scan(self, fid, f):
        pidx = {p["id"]: k for k, p in enumerate(f.params) if is_ptr_or_ref_type(qt(p))}
        ref_ids = {p["id"] for p in f.params if qt(p).rstrip().endswith("&")}      # stores to the name itself reach the caller's object
        alias = {}
        direct, calls, shared = {}, [], set()
        const_f = bool(f.const)
        me = f.name

        def note_write(r, how):
            if r is None:
                return
            if r[0] == "param":
                direct.setdefault(r[1], set()).add(me)
            elif const_f:
                # a const member function storing into its own object (mutable member / const_cast of this): reported in ITS row
                shared.add("%s (%s)" % ("*this" if r[0] == "this" else r[1], how))
            else:
                direct.setdefault(-1, set()).add(me)

        def target_root(e):
            """root of a store target; a store to a by-value pointer/iterator variable itself (p = …, ++it) is not a write of the object"""
            t = e
            while t.get("kind") in CASTS and t.get("inner"):
                t = t["inner"][-1]
            if "atomic" in qt(t):
                return None       # std::atomic: synchronised by construction (as in footprint.py)
            if t.get("kind") == "DeclRefExpr":
                rid = t.get("referencedDecl", {}).get("id")
                if rid not in ref_ids:
                    return None
            return self.root(e, pidx, alias)

        def callee_of(n):
            k = n.get("kind")
            inner = n.get("inner") or []
            if not inner:
                return None, [], None
            c = inner[0]
            while c.get("kind") in CASTS and c.get("inner"):
                c = c["inner"][-1]
            if k == "CXXMemberCallExpr":
                if c.get("kind") == "MemberExpr":
                    return c.get("referencedMemberDecl"), inner[1:], (c["inner"][0] if c.get("inner") else None)
                return None, inner[1:], None
            if c.get("kind") == "DeclRefExpr":
                rd = c.get("referencedDecl", {})
                if rd.get("kind") in ("FunctionDecl", "CXXMethodDecl", "CXXConversionDecl"):
                    return rd.get("id"), inner[1:], None
            return None, inner[1:], None

        def walk(n):
            k = n.get("kind")
            inner = n.get("inner") or []
            if k == "VarDecl" and inner:
                t = qt(n)
                if is_ptr_or_ref_type(t) or t in ("auto",):
                    init = inner[-1]
                    r = self.root(init, pidx, alias, True)
                    if r is not None and not const_pointee(t):
                        alias[n["id"]] = r
                        if t.rstrip().endswith("&"):
                            ref_ids.add(n["id"])
            if k == "BinaryOperator" and n.get("opcode") == "=" and inner:
                if not self.designates_const(inner[0]):
                    note_write(target_root(inner[0]), "store")
            elif k == "CompoundAssignOperator" and inner:
                note_write(target_root(inner[0]), "store")
            elif k == "UnaryOperator" and n.get("opcode") in ("++", "--") and inner:
                note_write(target_root(inner[0]), "store")
            if k in ("CallExpr", "CXXMemberCallExpr", "CXXOperatorCallExpr"):
                cid, args, obj = callee_of(n)
                g = self.resolve(cid) if cid is not None else None
                gf = self.funcs.get(g) if g is not None else None
                decl = self.prog.by_id.get(cid) if cid is not None else None
                is_method = bool((gf or decl) and (gf or decl).is_method and not (gf or decl).static and
                                 (gf or decl).kind != "CXXConstructorDecl")
                if k == "CXXOperatorCallExpr":
                    c = inner[0]
                    while c.get("kind") in CASTS and c.get("inner"):
                        c = c["inner"][-1]
                    nm = c.get("referencedDecl", {}).get("name", "")
                    member_op = is_method or (gf is None and decl is None and c.get("referencedDecl", {}).get("kind") == "CXXMethodDecl")
                    if member_op and args:
                        obj, args = args[0], args[1:]
                    if gf is None and nm in ASSIGN_OPS and (obj is not None or args):
                        tgt = obj if obj is not None else args[0]
                        if not self.designates_const(tgt):
                            note_write(target_root(tgt), "store")
                # the object of a member call
                if obj is not None:
                    r = self.root(obj, pidx, alias)
                    if r is not None:
                        if gf is not None or decl is not None:
                            calls.append((g, -1, r, (gf or decl).name, bool((gf or decl).const)))
                        elif not self.designates_const(obj):
                            # a member function outside the translation unit (std::vector::resize …) on a non-const object that was not
                            # implicitly converted to const: clang wraps the object of a const member call on a non-const lvalue in a NoOp cast
                            oc = obj
                            noop_const = False
                            while oc.get("kind") in CASTS and oc.get("inner"):
                                if oc.get("kind") == "ImplicitCastExpr" and oc.get("castKind") == "NoOp" and const_pointee(qt(oc)):
                                    noop_const = True
                                oc = oc["inner"][-1]
                            m = inner[0]
                            while m.get("kind") in CASTS and m.get("inner"):
                                m = m["inner"][-1]
                            if not noop_const and m.get("name") not in ACCESSORS + ("size", "empty", "capacity", "c_str", "length"):
                                note_write(r, "non-const call %s" % m.get("name"))
                for pos, a in enumerate(args):
                    if a.get("kind") == "CXXDefaultArgExpr":
                        continue
                    r = self.root(a, pidx, alias, True)
                    if r is None:
                        continue
                    if gf is not None:
                        calls.append((g, pos, r, gf.name, None))
                    else:
                        # body not available: decide on the declared parameter type if the declaration is known, else on the argument's type
                        ptype = None
                        if decl is not None and pos < len(decl.params):
                            ptype = qt(decl.params[pos])
                        at = ptype if ptype is not None else qt(a)
                        passes_object = is_ptr_or_ref_type(at) if ptype is not None else True
                        if ptype is None:
                            # unknown callee: an lvalue argument that still designates a non-const object may be bound to a non-const
                            # reference; a value read (LValueToRValue of a non-pointer) was already discarded by root()
                            pass
                        if passes_object and not const_pointee(at):
                            note_write(r, "passed to %s" % ((decl.name if decl is not None else None) or "external function"))
            for c in inner:
                if isinstance(c, dict):
                    walk(c)

        if f.body is not None:
            walk(f.body)
        for ini in f.inits:
            walk(ini)
        if f.is_method and not f.static and not f.const and f.kind not in ("CXXConstructorDecl",):
            direct.setdefault(-1, set()).add(me)
        self.direct[fid] = direct
        self.calls[fid] = calls
        self.shared_direct[fid] = shared

    # ---- fixpoint and the per-row answer
    def solve(self):
        """pw[f][pos] = the functions whose own stores reach the object passed at `pos` (provenance of the write)"""
        pw = {i: {k: set(v) for k, v in d.items()} for i, d in self.direct.items()}
        changed = True
        while changed:
            changed = False
            for i, calls in self.calls.items():
                fi = self.funcs[i]
                for (g, pos, r, nm, gconst) in calls:
                    if g is None:
                        who = {"external:" + str(nm)} if (pos == -1 and gconst is False) else set()
                    else:
                        who = pw.get(g, {}).get(pos, set())
                    if not who:
                        continue
                    if r[0] == "param":
                        tgt = r[1]
                    elif fi.const:
                        continue          # reported in the const function's own row (shared_arg_writes)
                    else:
                        tgt = -1
                    cur = pw[i].setdefault(tgt, set())
                    if not who <= cur:
                        cur |= who
                        changed = True
        self.pw = pw
        return pw

    def shared_arg_writes(self, fid, copyctor=False):
        """for a const member function / copy constructor: which parts of the shared object it lets someone write.
        Returns a list of (what, through, writers)."""
        f = self.funcs[fid]
        out = set((w, "", (f.name,)) for w in self.shared_direct.get(fid, ()))
        for (g, pos, r, nm, gconst) in self.calls.get(fid, ()):
            if g is None:
                who = {"external:" + str(nm)} if (pos == -1 and gconst is False) else set()
            else:
                who = self.pw.get(g, {}).get(pos, set())
            if not who:
                continue
            where = "%s#%s" % (nm, "this" if pos == -1 else pos)
            if f.const and r[0] == "member":
                out.add((r[1], where, tuple(sorted(who))))
            elif f.const and r[0] == "this":
                out.add(("*this", where, tuple(sorted(who))))
            elif copyctor and r[0] == "param" and r[1] == 0:
                out.add(("source object", where, tuple(sorted(who))))
        if copyctor and 0 in self.direct.get(fid, {}):
            out.add(("source object", "", (f.name,)))
        return sorted(out)
