#!/usr/bin/env python3
"""Special-member-function table of the ring / field / polynomial-domain classes (C16: "…whether the object is the original, a
copy-constructed copy or the target of an assignment").

Same extractor as translate/gen_smf.py (C14), pointed at the domain classes of the C16/C18 zoo: for every instantiation the zoo
uses, per copy/move operation, per data member, the members of the *source* object that are read to initialise / assign it.
Output: lean/GivaroModel/Generated/SMFDomains.lean and .cache/gen/smf_domains_meta.json.  The table theorem
(Props/C16SMF.lean) is a kernel evaluation: every data member of every domain class is copied from the same member of the source by
every copy operation the class offers -- there is no hand-written list of "state members" on the Lean side.
"""
import json
import os
import sys

HERE = os.path.dirname(os.path.abspath(__file__))
sys.path.insert(0, os.path.dirname(HERE))
from translate import gen_smf        # noqa: E402
from vlib import common              # noqa: E402

TARGETS = ("Modular", "Modular_implem", "ModularBalanced", "ModularExtended", "Montgomery", "GFqDom", "Extension", "Poly1Dom", "Poly1FactorDom",
           "QField", "ZRing", "GFqExtFast", "GFqExt", "GFqKronecker", "GF2")

TU = r'''
#include <gmp++/gmp++.h>
#include <recint/recint.h>
#include <givaro/givinteger.h>
#include <givaro/givrational.h>
#include <givaro/modular.h>
#include <givaro/modular-balanced.h>
#include <givaro/modular-extended.h>
#include <givaro/modular-log16.h>
#include <givaro/modular-log16.inl>
#include <givaro/montgomery.h>
#include <givaro/gfq.h>
#include <givaro/gfqext.h>
#include <givaro/gfqkronecker.h>
#include <givaro/gf2.h>
#include <givaro/extension.h>
#include <givaro/qfield.h>
#include <givaro/zring.h>
#include <givaro/givpoly1.h>
#include <givaro/givpoly1factor.h>
#include <type_traits>
#include <utility>
using namespace Givaro;
template <class T> typename std::enable_if<std::is_copy_constructible<T>::value>::type smf_cc(const T& a) { T b(a); (void)b; }
template <class T> typename std::enable_if<!std::is_copy_constructible<T>::value>::type smf_cc(const T&) {}
template <class T> typename std::enable_if<std::is_copy_assignable<T>::value>::type smf_ca(T& b, const T& a) { b = a; }
template <class T> typename std::enable_if<!std::is_copy_assignable<T>::value>::type smf_ca(T&, const T&) {}
template <class T> typename std::enable_if<std::is_move_constructible<T>::value>::type smf_mc(T& a) { T b(std::move(a)); (void)b; }
template <class T> typename std::enable_if<!std::is_move_constructible<T>::value>::type smf_mc(T&) {}
template <class T> typename std::enable_if<std::is_move_assignable<T>::value>::type smf_ma(T& b, T& a) { b = std::move(a); }
template <class T> typename std::enable_if<!std::is_move_assignable<T>::value>::type smf_ma(T&, T&) {}
template <class T> void smf_all(T& a, T& b) { smf_cc(a); smf_ca(b, a); smf_mc(a); smf_ma(b, a); }
template <class T> void smf_type() { T* a = nullptr; T* b = nullptr; smf_all(*a, *b); }
void smf_use() {
    smf_type<Modular<int8_t>>(); smf_type<Modular<int16_t>>(); smf_type<Modular<int32_t>>(); smf_type<Modular<int64_t>>();
    smf_type<Modular<uint8_t>>(); smf_type<Modular<uint16_t>>(); smf_type<Modular<uint32_t>>(); smf_type<Modular<uint64_t>>();
    smf_type<Modular<int32_t, int64_t>>(); smf_type<Modular<uint32_t, uint64_t>>(); smf_type<Modular<int32_t, uint64_t>>();
    smf_type<Modular<float>>(); smf_type<Modular<double>>(); smf_type<Modular<float, double>>();
    smf_type<Modular<Integer>>(); smf_type<Modular<Log16>>();
    smf_type<Modular<RecInt::ruint<7>>>(); smf_type<Modular<RecInt::ruint<7>, RecInt::ruint<8>>>(); smf_type<Modular<RecInt::rint<7>>>();
    smf_type<ModularBalanced<int32_t>>(); smf_type<ModularBalanced<int64_t>>(); smf_type<ModularBalanced<float>>(); smf_type<ModularBalanced<double>>();
    smf_type<ModularExtended<float>>(); smf_type<ModularExtended<double>>();
    smf_type<Montgomery<int32_t>>(); smf_type<Montgomery<RecInt::ruint<7>>>();
    smf_type<GFqDom<int32_t>>(); smf_type<GFqDom<int64_t>>();
    smf_type<Extension<GFqDom<int32_t>>>(); smf_type<Extension<GFqDom<int64_t>>>(); smf_type<Extension<Modular<int32_t>>>();
    smf_type<Poly1Dom<Modular<int32_t>, Dense>>(); smf_type<Poly1Dom<GFqDom<int32_t>, Dense>>(); smf_type<Poly1Dom<GFqDom<int64_t>, Dense>>();
    smf_type<Poly1FactorDom<Modular<int32_t>, Dense>>();
    smf_type<QField<Rational>>(); smf_type<ZRing<Integer>>(); smf_type<ZRing<int64_t>>(); smf_type<ZRing<double>>();
    smf_type<GFqExtFast<int64_t>>(); smf_type<GFqExt<int64_t>>(); smf_type<GFqExt<int32_t>>(); smf_type<GFqKronecker<int64_t, Integer>>();
    smf_type<GF2>(); smf_type<Poly1Dom<Modular<Integer>, Dense>>();
}
'''


def extract():
    old = (gen_smf.TARGETS, gen_smf.TU)
    old_cache = common.CACHE
    try:
        gen_smf.TARGETS, gen_smf.TU = TARGETS, TU
        # a private work directory: gen_smf.extract writes <CACHE>/ast_smf/smf.C
        work = os.path.join(old_cache, "ast_smf_domains")
        os.makedirs(work, exist_ok=True)
        common.CACHE = work
        return gen_smf.extract()
    finally:
        gen_smf.TARGETS, gen_smf.TU = old
        common.CACHE = old_cache


def emit(table):
    gen = os.path.join(common.LEAN_DIR, "GivaroModel", "Generated")
    os.makedirs(gen, exist_ok=True)
    ls = gen_smf.lean_str
    lines = ["/- GENERATED by translate/gen_smf_domains.py from /repo's working tree (clang AST) -- do not edit.",
             "   One row per (domain class instantiation, special member function, data member): how the function is provided and which members",
             "   of the *source* object are read to initialise / assign that member.  `sources = []` = the member is not copied. -/",
             "namespace Givaro.Gen.SMFDomains", "",
             "structure Row where", "  cls : String", "  inst : String", "  op : String", "  how : String", "  member : String",
             "  sources : List String", "  conditional : Bool", "deriving Repr, DecidableEq", "",
             "def rows : List Row := ["]
    body = []
    for t in table:
        for o in t["ops"]:
            for (f, _ty) in t["fields"]:
                body.append("  ⟨%s, %s, %s, %s, %s, [%s], %s⟩" % (ls(t["cls"]), ls(t["inst"]), ls(o["op"]), ls(o["how"]), ls(f),
                                                                ", ".join(ls(x) for x in o["per"].get(f, [])),
                                                                "true" if f in o.get("conditional", []) else "false"))
    lines.append(",\n".join(body))
    lines += ["]", "", "def classes : List String := [%s]" % ", ".join(ls(c) for c in sorted({t["cls"] for t in table})), "",
              "end Givaro.Gen.SMFDomains", ""]
    from vlib import genroot
    path = os.path.join(gen, "SMFDomains.lean")
    genroot.write_if_changed(path, "\n".join(lines))
    os.makedirs(os.path.join(common.CACHE, "gen"), exist_ok=True)
    with open(os.path.join(common.CACHE, "gen", "smf_domains_meta.json"), "w") as fh:
        json.dump(table, fh, indent=1)
    return path


if __name__ == "__main__":
    t = extract()
    emit(t)
    for c in t:
        print(c["inst"], [f for f, _ in c["fields"]])
        for o in c["ops"]:
            if o["how"] not in ("absent",):
                print("   %-11s %-26s %s cond=%s" % (o["op"], o["how"], o["per"], o.get("conditional")))
