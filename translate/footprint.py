#!/usr/bin/env python3
"""Footprint extractor for C16 / C18.

Input: the clang-14 JSON AST of a translation unit that *uses* every domain of harness/domains.h (so that exactly the member
functions the history / thread harnesses call are implicitly instantiated, with concrete types).  For every function body in
namespace Givaro (class methods of the domain classes and everything they call, transitively) it records

  statics       non-const variables with static storage duration it touches: function-local `static`s, static data members,
                namespace-scope variables ("hidden state": C16)
  const_writes  data members of *this written by a const member function (possible only through `mutable` or `const_cast`)
  pointee_writes  writes through a pointer/array member (`*numRefs`, `_tab[i] = …`): state shared between copies
  const_casts   number of const_cast expressions

and then closes each table row under calls.  Output: lean/GivaroModel/Generated/Footprint.lean (a table + nothing else) and
.cache/gen/footprint_meta.json.
"""
import json
import os
import re
import subprocess
import sys

HERE = os.path.dirname(os.path.abspath(__file__))
sys.path.insert(0, os.path.dirname(HERE))
from translate import gmpxx          # noqa: E402
from vlib import common              # noqa: E402

TU = '#include "%s/harness/domains.h"\nint fp_use() { return (int)dz::kinds().size(); }\n' + """
// Every member function of every ring class configuration the library offers -- not only the ones the probes of the zoo call and not
// only the configurations the zoo instantiates -- is put into the table by explicit instantiation (a function-local static in a kernel
// of Modular<ruint<K>, ruint<K+1>> was invisible while only Modular<ruint<7>> was instantiated: seeded change C18-x3).
// (GFqDom is not in this list: its member init(Rep&, std::istream&) does not compile when instantiated.)
#include <givaro/modular-log16.h>
template class Givaro::Modular<RecInt::ruint<7>, RecInt::ruint<8>>;
template class Givaro::Modular<RecInt::ruint<7>, RecInt::ruint<7>>;
template class Givaro::Modular<RecInt::rint<7>>;
template class Givaro::Modular<RecInt::ruint<8>>;
template class Givaro::Modular<int8_t>;
template class Givaro::Modular<uint8_t>;
template class Givaro::Modular<int16_t>;
template class Givaro::Modular<uint16_t>;
template class Givaro::Modular<int32_t>;
template class Givaro::Modular<uint32_t>;
template class Givaro::Modular<int64_t>;
template class Givaro::Modular<uint64_t>;
template class Givaro::Modular<int32_t, int64_t>;
template class Givaro::Modular<uint32_t, uint64_t>;
template class Givaro::Modular<int32_t, uint64_t>;
template class Givaro::Modular<float>;
template class Givaro::Modular<double>;
template class Givaro::Modular<float, double>;
template class Givaro::Modular<Givaro::Integer>;
template class Givaro::ModularBalanced<float>;
template class Givaro::ModularBalanced<double>;
template class Givaro::ModularBalanced<int32_t>;
template class Givaro::ModularBalanced<int64_t>;
template class Givaro::ModularExtended<float>;
template class Givaro::ModularExtended<double>;
template class Givaro::Montgomery<int32_t>;
template class Givaro::Montgomery<RecInt::ruint<7>>;
template class Givaro::Montgomery<RecInt::ruint<8>>;
"""
# the out-of-line definitions the domain classes call into (compiled into libgivaro, not visible through the headers): included in the
# translation unit so that the closure under calls reaches them (Rational arithmetic and constructors, the allocator; the Integer layer is C01's translation unit)
OUT_OF_LINE = ("src/kernel/rational/givrataddsub.C", "src/kernel/rational/givratcompare.C", "src/kernel/rational/givratcpy.C",
               "src/kernel/rational/givratcstor.C", "src/kernel/rational/givratmisc.C", "src/kernel/rational/givratmuldiv.C",
               "src/kernel/memory/givaromm.C")

DOMAIN_CLASSES = ("Modular", "ModularBalanced", "ModularExtended", "Montgomery", "GFqDom", "Extension", "Poly1Dom", "QField", "ZRing",
                  "Modular_implem", "FiniteFieldInterface", "FiniteRingInterface", "UnparametricZRing")


def strip(n):
    while n.get("kind") in ("ImplicitCastExpr", "ParenExpr", "CStyleCastExpr", "CXXStaticCastExpr", "CXXFunctionalCastExpr",
                            "ExprWithCleanups", "MaterializeTemporaryExpr", "CXXBindTemporaryExpr") and n.get("inner"):
        n = n["inner"][-1]
    return n


class Scan:
    def __init__(self, prog, globals_nonconst, mutable_fields=None, const_methods=None):
        self.prog = prog
        self.gvars = globals_nonconst
        self.mutable_fields = mutable_fields or {}     # FieldDecl id -> name, for fields declared `mutable`
        self.const_methods = const_methods or set()    # ids of const member functions

    def scan(self, f):
        r = dict(statics=set(), const_writes=set(), pointee_writes=set(), const_casts=0, calls=set(), local_statics=set())
        local_static_ids = {}

        def lhs_targets(e, out, via_cc=False):
            """what a write to expression e modifies: ('member', name, via_const_cast) | ('pointee', name) | ('static', name)"""
            e0 = e
            cc = via_cc
            while True:
                k = e.get("kind")
                if k == "CXXConstCastExpr":
                    cc = True
                if k in ("ImplicitCastExpr", "ParenExpr", "CStyleCastExpr", "CXXStaticCastExpr", "CXXConstCastExpr", "CXXFunctionalCastExpr") and e.get("inner"):
                    e = e["inner"][-1]
                    continue
                break
            k = e.get("kind")
            if k == "MemberExpr":
                base = strip(e["inner"][0]) if e.get("inner") else {}
                bk = base.get("kind")
                # is the base `this` (possibly const_cast'ed)?
                b = e["inner"][0] if e.get("inner") else {}
                bcc = cc
                while b.get("kind") in ("ImplicitCastExpr", "ParenExpr", "CXXConstCastExpr", "CStyleCastExpr", "UnaryOperator") and b.get("inner"):
                    if b.get("kind") == "CXXConstCastExpr":
                        bcc = True
                    b = b["inner"][-1]
                if b.get("kind") == "CXXThisExpr":
                    out.append(("member", e.get("name"), bcc))
                else:
                    lhs_targets(e["inner"][0], out, cc) if e.get("inner") else None
                return
            if k in ("ArraySubscriptExpr",) or (k == "UnaryOperator" and e.get("opcode") == "*"):
                inner = strip(e["inner"][0])
                if inner.get("kind") == "MemberExpr":
                    if "atomic" in (inner.get("type", {}).get("qualType", "") + inner.get("type", {}).get("desugaredQualType", "")):
                        return      # std::atomic pointee: synchronised by construction
                    out.append(("pointee", inner.get("name")))
                elif inner.get("kind") == "DeclRefExpr":
                    rd = inner.get("referencedDecl", {})
                    if rd.get("id") in self.gvars or rd.get("id") in local_static_ids:
                        out.append(("static", rd.get("name")))
                return
            if k == "CXXOperatorCallExpr":      # vec[i] = …  on a member container
                args = e.get("inner", [])[1:]
                if args:
                    a0 = strip(args[0])
                    if a0.get("kind") == "MemberExpr":
                        b = strip(a0["inner"][0]) if a0.get("inner") else {}
                        if b.get("kind") == "CXXThisExpr":
                            out.append(("member", a0.get("name"), cc))
                return
            if k == "DeclRefExpr":
                rd = e.get("referencedDecl", {})
                if rd.get("id") in self.gvars or rd.get("id") in local_static_ids:
                    out.append(("static", rd.get("name")))

        def walk(n, parent=None):
            k = n.get("kind")
            # a `mutable` data member of *this used in a const member function other than by reading its value or calling a const
            # member function on it (`_cache.reset(…)`, `_seen = true`, passing it by non-const reference, taking its address)
            if f.const and k == "MemberExpr" and n.get("referencedMemberDecl") in self.mutable_fields:
                b = n["inner"][0] if n.get("inner") else {}
                while b.get("kind") in ("ImplicitCastExpr", "ParenExpr", "CXXConstCastExpr", "CStyleCastExpr") and b.get("inner"):
                    b = b["inner"][-1]
                if b.get("kind") == "CXXThisExpr":
                    pk = (parent or {}).get("kind")
                    read_only = False
                    if pk == "ImplicitCastExpr" and parent.get("castKind") in ("LValueToRValue",):
                        read_only = True
                    elif pk == "ImplicitCastExpr" and parent.get("castKind") == "NoOp" and "const" in parent.get("type", {}).get("qualType", ""):
                        read_only = True      # bound as a const object (const member call / const reference argument)
                    elif pk == "MemberExpr" and parent.get("referencedMemberDecl") in self.const_methods:
                        read_only = True
                    if not read_only:
                        r["const_writes"].add("%s (mutable)" % self.mutable_fields[n["referencedMemberDecl"]])
            if k == "VarDecl" and n.get("storageClass") == "static":
                qt = n.get("type", {}).get("qualType", "")
                if not (qt.startswith("const ") and not n.get("inner")) and "constexpr" not in json.dumps(n.get("constexpr", "")):
                    # a function-local static: hidden state unless it is a compile-time constant
                    is_const = qt.startswith("const ") or " const" in qt
                    local_static_ids[n["id"]] = n.get("name")
                    if not (is_const and all(c.get("kind", "").endswith("Literal") for c in n.get("inner", []))):
                        r["local_statics"].add(n.get("name"))
                        r["statics"].add("local:" + (n.get("name") or "?"))
            if k == "CXXConstCastExpr":
                r["const_casts"] += 1
            if k == "DeclRefExpr":
                rd = n.get("referencedDecl", {})
                rid = rd.get("id")
                if rd.get("kind") in ("FunctionDecl", "CXXMethodDecl", "CXXConstructorDecl", "CXXConversionDecl"):
                    r["calls"].add(rid)
                elif rid in self.gvars:
                    r["statics"].add(self.gvars[rid])
            if k in ("MemberExpr",) and n.get("referencedMemberDecl"):
                r["calls"].add(n["referencedMemberDecl"])
            if k == "CXXConstructExpr":
                pass
            targets = []
            if k == "BinaryOperator" and n.get("opcode") == "=":
                lhs_targets(n["inner"][0], targets)
            elif k == "CompoundAssignOperator":
                lhs_targets(n["inner"][0], targets)
            elif k == "UnaryOperator" and n.get("opcode") in ("++", "--"):
                lhs_targets(n["inner"][0], targets)
            elif k == "CXXOperatorCallExpr":
                # overloaded assignment to a member: x.operator=(…), x += …
                callee = n["inner"][0] if n.get("inner") else {}
                ref = strip(callee).get("referencedDecl", {}) if strip(callee).get("kind") == "DeclRefExpr" else {}
                if ref.get("name", "") in ("operator=", "operator+=", "operator-=", "operator*=", "operator/=", "operator%=", "operator++", "operator--") and len(n["inner"]) > 1:
                    lhs_targets(n["inner"][1], targets)
            for t in targets:
                if t[0] == "member":
                    if f.const:
                        r["const_writes"].add(t[1] + (" (const_cast)" if t[2] else ""))
                elif t[0] == "pointee":
                    r["pointee_writes"].add(t[1])
                elif t[0] == "static":
                    r["statics"].add("write:" + t[1])
            for c in n.get("inner", []):
                walk(c, n)
        walk(f.body)
        for ini in f.inits:
            walk(ini)
        return r


# The polynomial domain's predicates and `assign`/`degree` normalise their `const Rep&` argument in place (`setDegree(const_cast<Rep&>(P))`):
# `setdegree` stores (`resize`) only when the representation has leading zero coefficients.  On a thread-private element that is outside
# C18; on the domain's own constants `zero`/`one`/`mOne` (and on `Extension::_irred`, the modulus handed to `modin`/`invmod` by every
# multiplication) it would be a write to the shared object -- except that the constructors establish, and nothing changes, that these are
# stored normalised (fix C18_2; `Extension(polydomain, Irred)` normalises its copy by calling `isOne(_irred)` in the constructor body),
# so the guarded `resize` is never reached with them.  harness/h_threads.cpp inspects exactly this on fresh objects, copies, copies of
# copies and assignment targets before any const use (`norm` lines), and ThreadSanitizer watches the first const uses.
# Such entries (member in NORMALISED_MEMBERS, every store on the path made by `setdegree`) are listed in their own column, assumed
# harmless under that invariant and cross-checked by ThreadSanitizer; everything else counts as a shared write.
NORMALISED_MEMBERS = {"Poly1Dom": ("zero", "one", "mOne"), "Poly1FactorDom": ("zero", "one", "mOne"), "Extension": ("_irred",)}
NORMALISERS = ("setdegree",)


def split_arg_writes(f, entries):
    hard, norm = [], []
    for (what, through, writers) in entries:
        txt = "%s%s [stores in: %s]" % (what, (" passed at %s" % through) if through else "", ", ".join(writers))
        members = next((m for c, m in NORMALISED_MEMBERS.items() if (f.cls or "") == c or (f.cls or "").startswith(c + "<")), ())
        if what in members and writers and all(w in NORMALISERS for w in writers):
            norm.append(txt)
        else:
            hard.append(txt)
    return dict(arg_writes=sorted(set(hard)), arg_normalise=sorted(set(norm)))


def qualified(f):
    return "%s::%s" % (f.cls, f.name) if f.cls else f.name


def extract(log=lambda *a: None):
    work = os.path.join(common.CACHE, "ast_footprint")
    os.makedirs(work, exist_ok=True)
    src = os.path.join(work, "fp.C")
    with open(src, "w") as fh:
        fh.write(TU % common.VERIF)
        for rel in OUT_OF_LINE:
            if os.path.exists(os.path.join(common.REPO, rel)):
                fh.write('#include "%s"\n' % os.path.join(common.REPO, rel))
    cmd = ["clang++-14", "-std=gnu++17", "-fsyntax-only", "-DNDEBUG", "-UDEBUG", "-w"] + common.inc_flags() + \
          ["-I", os.path.join(common.VERIF, "harness"), "-Xclang", "-ast-dump=json", "-Xclang", "-ast-dump-filter=Givaro", src]
    p = subprocess.run(cmd, stdout=subprocess.PIPE, stderr=subprocess.PIPE, text=True)
    if p.returncode != 0:
        raise RuntimeError("clang failed on the footprint translation unit:\n" + p.stderr[-3000:])
    docs = gmpxx.parse_docs(p.stdout)
    prog = gmpxx.Program(docs)
    # non-const variables with static storage outside functions (static data members, namespace scope)
    gvars = {}
    for vid, (node, cls) in prog.vars.items():
        qt = node.get("type", {}).get("qualType", "")
        if qt.startswith("const ") or node.get("constexpr"):
            continue
        if node.get("storageClass") == "static" or cls is None:
            gvars[vid] = "%s%s" % ((cls + "::") if cls else "", node.get("name"))
    # fields declared `mutable`, and the ids of const member functions (declarations and definitions)
    mutable_fields, const_methods = {}, set()

    def collect(n):
        k = n.get("kind")
        if k == "FieldDecl" and n.get("mutable"):
            mutable_fields[n["id"]] = n.get("name")
        if k == "CXXMethodDecl" and re.search(r"\)\s*const(\s|$|&|noexcept)", n.get("type", {}).get("qualType", "")):
            const_methods.add(n["id"])
        for c in n.get("inner", []) or []:
            if isinstance(c, dict):
                collect(c)
    for d in docs:
        collect(d)
    # the out-of-line definition of a static data member (`T C::m = …;` at namespace scope) is the same variable as its in-class declaration
    member_names = {}
    for vid, (node, cls) in prog.vars.items():
        if cls is not None and node.get("storageClass") == "static":
            member_names.setdefault(node.get("name"), set()).add("%s::%s" % (cls, node.get("name")))
    for vid, (node, cls) in prog.vars.items():
        if vid in gvars and cls is None and len(member_names.get(node.get("name"), ())) == 1 and node.get("previousDecl"):
            gvars[vid] = next(iter(member_names[node.get("name")]))
    sc = Scan(prog, gvars, mutable_fields, const_methods)
    rows = {}
    by_id = {}
    for f in prog.funcs:
        if f.body is None or getattr(f, "in_template", False):
            continue
        if not f.file or "/usr/" in f.file:
            continue
        r = sc.scan(f)
        by_id[f.id] = (f, r)
    # definitions reachable through declarations
    def resolve(i):
        d = prog.def_of.get(i)
        return d.id if d is not None and d.id in by_id else (i if i in by_id else None)
    # transitive closure
    closed = {}

    def close(i, stack=()):
        if i in closed:
            return closed[i]
        f, r = by_id[i]
        acc = dict(statics=set(r["statics"]), const_writes=set(r["const_writes"]), pointee_writes=set(r["pointee_writes"]),
                   const_casts=r["const_casts"])
        closed[i] = acc   # cycles: partial result
        for c in r["calls"]:
            j = resolve(c)
            if j is None or j == i or j in stack:
                continue
            sub = close(j, stack + (i,))
            acc["statics"] |= sub["statics"]
            acc["pointee_writes"] |= {("via %s: %s" % (by_id[j][0].name, w)) if not w.startswith("via ") else w for w in sub["pointee_writes"]}
            # const-ness of a callee's member writes concerns the callee's object, keep them tagged
            acc["const_writes"] |= {("via %s: %s" % (by_id[j][0].name, w)) if not w.startswith("via ") else w for w in sub["const_writes"]}
        return acc
    # interprocedural: which parts of the shared object a const member function / copy constructor hands to something that writes them
    from translate import paramwrites
    pa = paramwrites.Analysis(prog, {i: fr[0] for i, fr in by_id.items()}, resolve)
    pa.solve()
    table = []
    for i, (f, r) in by_id.items():
        if not f.cls or not any(f.cls == c or f.cls.startswith(c) for c in DOMAIN_CLASSES):
            continue
        acc = close(i)
        table.append(dict(cls=f.cls, fn=f.name, sig=f.qual, const=bool(f.const), ctor=f.kind == "CXXConstructorDecl",
                          copyctor=f.kind == "CXXConstructorDecl" and len(f.params) == 1 and (f.cls or "") in gmpxx.type_of(f.params[0]),
                          dtor=f.kind == "CXXDestructorDecl", file=os.path.basename(f.file), line=f.line,
                          statics=sorted(acc["statics"]), const_writes=sorted(acc["const_writes"]),
                          pointee_writes=sorted(acc["pointee_writes"]), const_casts=acc["const_casts"],
                          **split_arg_writes(f, pa.shared_arg_writes(i, f.kind == "CXXConstructorDecl" and len(f.params) == 1 and (f.cls or "") in gmpxx.type_of(f.params[0]))
                                             if (f.const or f.kind == "CXXConstructorDecl") else [])))
    # merge identical (cls, fn, sig) rows of different instantiations: keep union
    merged = {}
    for t in table:
        k = (t["cls"], t["fn"], t["sig"])
        if k in merged:
            m = merged[k]
            for fld in ("statics", "const_writes", "pointee_writes", "arg_writes", "arg_normalise"):
                m[fld] = sorted(set(m[fld]) | set(t[fld]))
        else:
            merged[k] = t
    table = sorted(merged.values(), key=lambda t: (t["cls"], t["fn"], t["sig"]))
    return table


def claimed(t):
    """C18's operation set: const member functions and copy constructors of domain classes, except the random draws (they write the
    caller's generator, which the property does not list) and seeding."""
    if not (t["const"] or t["copyctor"]):
        return False
    n = t["fn"].lower()
    return not ("random" in n or "seeding" in n)


def lean_str(s):
    return '"' + s.replace("\\", "\\\\").replace('"', '\\"') + '"'


def emit(table):
    gen = os.path.join(common.LEAN_DIR, "GivaroModel", "Generated")
    os.makedirs(gen, exist_ok=True)
    # only rows with something to say are listed individually; the rest are counted
    lines = ["/- GENERATED by translate/footprint.py from /repo's working tree -- do not edit.",
             "   Per instantiated member function of a domain class (and transitively everything it calls): the non-const static storage it",
             "   touches, the data members a const function writes, the pointees it writes through pointer members. -/",
             "namespace Givaro.Gen.Footprint", "",
             "structure Row where", "  cls : String", "  fn : String", "  isConst : Bool", "  isCopyCtor : Bool", "  claimed : Bool", "  statics : List String",
             "  constWrites : List String", "  pointeeWrites : List String", "  argWrites : List String", "  argNormalise : List String", "deriving Repr, DecidableEq", "",
             "def rows : List Row := ["]
    body = []
    for t in table:
        body.append("  ⟨%s, %s, %s, %s, %s, [%s], [%s], [%s], [%s], [%s]⟩" % (
            lean_str(t["cls"]), lean_str(t["fn"] + " : " + t["sig"][:80]), "true" if t["const"] else "false", "true" if t["copyctor"] else "false",
            "true" if claimed(t) else "false",
            ", ".join(lean_str(x) for x in t["statics"]), ", ".join(lean_str(x) for x in t["const_writes"]),
            ", ".join(lean_str(x) for x in t["pointee_writes"]), ", ".join(lean_str(x) for x in t.get("arg_writes", [])),
            ", ".join(lean_str(x) for x in t.get("arg_normalise", []))))
    lines.append(",\n".join(body))
    lines += ["]", "", "end Givaro.Gen.Footprint", ""]
    path = os.path.join(gen, "Footprint.lean")
    text = "\n".join(lines)
    from vlib import genroot
    genroot.write_if_changed(path, text)
    os.makedirs(os.path.join(common.CACHE, "gen"), exist_ok=True)
    with open(os.path.join(common.CACHE, "gen", "footprint_meta.json"), "w") as fh:
        json.dump(table, fh, indent=1)
    return path


if __name__ == "__main__":
    t = extract()
    emit(t)
    print("%d member functions of domain classes" % len(t))
    for r in t:
        if r["statics"] or r["const_writes"] or r.get("arg_writes") or (r["pointee_writes"] and (r["const"] or r["copyctor"])):
            print(r["cls"], r["fn"], "const" if r["const"] else "", "| statics", r["statics"], "| const_writes", r["const_writes"], "| pointee", r["pointee_writes"][:4], "| arg_writes", r.get("arg_writes"), "| normalise", r.get("arg_normalise"))
