#!/usr/bin/env python3
"""clang-14 JSON AST  ->  Lean 4 definitions, for the gmp++ `Integer` dialect of givaro.

The translator is a *symbolic executor*: each C++ function body is executed on symbolic
arguments over a store of locations (objects and reference parameters are locations, so
aliasing is represented faithfully); calls to other givaro functions are executed inline;
calls to `mpz_*` become applications of the contracts of `GivaroModel/Prim/Gmp.lean`; every
integral conversion clang recorded (implicit or explicit) becomes an explicit wrap.  The result
of executing a body is a decision tree whose leaves carry the returned value and the final
values of `*this` and of every non-const reference parameter.

A body outside the dialect raises Untranslatable: it is *reported*, never guessed at.
"""
import json
import os
import re
import subprocess
import sys

sys.setrecursionlimit(20000)


class Untranslatable(Exception):
    pass


# ------------------------------------------------------------------------------------------
# C types
# ------------------------------------------------------------------------------------------
WORD = {  # desugared builtin name -> (tag, signed, bits)
    "long": ("S64", True, 64), "unsigned long": ("U64", False, 64),
    "long long": ("S64", True, 64), "unsigned long long": ("U64", False, 64),
    "int": ("S32", True, 32), "unsigned int": ("U32", False, 32),
    "short": ("S16", True, 16), "unsigned short": ("U16", False, 16),
    "char": ("S8", True, 8), "signed char": ("S8", True, 8), "unsigned char": ("U8", False, 8),
    "bool": ("B", False, 1),
    "int64_t": ("S64", True, 64), "uint64_t": ("U64", False, 64),
    "int32_t": ("S32", True, 32), "uint32_t": ("U32", False, 32),
    "int16_t": ("S16", True, 16), "uint16_t": ("U16", False, 16),
    "int8_t": ("S8", True, 8), "uint8_t": ("U8", False, 8),
    "size_t": ("U64", False, 64), "mp_bitcnt_t": ("U64", False, 64), "mp_limb_t": ("U64", False, 64),
    "mp_size_t": ("S64", True, 64),
}
RANGE = {"S64": (-2**63, 2**63 - 1), "U64": (0, 2**64 - 1), "S32": (-2**31, 2**31 - 1), "U32": (0, 2**32 - 1),
         "S16": (-2**15, 2**15 - 1), "U16": (0, 2**16 - 1), "S8": (-128, 127), "U8": (0, 255), "B": (0, 1)}


def strip_cv(t):
    t = t.strip()
    changed = True
    while changed:
        changed = False
        for q in ("const ", "volatile "):
            if t.startswith(q):
                t = t[len(q):].strip()
                changed = True
        for q in (" const", " volatile"):
            if t.endswith(q):
                t = t[:-len(q)].strip()
                changed = True
    return t


def type_of(node):
    t = node.get("type", {})
    return t.get("desugaredQualType") or t.get("qualType") or ""


def classify(qt):
    """-> ('word', tag) | ('Z',) | ('float',) | ('ptr',) | ('void',) | ('other', qt); plus ref/const flags."""
    q = qt.strip()
    isref = q.endswith("&")
    if isref:
        q = q[:-1].strip()
        if q.endswith("&"):
            q = q[:-1].strip()
    isconst = q.startswith("const ") or q.endswith(" const")
    b = strip_cv(q)
    if b in WORD:
        return ("word", WORD[b][0]), isref, isconst
    if b in ("Givaro::Integer", "Integer", "Givaro::Integer::Self_t", "Rep", "Element", "Givaro::ZRing<Givaro::Integer>::Rep",
             "Givaro::ZRing<Givaro::Integer>::Element"):
        return ("Z",), isref, isconst
    if b in ("double", "float", "long double"):
        return ("float",), isref, isconst
    if b == "void":
        return ("void",), isref, isconst
    if b.endswith("*"):
        return ("ptr",), isref, isconst
    return ("other", b), isref, isconst


def fits(frm, to):
    if frm is None or to is None:
        return False
    a, b = RANGE[frm], RANGE[to]
    return b[0] <= a[0] and a[1] <= b[1]


# ------------------------------------------------------------------------------------------
# Lean terms
# ------------------------------------------------------------------------------------------
class T:
    """A Lean term of sort Int ('int') or Prop ('prop').  rng: a word tag the value is known to lie in."""
    __slots__ = ("s", "sort", "rng", "b2i", "lit", "neg")

    def __init__(self, s, sort="int", rng=None, b2i=None, lit=None):
        self.s, self.sort, self.rng, self.b2i, self.lit = s, sort, rng, b2i, lit

    def __repr__(self):
        return "T(%s:%s)" % (self.s, self.sort)


def lit(v):
    rng = None
    for tag in ("B", "U8", "S8", "U16", "S16", "U32", "S32", "U64", "S64"):
        lo, hi = RANGE[tag]
        if lo <= v <= hi:
            rng = tag
            break
    # keep rng minimal but usable: a literal fits anything containing it (checked through lit)
    return T(str(v) if v >= 0 else "(%d)" % v, "int", rng, lit=v)


def lit_fits(t, to):
    if t.lit is not None:
        lo, hi = RANGE[to]
        return lo <= t.lit <= hi
    return fits(t.rng, to)


def as_int(t):
    if t.sort == "int":
        return t
    if t.s == "True":
        return lit(1)
    if t.s == "False":
        return lit(0)
    return T("(if %s then 1 else 0)" % t.s, "int", "B", b2i=t)


def as_prop(t):
    if t.sort == "prop":
        return t
    if t.b2i is not None:
        return t.b2i
    if t.lit is not None:
        return T("True" if t.lit != 0 else "False", "prop")
    return T("(%s ≠ 0)" % t.s, "prop")


def wrap(t, tag):
    """value of converting integer t to C type `tag`."""
    t = as_int(t)
    if tag == "B":
        return as_int(as_prop(t))
    if lit_fits(t, tag):
        if t.lit is None and t.b2i is not None:
            return t
        return T(t.s, "int", (t.rng if fits(t.rng, tag) else tag) if t.lit is None else t.rng, lit=t.lit)
    if t.lit is not None:
        lo, hi = RANGE[tag]
        m = hi - lo + 1
        v = (t.lit - lo) % m + lo
        return lit(v)
    return T("(wrap%s %s)" % (tag, t.s), "int", tag)


def p_not(p):
    p = as_prop(p)
    if p.s == "True":
        return T("False", "prop")
    if p.s == "False":
        return T("True", "prop")
    return T("(¬ %s)" % p.s, "prop")


# ------------------------------------------------------------------------------------------
# values of the symbolic machine
# ------------------------------------------------------------------------------------------
class Loc:
    __slots__ = ("id", "kind", "name")

    def __init__(self, id, kind, name=""):
        self.id, self.kind, self.name = id, kind, name  # kind: 'Z' | 'word:<tag>'

    def __repr__(self):
        return "Loc(%s,%s)" % (self.id, self.name)


class Ptr:
    __slots__ = ("loc",)

    def __init__(self, loc):
        self.loc = loc


class Special:
    """opaque non-integer things we can carry around but not compute with (function refs)."""
    def __init__(self, what, data=None):
        self.what, self.data = what, data


# decision tree
class Ite:
    __slots__ = ("c", "a", "b")

    def __init__(self, c, a, b):
        self.c, self.a, self.b = c, a, b


class Leaf:
    __slots__ = ("ret", "store", "throw", "asserts")

    def __init__(self, ret, store, throw=False):
        self.ret, self.store, self.throw = ret, store, throw


def mk_ite(c, fa, fb):
    """c: prop T; fa/fb thunks producing trees."""
    c = as_prop(c)
    if c.s == "True":
        return fa()
    if c.s == "False":
        return fb()
    return Ite(c, fa(), fb())


# ------------------------------------------------------------------------------------------
# GMP primitive table:  name -> (dest arg indexes, has_return)
# the Lean contract for destination k of f is `f_dK srcs…` (or just `f` when there is a single
# destination and no return value) and `f_ret srcs…` / `f` for the returned value.
# ------------------------------------------------------------------------------------------
def _p(dests=(), ret=False):
    return (tuple(dests), ret)


MPZ = {
    "add": _p([0]), "add_ui": _p([0]), "sub": _p([0]), "sub_ui": _p([0]), "ui_sub": _p([0]),
    "mul": _p([0]), "mul_ui": _p([0]), "mul_si": _p([0]), "neg": _p([0]), "abs": _p([0]),
    "addmul": _p([0]), "addmul_ui": _p([0]), "submul": _p([0]), "submul_ui": _p([0]),
    "set": _p([0]), "set_ui": _p([0]), "set_si": _p([0]),
    "init_set": _p([0]), "init_set_ui": _p([0]), "init_set_si": _p([0]), "init": _p([0]),
    "tdiv_q": _p([0]), "tdiv_r": _p([0]), "tdiv_qr": _p([0, 1]), "fdiv_qr": _p([0, 1]), "cdiv_qr": _p([0, 1]),
    "tdiv_qr_ui": _p([0, 1], True), "fdiv_qr_ui": _p([0, 1], True), "cdiv_qr_ui": _p([0, 1], True),
    "fits_slong_p": _p([], True), "fits_ulong_p": _p([], True), "fits_sint_p": _p([], True), "fits_uint_p": _p([], True),
    "fits_sshort_p": _p([], True), "fits_ushort_p": _p([], True),
    "divisible_p": _p([], True), "divisible_ui_p": _p([], True), "sgn": _p([], True),
    "tdiv_r_2exp": _p([0]), "fdiv_r_2exp": _p([0]), "cdiv_q_2exp": _p([0]),
    "fdiv_q": _p([0]), "fdiv_r": _p([0]), "cdiv_q": _p([0]), "cdiv_r": _p([0]),
    "tdiv_q_ui": _p([0], True), "tdiv_r_ui": _p([0], True), "tdiv_ui": _p([], True),
    "fdiv_q_ui": _p([0], True), "fdiv_r_ui": _p([0], True), "fdiv_ui": _p([], True),
    "cdiv_q_ui": _p([0], True), "cdiv_r_ui": _p([0], True), "cdiv_ui": _p([], True),
    "mod": _p([0]), "mod_ui": _p([0], True),
    "divexact": _p([0]), "divexact_ui": _p([0]),
    "cmp": _p([], True), "_mpz_cmp_ui": _p([], True), "_mpz_cmp_si": _p([], True), "cmp_ui": _p([], True), "cmp_si": _p([], True),
    "cmpabs": _p([], True), "cmpabs_ui": _p([], True),
    "and": _p([0]), "ior": _p([0]), "xor": _p([0]), "com": _p([0]),
    "mul_2exp": _p([0]), "tdiv_q_2exp": _p([0]), "fdiv_q_2exp": _p([0]),
    "gcd": _p([0]), "lcm": _p([0]), "gcdext": _p([0, 1, 2]), "invert": _p([0], True),
    "pow_ui": _p([0]), "ui_pow_ui": _p([0]), "powm": _p([0]), "powm_ui": _p([0]),
    "sqrt": _p([0]), "sqrtrem": _p([0, 1]), "root": _p([0], True),
    "get_ui": _p([], True), "get_si": _p([], True), "size": _p([], True), "sizeinbase": _p([], True),
    "tstbit": _p([], True), "getlimbn": _p([], True),
    "fac_ui": _p([0]), "swap": _p([0, 1]),
    "jacobi": _p([], True), "legendre": _p([], True), "kronecker": _p([], True),
    "perfect_power_p": _p([], True), "probab_prime_p": _p([], True), "nextprime": _p([0]),
    "clear": _p([]),
}


IDENTITY = ("set", "init_set", "set_si", "set_ui", "init_set_si", "init_set_ui")
INOUT = ("swap", "addmul", "addmul_ui", "submul", "submul_ui")


class Func:
    def __init__(self, node, cls, access, file, is_friend=False):
        self.node = node
        self.id = node["id"]
        self.name = node["name"]
        self.kind = node["kind"]
        self.cls = cls            # enclosing class name or None
        self.access = access
        self.file = file
        self.line = node.get("loc", {}).get("line") or node.get("loc", {}).get("expansionLoc", {}).get("line")
        self.mangled = node.get("mangledName", "")
        self.params = [c for c in node.get("inner", []) if c.get("kind") == "ParmVarDecl"]
        self.body = next((c for c in node.get("inner", []) if c.get("kind") == "CompoundStmt"), None)
        self.inits = [c for c in node.get("inner", []) if c.get("kind") == "CXXCtorInitializer"]
        self.qual = node.get("type", {}).get("qualType", "")
        self.static = node.get("storageClass") == "static"
        self.is_method = self.kind in ("CXXMethodDecl", "CXXConstructorDecl", "CXXConversionDecl", "CXXDestructorDecl")
        # const method?
        self.const = bool(re.search(r"\)\s*const(\s*noexcept)?\s*$", self.qual))
        m = re.match(r"(.*?)\(", self.qual)
        self.rettype = m.group(1).strip() if m else ""


class Program:
    def __init__(self, docs):
        self.by_id = {}        # decl id -> Func (definitions and declarations)
        self.defs = {}         # id -> Func with body
        self.prev = {}         # definition id -> previous decl id
        self.decl_static = {}  # id -> bool
        self.vars = {}         # VarDecl id -> node (static members / globals)
        self.cls_of = {}       # record id -> name
        self.funcs = []
        self.parm_default = {}  # ParmVarDecl id -> default expr node
        self.curfile = None
        for d in docs:
            self._walk(d, None, "public", False)
        # link definitions to declarations
        self.def_of = {}
        for f in self.funcs:
            if f.body is not None:
                self.def_of[f.id] = f
        for f in self.funcs:
            if f.body is not None:
                p = f.node.get("previousDecl")
                seen = set()
                while p and p not in seen:
                    seen.add(p)
                    self.def_of.setdefault(p, f)
                    pf = self.by_id.get(p)
                    if pf is not None:
                        if pf.static:
                            f.static = True
                        if f.cls is None and pf.cls is not None:
                            f.cls = pf.cls
                        if pf.access and f.access is None:
                            f.access = pf.access
                        # default args live on the declaration
                        for a, b in zip(pf.params, f.params):
                            if a["id"] in self.parm_default:
                                self.parm_default.setdefault(b["id"], self.parm_default[a["id"]])
                        p = pf.node.get("previousDecl")
                    else:
                        p = None

    def _walk(self, n, cls, access, in_template):
        k = n.get("kind")
        loc = n.get("loc", {})
        for l in (loc, loc.get("spellingLoc", {}), loc.get("expansionLoc", {})):
            if "file" in l:
                self.curfile = l["file"]
        if k in ("FunctionDecl", "CXXMethodDecl", "CXXConstructorDecl", "CXXConversionDecl", "CXXDestructorDecl"):
            f = Func(n, cls, access, self.curfile)
            f.in_template = in_template
            self.by_id[f.id] = f
            self.funcs.append(f)
            for p in f.params:
                d = next((c for c in p.get("inner", []) if "Expr" in c.get("kind", "") or c.get("kind", "").endswith("Literal")), None)
                if d is not None:
                    self.parm_default[p["id"]] = d
            return
        if k == "VarDecl":
            self.vars[n["id"]] = (n, cls)
        if k in ("CXXRecordDecl", "ClassTemplateSpecializationDecl") and "inner" in n:
            name = n.get("name")
            acc = "private" if n.get("tagUsed") == "class" else "public"
            for c in n["inner"]:
                if c.get("kind") == "AccessSpecDecl":
                    acc = c.get("access", acc)
                    continue
                if c.get("kind") == "FriendDecl":
                    for cc in c.get("inner", []):
                        self._walk(cc, None, "public", in_template)
                    continue
                self._walk(c, name, acc, in_template)
            return
        if k in ("FunctionTemplateDecl", "ClassTemplateDecl"):
            # the pattern itself has dependent types: skip it, but visit the instantiations
            first = True
            for c in n.get("inner", []):
                ck = c.get("kind")
                if ck in ("FunctionDecl", "CXXMethodDecl", "CXXRecordDecl", "CXXConstructorDecl", "CXXConversionDecl") and first:
                    first = False
                    # the templated pattern: register as declaration without body
                    if ck != "CXXRecordDecl":
                        f = Func(c, cls, access, self.curfile)
                        f.body = None
                        f.in_template = True
                        self.by_id[f.id] = f
                    continue
                if ck in ("FunctionDecl", "CXXMethodDecl", "ClassTemplateSpecializationDecl", "CXXConstructorDecl", "CXXConversionDecl"):
                    self._walk(c, cls, access, False)
            return
        for c in n.get("inner", []):
            self._walk(c, cls, access, in_template)


# ------------------------------------------------------------------------------------------
# symbolic execution
# ------------------------------------------------------------------------------------------
class Ctx:
    """per top-level function: fresh ids, depth"""
    def __init__(self, prog):
        self.prog = prog
        self.n = 0
        self.stack = []

    def fresh(self, kind, name=""):
        self.n += 1
        return Loc(self.n, kind, name)


PASS_THROUGH = ("ExprWithCleanups", "MaterializeTemporaryExpr", "CXXBindTemporaryExpr", "ParenExpr", "ConstantExpr",
                "SubstNonTypeTemplateParmExpr")


def store_set(store, loc, val):
    s = dict(store)
    s[loc.id] = val
    return s


def kind_of_type(qt):
    c, isref, isconst = classify(qt)
    if c[0] == "Z":
        return "Z"
    if c[0] == "word":
        return "word:" + c[1]
    return None


class Exec:
    def __init__(self, prog):
        self.prog = prog

    # ---- expressions (CPS):  k(value, store) -> tree
    def ev(self, e, fr, st, cx, k):
        kind = e.get("kind")
        if kind in PASS_THROUGH:
            return self.ev(e["inner"][0], fr, st, cx, k)
        m = getattr(self, "ev_" + kind, None)
        if m is None:
            raise Untranslatable("expression kind %s" % kind)
        return m(e, fr, st, cx, k)

    def rvalue(self, e, fr, st, cx, k):
        """evaluate and, if the result is a location of word kind, read it (for contexts that need a number)."""
        def kk(v, st2):
            if isinstance(v, Loc):
                if v.id not in st2:
                    raise Untranslatable("read of uninitialised location %s" % v.name)
                return k(st2[v.id], st2)
            return k(v, st2)
        return self.ev(e, fr, st, cx, kk)

    def ev_IntegerLiteral(self, e, fr, st, cx, k):
        return k(lit(int(e["value"])), st)

    def ev_CXXBoolLiteralExpr(self, e, fr, st, cx, k):
        return k(T("True" if e.get("value") else "False", "prop"), st)

    def ev_CharacterLiteral(self, e, fr, st, cx, k):
        return k(lit(int(e["value"])), st)

    def ev_CXXThisExpr(self, e, fr, st, cx, k):
        if "this" not in fr:
            raise Untranslatable("this outside method")
        return k(Ptr(fr["this"]), st)

    def ev_DeclRefExpr(self, e, fr, st, cx, k):
        r = e["referencedDecl"]
        rid, rk = r["id"], r.get("kind")
        if rk in ("ParmVarDecl", "VarDecl"):
            if rid in fr:
                return k(fr[rid], st)
            # class statics / globals
            if rid in self.prog.vars:
                node, cls = self.prog.vars[rid]
                nm = node.get("name")
                if cls == "Integer" and nm in ("zero", "one", "mOne"):
                    l = cx.fresh("Z", "Integer::" + nm)
                    return k(l, store_set(st, l, lit({"zero": 0, "one": 1, "mOne": -1}[nm])))
            raise Untranslatable("reference to non-local variable %s" % r.get("name"))
        if rk in ("FunctionDecl", "CXXMethodDecl"):
            return k(Special("fn", r), st)
        if rk == "EnumConstantDecl":
            raise Untranslatable("enum constant")
        raise Untranslatable("DeclRef to %s" % rk)

    def ev_MemberExpr(self, e, fr, st, cx, k):
        name = e.get("name")
        base = e["inner"][0]
        if name == "gmp_rep":
            def kk(v, st2):
                if isinstance(v, Ptr):
                    v = v.loc
                if not isinstance(v, Loc):
                    raise Untranslatable("gmp_rep of non-location")
                return k(v, st2)
            return self.ev(base, fr, st, cx, kk)
        if name == "_mp_size":
            def kk(v, st2):
                if isinstance(v, Ptr):
                    v = v.loc
                if not isinstance(v, Loc):
                    raise Untranslatable("_mp_size of non-location")
                return k(T("(mp_size %s)" % st2[v.id].s, "int", "S32"), st2)
            return self.ev(base, fr, st, cx, kk)
        if e.get("referencedMemberDecl") in self.prog.by_id or name.startswith("operator") or True:
            # bound member function: handled by the call expression
            return k(Special("member", e), st)

    def ev_UnaryOperator(self, e, fr, st, cx, k):
        op = e["opcode"]
        sub = e["inner"][0]
        if op == "&":
            def kk(v, st2):
                if isinstance(v, Loc):
                    return k(Ptr(v), st2)
                raise Untranslatable("address of non-location")
            return self.ev(sub, fr, st, cx, kk)
        if op == "*":
            def kk(v, st2):
                if isinstance(v, Ptr):
                    return k(v.loc, st2)
                raise Untranslatable("deref of non-pointer")
            return self.ev(sub, fr, st, cx, kk)
        c, _, _ = classify(type_of(e))
        if op in ("-", "+", "~"):
            if c[0] != "word":
                raise Untranslatable("unary %s on %s" % (op, type_of(e)))
            def kk(v, st2):
                v = as_int(v)
                if op == "+":
                    return k(wrap(v, c[1]), st2)
                if op == "-":
                    if v.lit is not None:
                        return k(wrap(lit(-v.lit), c[1]), st2)
                    return k(wrap(T("(-%s)" % v.s, "int"), c[1]), st2)
                return k(wrap(T("(-%s - 1)" % v.s, "int"), c[1]), st2)
            return self.rvalue(sub, fr, st, cx, kk)
        if op == "!":
            return self.rvalue(sub, fr, st, cx, lambda v, st2: k(p_not(v), st2))
        if op in ("++", "--"):
            post = e.get("isPostfix")
            def kk(v, st2):
                if not isinstance(v, Loc) or not v.kind.startswith("word:"):
                    raise Untranslatable("++/-- on non-word")
                tag = v.kind[5:]
                old = st2[v.id]
                new = wrap(T("(%s %s 1)" % (old.s, "+" if op == "++" else "-"), "int"), tag)
                st3 = store_set(st2, v, new)
                return k(old if post else v, st3)
            return self.ev(sub, fr, st, cx, kk)
        raise Untranslatable("unary operator %s" % op)

    ARITH = {"+": "+", "-": "-", "*": "*"}
    CMP = {"<": "<", ">": ">", "<=": "≤", ">=": "≥", "==": "=", "!=": "≠"}

    def ev_BinaryOperator(self, e, fr, st, cx, k):
        op = e["opcode"]
        a, b = e["inner"]
        if op == "=":
            def ka(lv, st1):
                if not isinstance(lv, Loc) or not lv.kind.startswith("word:"):
                    raise Untranslatable("builtin assignment to non-word")
                def kb(v, st2):
                    return k(lv, store_set(st2, lv, wrap(v, lv.kind[5:])))
                return self.rvalue(b, fr, st1, cx, kb)
            return self.ev(a, fr, st, cx, ka)
        if op == ",":
            return self.ev(a, fr, st, cx, lambda _, st1: self.ev(b, fr, st1, cx, k))
        if op in ("&&", "||"):
            def ka(va, st1):
                pa = as_prop(va)
                if op == "&&":
                    return mk_ite(pa, lambda: self.rvalue(b, fr, st1, cx, lambda vb, st2: k(as_prop(vb), st2)),
                                  lambda: k(T("False", "prop"), st1))
                return mk_ite(pa, lambda: k(T("True", "prop"), st1),
                              lambda: self.rvalue(b, fr, st1, cx, lambda vb, st2: k(as_prop(vb), st2)))
            return self.rvalue(a, fr, st, cx, ka)
        c, _, _ = classify(type_of(e))
        ca, _, _ = classify(type_of(a))
        if ca[0] not in ("word",) and not (ca[0] == "ptr" and op in ("==", "!=")):
            raise Untranslatable("binary %s on %s" % (op, type_of(a)))
        def ka(va, st1):
            def kb(vb, st2):
                if ca[0] == "ptr":
                    if isinstance(va, Ptr) and isinstance(vb, Ptr):
                        same = va.loc.id == vb.loc.id
                        # distinct locations are distinct objects unless an alias map identifies them
                        res = T("True" if (same == (op == "==")) else "False", "prop")
                        return k(res, st2)
                    raise Untranslatable("pointer comparison")
                x, y = as_int(va), as_int(vb)
                if op in self.CMP:
                    if x.lit is not None and y.lit is not None:
                        v = {"<": x.lit < y.lit, ">": x.lit > y.lit, "<=": x.lit <= y.lit, ">=": x.lit >= y.lit,
                             "==": x.lit == y.lit, "!=": x.lit != y.lit}[op]
                        return k(T("True" if v else "False", "prop"), st2)
                    return k(T("(%s %s %s)" % (x.s, self.CMP[op], y.s), "prop"), st2)
                if c[0] != "word":
                    raise Untranslatable("binary %s result %s" % (op, type_of(e)))
                tag = c[1]
                if op in self.ARITH:
                    if x.lit is not None and y.lit is not None:
                        v = {"+": x.lit + y.lit, "-": x.lit - y.lit, "*": x.lit * y.lit}[op]
                        return k(wrap(lit(v), tag), st2)
                    return k(wrap(T("(%s %s %s)" % (x.s, op, y.s), "int"), tag), st2)
                if op == "/":
                    return k(wrap(T("(Int.tdiv %s %s)" % (x.s, y.s), "int"), tag), st2)
                if op == "%":
                    return k(wrap(T("(Int.tmod %s %s)" % (x.s, y.s), "int"), tag), st2)
                if op == "<<":
                    return k(wrap(T("(%s * 2 ^ (Int.toNat %s))" % (x.s, y.s), "int"), tag), st2)
                if op == ">>":
                    return k(wrap(T("(%s / 2 ^ (Int.toNat %s))" % (x.s, y.s), "int"), tag), st2)
                if op in ("&", "|", "^"):
                    f = {"&": "wland", "|": "wlor", "^": "wlxor"}[op]
                    return k(wrap(T("(%s %s %s)" % (f, x.s, y.s), "int"), tag), st2)
                raise Untranslatable("binary operator %s" % op)
            return self.rvalue(b, fr, st1, cx, kb)
        return self.rvalue(a, fr, st, cx, ka)

    def ev_CompoundAssignOperator(self, e, fr, st, cx, k):
        op = e["opcode"][:-1]
        a, b = e["inner"]
        ct = e.get("computeResultType", {}).get("desugaredQualType") or e.get("computeResultType", {}).get("qualType") or type_of(e)
        cc, _, _ = classify(ct)
        def ka(lv, st1):
            if not isinstance(lv, Loc) or not lv.kind.startswith("word:"):
                raise Untranslatable("compound assignment to non-word")
            def kb(vb, st2):
                x = as_int(st2[lv.id])
                y = as_int(vb)
                if cc[0] != "word":
                    raise Untranslatable("compound assign compute type %s" % ct)
                x = wrap(x, cc[1])
                if op in ("+", "-", "*"):
                    r = T("(%s %s %s)" % (x.s, op, y.s), "int")
                elif op == "/":
                    r = T("(Int.tdiv %s %s)" % (x.s, y.s), "int")
                elif op == "%":
                    r = T("(Int.tmod %s %s)" % (x.s, y.s), "int")
                else:
                    raise Untranslatable("compound operator %s=" % op)
                r = wrap(wrap(r, cc[1]), lv.kind[5:])
                return k(lv, store_set(st2, lv, r))
            return self.rvalue(b, fr, st1, cx, kb)
        return self.ev(a, fr, st, cx, ka)

    def ev_ConditionalOperator(self, e, fr, st, cx, k):
        c, a, b = e["inner"]
        def kc(vc, st1):
            return mk_ite(as_prop(vc), lambda: self.ev(a, fr, st1, cx, k), lambda: self.ev(b, fr, st1, cx, k))
        return self.rvalue(c, fr, st, cx, kc)

    # casts
    def _cast(self, e, fr, st, cx, k):
        ck = e.get("castKind")
        sub = e["inner"][-1]
        if ck == "LValueToRValue":
            def kk(v, st2):
                if isinstance(v, Loc):
                    if v.kind == "Z":
                        return k(v, st2)
                    if v.id not in st2:
                        raise Untranslatable("read of uninitialised %s" % v.name)
                    return k(st2[v.id], st2)
                return k(v, st2)
            return self.ev(sub, fr, st, cx, kk)
        if ck in ("NoOp", "BitCast", "FunctionToPointerDecay", "DerivedToBase", "UncheckedDerivedToBase", "ConstructorConversion",
                  "UserDefinedConversion", "ArrayToPointerDecay"):
            return self.ev(sub, fr, st, cx, k)
        if ck == "IntegralCast":
            c, _, _ = classify(type_of(e))
            if c[0] != "word":
                raise Untranslatable("integral cast to %s" % type_of(e))
            return self.rvalue(sub, fr, st, cx, lambda v, st2: k(wrap(v, c[1]), st2))
        if ck == "IntegralToBoolean":
            return self.rvalue(sub, fr, st, cx, lambda v, st2: k(as_prop(v), st2))
        if ck == "ToVoid":
            return self.ev(sub, fr, st, cx, k)
        raise Untranslatable("cast kind %s" % ck)

    ev_ImplicitCastExpr = _cast
    ev_CStyleCastExpr = _cast
    ev_CXXStaticCastExpr = _cast
    ev_CXXFunctionalCastExpr = _cast
    ev_CXXConstCastExpr = _cast

    # ---- calls
    def ev_args(self, args, fr, st, cx, k, acc=None):
        acc = acc or []
        if not args:
            return k(acc, st)
        if args[0].get("kind") == "CXXDefaultArgExpr":
            return self.ev_args(args[1:], fr, st, cx, k, acc + [("defaultarg",)])
        return self.ev(args[0], fr, st, cx, lambda v, st2: self.ev_args(args[1:], fr, st2, cx, k, acc + [v]))

    def ev_CallExpr(self, e, fr, st, cx, k):
        callee = e["inner"][0]
        args = e["inner"][1:]
        ref = self._callee_ref(callee)
        if ref is None:
            raise Untranslatable("indirect call")
        name = ref.get("name", "")
        if name.startswith("__gmpz_") or name in ("_mpz_cmp_ui", "_mpz_cmp_si"):
            return self._gmp_call(name, args, e, fr, st, cx, k)
        if name == "__builtin_constant_p":
            return k(T("False", "prop"), st)
        if name == "__builtin_expect":
            return self.ev(args[0], fr, st, cx, k)
        if name in ("abs", "labs", "llabs") and classify(type_of(e))[0][0] == "word":
            c, _, _ = classify(type_of(e))
            return self.rvalue(args[0], fr, st, cx, lambda v, st2: k(T("(abs%s %s)" % (c[1], as_int(v).s), "int", c[1]), st2))
        f = self.prog.def_of.get(ref["id"])
        if f is None:
            raise Untranslatable("call to %s (no body in this translation unit)" % name)
        return self.ev_args(args, fr, st, cx, lambda vs, st2: self.call(f, None, vs, args, fr, st2, cx, k))

    def _callee_ref(self, callee):
        n = callee
        while n.get("kind") in ("ImplicitCastExpr", "ParenExpr"):
            n = n["inner"][0]
        if n.get("kind") == "DeclRefExpr":
            return n["referencedDecl"]
        return None

    def ev_CXXMemberCallExpr(self, e, fr, st, cx, k):
        callee = e["inner"][0]
        args = e["inner"][1:]
        n = callee
        while n.get("kind") in ("ImplicitCastExpr", "ParenExpr"):
            n = n["inner"][0]
        if n.get("kind") != "MemberExpr":
            raise Untranslatable("member call through %s" % n.get("kind"))
        mid = n.get("referencedMemberDecl")
        f = self.prog.def_of.get(mid)
        if f is None:
            raise Untranslatable("call to member %s (no body)" % n.get("name"))
        obj = n["inner"][0]
        def ko(ov, st1):
            if isinstance(ov, Ptr):
                ov = ov.loc
            if not isinstance(ov, Loc):
                raise Untranslatable("member call on non-location")
            return self.ev_args(args, fr, st1, cx, lambda vs, st2: self.call(f, ov, vs, args, fr, st2, cx, k))
        return self.ev(obj, fr, st, cx, ko)

    def ev_CXXOperatorCallExpr(self, e, fr, st, cx, k):
        callee = e["inner"][0]
        args = e["inner"][1:]
        ref = self._callee_ref(callee)
        if ref is None:
            raise Untranslatable("operator call")
        f = self.prog.def_of.get(ref["id"])
        if f is None:
            raise Untranslatable("call to %s (no body)" % ref.get("name"))
        if ref.get("kind") == "CXXMethodDecl" and not f.static:
            def ko(ov, st1):
                if isinstance(ov, Ptr):
                    ov = ov.loc
                if not isinstance(ov, Loc):
                    raise Untranslatable("operator call on non-location")
                return self.ev_args(args[1:], fr, st1, cx, lambda vs, st2: self.call(f, ov, vs, args[1:], fr, st2, cx, k))
            return self.ev(args[0], fr, st, cx, ko)
        return self.ev_args(args, fr, st, cx, lambda vs, st2: self.call(f, None, vs, args, fr, st2, cx, k))

    def ev_CXXConstructExpr(self, e, fr, st, cx, k):
        c, _, _ = classify(type_of(e))
        if c[0] != "Z":
            raise Untranslatable("construction of %s" % type_of(e))
        args = e.get("inner", [])
        ctor = self._find_ctor(e)
        if ctor is None:
            raise Untranslatable("constructor %s not found" % e.get("ctorType", {}).get("qualType"))
        obj = cx.fresh("Z", "tmp")
        return self.ev_args(args, fr, st, cx, lambda vs, st2: self.call(ctor, obj, vs, args, fr, st2, cx, lambda _, st3: k(obj, st3)))

    def _find_ctor(self, e):
        want = e.get("ctorType", {}).get("qualType", "")
        best = None
        for f in self.prog.funcs:
            if f.kind == "CXXConstructorDecl" and f.cls == "Integer" and f.qual == want:
                d = self.prog.def_of.get(f.id)
                if d is not None:
                    return d
                best = best or (f if f.body is not None else None)
        return best

    def ev_CXXDefaultArgExpr(self, e, fr, st, cx, k):
        raise Untranslatable("default argument (resolved at call)")

    def ev_CXXThrowExpr(self, e, fr, st, cx, k):
        return Leaf(None, st, throw=True)

    # GMP primitives
    def _gmp_call(self, name, args, e, fr, st, cx, k):
        short = name[len("__gmpz_"):] if name.startswith("__gmpz_") else name
        if short not in MPZ:
            raise Untranslatable("GMP function %s has no contract" % name)
        dests, has_ret = MPZ[short]
        lname = "mpz_" + short.lstrip("_").replace("mpz_", "")
        def kk(vs, st2):
            srcs = []
            dlocs = []
            for i, v in enumerate(vs):
                if i in dests:
                    if isinstance(v, Ptr):
                        dlocs.append(v.loc)
                    elif isinstance(v, Loc) and v.kind.startswith("word"):
                        raise Untranslatable("word destination")
                    else:
                        raise Untranslatable("gmp destination is not a pointer to an Integer")
                    if short in INOUT:
                        if v.loc.id not in st2:
                            raise Untranslatable("gmp read of uninitialised object")
                        srcs.append(st2[v.loc.id].s)
                    continue
                if isinstance(v, Ptr):
                    if v.loc.id not in st2:
                        raise Untranslatable("gmp read of uninitialised object")
                    srcs.append(st2[v.loc.id].s)
                elif isinstance(v, Loc):
                    srcs.append(as_int(st2[v.id]).s)
                elif isinstance(v, T):
                    srcs.append(as_int(v).s)
                else:
                    raise Untranslatable("gmp argument")
            a = " ".join(srcs)
            st3 = st2
            if short in ("init", "clear"):
                if short == "init":
                    st3 = store_set(st3, dlocs[0], lit(0))
                return k(lit(0), st3)
            if short in IDENTITY:
                # contract: the destination receives the value of the (already converted) source
                return k(lit(0), store_set(st3, dlocs[0], T(srcs[0], "int")))
            single = len(dests) == 1 and not has_ret
            for j, dl in enumerate(dlocs):
                fn = lname if single else "%s_d%d" % (lname, j)
                st3 = store_set(st3, dl, T("(%s %s)" % (fn, a), "int"))
            if has_ret:
                fn = lname if not dests else lname + "_ret"
                c, _, _ = classify(type_of(e))
                rng = c[1] if c[0] == "word" else None
                return k(T("(%s %s)" % (fn, a), "int", rng), st3)
            return k(lit(0), st3)
        return self.ev_args(args, fr, st, cx, kk)

    # ---- inline call of a translated function
    def call(self, f, this_loc, argvals, argnodes, fr_caller, st, cx, k):
        if cx.stack.count(f.id) >= 2:
            # one level of self-call is executed (e.g. "if aliased, copy and call myself"); deeper recursion is outside the dialect
            raise Untranslatable("recursion through %s" % f.name)
        if f.body is None:
            raise Untranslatable("no body for %s" % f.name)
        if len(cx.stack) > 12:
            raise Untranslatable("inlining depth")
        fr = {}
        if this_loc is not None:
            fr["this"] = this_loc
        st2 = st
        params = f.params
        vals = list(argvals)
        # default arguments
        for i in range(len(vals), len(params)):
            d = self.prog.parm_default.get(params[i]["id"])
            if d is None:
                raise Untranslatable("missing argument %d of %s" % (i, f.name))
            vals.append(("default", d))
        def bind(i, st_i, fr_i):
            if i == len(params):
                return run(st_i, fr_i)
            p = params[i]
            v = vals[i]
            if isinstance(v, tuple) and v[0] == "default":
                return self.ev(v[1], {}, st_i, cx, lambda dv, st_j: bind_val(i, dv, st_j, fr_i))
            if isinstance(v, tuple) and v[0] == "defaultarg":
                d = self.prog.parm_default.get(p["id"])
                if d is None:
                    raise Untranslatable("default argument of %s not found" % f.name)
                return self.ev(d, {}, st_i, cx, lambda dv, st_j: bind_val(i, dv, st_j, fr_i))
            return bind_val(i, v, st_i, fr_i)
        def bind_val(i, v, st_i, fr_i):
            p = params[i]
            c, isref, isconst = classify(type_of(p))
            fr_j = dict(fr_i)
            if c[0] == "Z":
                if isinstance(v, Ptr):
                    v = v.loc
                if not isinstance(v, Loc):
                    raise Untranslatable("Integer argument is not an object")
                if isref:
                    fr_j[p["id"]] = v
                    return bind(i + 1, st_i, fr_j)
                # by value: the copy was already constructed by the caller's CXXConstructExpr
                fr_j[p["id"]] = v
                return bind(i + 1, st_i, fr_j)
            if c[0] == "word":
                if isref and not isconst:
                    if not isinstance(v, Loc):
                        raise Untranslatable("non-const word reference bound to rvalue")
                    fr_j[p["id"]] = v
                    return bind(i + 1, st_i, fr_j)
                if isinstance(v, Loc):
                    v = st_i[v.id]
                l = cx.fresh("word:" + c[1], p.get("name", "p"))
                fr_j[p["id"]] = l
                return bind(i + 1, store_set(st_i, l, wrap(v, c[1])), fr_j)
            if c[0] == "ptr":
                l = cx.fresh("ptr", p.get("name", "p"))
                fr_j[p["id"]] = v
                return bind(i + 1, st_i, fr_j)
            raise Untranslatable("parameter type %s of %s" % (type_of(p), f.name))
        def run(st_r, fr_r):
            caller_stack = list(cx.stack)
            callee_stack = caller_stack + [f.id]
            def leave(v, st_f):
                # the continuation belongs to the caller: run it with the caller's call stack
                cx.stack = caller_stack
                try:
                    return k(v, st_f)
                finally:
                    cx.stack = callee_stack
            cx.stack = callee_stack
            try:
                return self.ex_block([f.body], fr_r, st_r, cx, lambda st_f: leave(None, st_f), leave, f)
            finally:
                cx.stack = caller_stack
        return bind(0, st2, fr)

    # ---- statements (CPS): knext(store) -> tree ; kret(value, store) -> tree
    def ex_block(self, stmts, fr, st, cx, knext, kret, f):
        if not stmts:
            return knext(st)
        s = stmts[0]
        rest = stmts[1:]
        kind = s.get("kind")
        cont = lambda st2, fr2=fr: self.ex_block(rest, fr2, st2, cx, knext, kret, f)
        if kind == "CompoundStmt":
            # declarations inside are scoped, but ids are unique, so sharing the frame is harmless
            return self.ex_block(s.get("inner", []), fr, st, cx, cont, kret, f)
        if kind == "NullStmt":
            return cont(st)
        if kind == "ReturnStmt":
            inner = s.get("inner", [])
            if not inner:
                return kret(None, st)
            return self.ev(inner[0], fr, st, cx, lambda v, st2: kret(v, st2))
        if kind == "IfStmt":
            parts = s["inner"]
            cnd, thn = parts[0], parts[1]
            els = parts[2] if len(parts) > 2 else None
            if cnd.get("kind") == "DeclStmt":
                raise Untranslatable("if with declaration")
            def kc(vc, st1):
                return mk_ite(as_prop(vc),
                              lambda: self.ex_block([thn], fr, st1, cx, cont, kret, f),
                              lambda: (self.ex_block([els], fr, st1, cx, cont, kret, f) if els is not None else cont(st1)))
            return self.rvalue(cnd, fr, st, cx, kc)
        if kind == "DeclStmt":
            decls = s.get("inner", [])
            def do(i, st_i, fr_i):
                if i == len(decls):
                    return self.ex_block(rest, fr_i, st_i, cx, knext, kret, f)
                d = decls[i]
                if d.get("kind") != "VarDecl":
                    return do(i + 1, st_i, fr_i)
                if d.get("storageClass") == "static":
                    raise Untranslatable("function-local static %s" % d.get("name"))
                c, isref, isconst = classify(type_of(d))
                init = next((x for x in d.get("inner", []) if x.get("kind", "").endswith(("Expr", "Literal", "Operator", "Cleanups"))), None)
                fr_j = dict(fr_i)
                if c[0] == "Z":
                    if init is None:
                        raise Untranslatable("Integer declared without constructor")
                    def ki(v, st_j):
                        if isinstance(v, Ptr):
                            v = v.loc
                        if not isinstance(v, Loc):
                            raise Untranslatable("Integer init")
                        fr_j[d["id"]] = v
                        return do(i + 1, st_j, fr_j)
                    return self.ev(init, fr_i, st_i, cx, ki)
                if c[0] == "word":
                    if isref:
                        raise Untranslatable("local word reference")
                    l = cx.fresh("word:" + c[1], d.get("name", "v"))
                    fr_j[d["id"]] = l
                    if init is None:
                        return do(i + 1, st_i, fr_j)
                    return self.rvalue(init, fr_i, st_i, cx, lambda v, st_j: do(i + 1, store_set(st_j, l, wrap(v, c[1])), fr_j))
                raise Untranslatable("local of type %s" % type_of(d))
            return do(0, st, fr)
        if kind in ("WhileStmt", "ForStmt", "DoStmt"):
            raise Untranslatable("loop")
        if kind in ("CXXTryStmt", "SwitchStmt", "GotoStmt", "BreakStmt", "ContinueStmt"):
            raise Untranslatable(kind)
        # expression statement
        return self.ev(s, fr, st, cx, lambda _, st2: cont(st2))


# ------------------------------------------------------------------------------------------
# top level: translate one function to a Lean definition
# ------------------------------------------------------------------------------------------
OPNAMES = {
    "operator+": "op_add", "operator-": "op_sub", "operator*": "op_mul", "operator/": "op_div", "operator%": "op_mod",
    "operator+=": "op_addin", "operator-=": "op_subin", "operator*=": "op_mulin", "operator/=": "op_divin", "operator%=": "op_modin",
    "operator<": "op_lt", "operator>": "op_gt", "operator<=": "op_le", "operator>=": "op_ge", "operator==": "op_eq", "operator!=": "op_ne",
    "operator<<": "op_shl", "operator>>": "op_shr", "operator<<=": "op_shlin", "operator>>=": "op_shrin",
    "operator&": "op_and", "operator|": "op_or", "operator^": "op_xor", "operator~": "op_not", "operator!": "op_lnot",
    "operator&=": "op_andin", "operator|=": "op_orin", "operator^=": "op_xorin",
    "operator=": "op_assign", "operator++": "op_inc", "operator--": "op_dec", "operator[]": "op_index", "operator()": "op_call",
}

LEAN_KEYWORDS = {"at", "from", "to", "in", "do", "end", "if", "then", "else", "let", "have", "show", "fun", "with", "match",
                 "this", "def", "theorem", "open", "by", "where", "Type", "Prop", "Sort", "Inv", "ret", "toBool", "max", "min", "abs", "id", "Res", "rr_", "Int", "Nat", "Bool", "List", "Spec", "Gen", "Givaro", "e", "π", "λ", "fun", "mut", "for", "instance", "structure", "class", "namespace", "section", "variable", "universe", "import", "private", "protected", "partial", "unsafe", "macro", "syntax", "deriving", "extends", "local", "set_option", "attribute", "example", "axiom", "opaque", "inductive", "abbrev", "mutual", "noncomputable", "return", "try", "catch", "finally", "unless", "then", "using", "calc", "suffices", "obtain", "exact", "true", "false", "True", "False"}


def pcode(p):
    c, isref, isconst = classify(type_of(p))
    if c[0] == "Z":
        return "Z" if (isref and not isconst) else "Zc"
    if c[0] == "word":
        return c[1].lower() + ("r" if (isref and not isconst) else "")
    if c[0] == "float":
        return "f"
    return "x"


def func_key(f):
    nm = f.name
    if f.kind == "CXXConversionDecl":
        nm = "conv_" + re.sub(r"\W+", "_", strip_cv(f.rettype)).strip("_")
    elif f.kind == "CXXConstructorDecl":
        nm = "ctor"
    else:
        nm = OPNAMES.get(nm, re.sub(r"\W+", "_", nm))
    parts = []
    if f.cls:
        parts.append(re.sub(r"\W+", "_", f.cls).strip("_"))
    parts.append(nm)
    parts += [pcode(p) for p in f.params]
    if f.is_method and f.const:
        parts.append("const")
    return "_".join(parts)


def lean_name(n, used):
    n = re.sub(r"\W", "_", n or "p")
    if n in LEAN_KEYWORDS or not n or n[0].isdigit():
        n = n + "_"
    base = n
    i = 1
    while n in used:
        n = "%s%d" % (base, i)
        i += 1
    used.add(n)
    return n


class Translated:
    pass


def translate_function(prog, f, alias=None, sig_only=False):
    """returns Translated with .key .params [(leanname, code, ctype)] .tree .outs [(name, loc)] .rettype

    alias: optional list of groups (tuples of parameter positions, position 0 being `*this` for non-static
    Integer methods) whose members denote the SAME object: they share one location of the store (C15)."""
    ex = Exec(prog)
    cx = Ctx(prog)
    fr = {}
    st = {}
    used = set()
    params = []   # (leanname, code, ctype)
    outs = []     # (label, Loc)
    group_of = {}
    for g in (alias or []):
        for i in g:
            group_of[i] = tuple(g)
    shared = {}   # group -> (Loc, leanname)
    isrefs = []   # per position: can this parameter alias another object (reference / this)?

    def z_loc(pos, wanted_name):
        g = group_of.get(pos)
        if g is not None and g in shared:
            return shared[g] + (False,)
        nm = lean_name(wanted_name, used)
        l = cx.fresh("Z", nm)
        st[l.id] = T(nm, "int")
        if g is not None:
            shared[g] = (l, nm)
        return l, nm, True
    if f.is_method and not f.static and f.kind != "CXXConstructorDecl" and f.cls != "Integer":
        # `this` is a domain object (e.g. ZRing<Integer>), not an Integer: present but never read as a number
        fr["this"] = cx.fresh("obj", "ring")
    elif f.is_method and not f.static and f.kind != "CXXConstructorDecl":
        l, nm, fresh_ = z_loc(0, "self")
        fr["this"] = l
        params.append((nm, "Zc" if f.const else "Z", "Integer"))
        isrefs.append(True)
        if not f.const:
            outs.append(("this", l))
    if f.kind == "CXXConstructorDecl":
        l = cx.fresh("Z", "self")
        fr["this"] = l
        outs.append(("this", l))
    for i, p in enumerate(f.params):
        c, isref, isconst = classify(type_of(p))
        code = pcode(p)
        if c[0] == "Z":
            l, nm, fresh_ = z_loc(len(params), p.get("name") or ("a%d" % i))
            fr[p["id"]] = l
            params.append((nm, code, "Integer"))
            isrefs.append(bool(isref))
            if isref and not isconst:
                if any(o[1].id == l.id for o in outs):
                    raise Untranslatable("alias pattern identifies two outputs")
                outs.append((nm, l))
        elif c[0] == "word":
            nm = lean_name(p.get("name") or ("a%d" % i), used)
            isrefs.append(False)
            l = cx.fresh("word:" + c[1], nm)
            fr[p["id"]] = l
            st[l.id] = T(nm, "int", c[1])
            params.append((nm, code, c[1]))
            if isref and not isconst:
                outs.append((nm, l))
        else:
            raise Untranslatable("parameter type %s" % type_of(p))
    rc, rref, rconst = classify(f.rettype) if f.kind != "CXXConstructorDecl" else (("void",), False, False)
    if rc[0] not in ("Z", "word", "void"):
        raise Untranslatable("return type %s" % f.rettype)

    def finish(v, st_f):
        if rc[0] == "void":
            r = lit(0)
        else:
            if v is None:
                raise Untranslatable("falls off the end of a non-void function")
            if isinstance(v, Ptr):
                raise Untranslatable("returns pointer")
            if isinstance(v, Loc):
                if v.id not in st_f:
                    raise Untranslatable("returns uninitialised object")
                r = as_int(st_f[v.id])
            else:
                r = as_int(v)
            if rc[0] == "word":
                r = wrap(r, rc[1])
        return Leaf(r, st_f)

    # sig_only: the body is outside the dialect -- keep the signature so that specification and harness stub still exist
    tree = None if sig_only else ex.ex_block([f.body], fr, st, cx, lambda st_f: finish(None, st_f), finish, f)
    t = Translated()
    t.f = f
    t.key = func_key(f)
    t.params = params
    t.tree = tree
    t.outs = outs
    t.ret = rc
    t.isrefs = isrefs
    t.alias = [tuple(g) for g in (alias or [])]
    if alias:
        t.key += "__al_" + "_".join("".join(str(i) for i in g) for g in t.alias)
    # parameters with merged (aliased) positions removed: binder / argument order of the Lean definition
    seen_n, up = set(), []
    for pos, (n, c_, ct) in enumerate(params):
        if n in seen_n:
            continue
        seen_n.add(n)
        if pos in group_of and any(params[j][1] == "Z" for j in group_of[pos]):
            c_ = "Z"
        up.append((n, c_, ct))
    t.uparams = up
    return t


def tree_to_lean(tree, outs, ind=2):
    pad = " " * ind
    if isinstance(tree, Ite):
        return "%sif %s then\n%s\n%selse\n%s" % (pad, tree.c.s, tree_to_lean(tree.a, outs, ind + 2), pad, tree_to_lean(tree.b, outs, ind + 2))
    if tree.throw:
        return pad + "Res.thrown"
    vals = []
    for label, loc in outs:
        if loc.id not in tree.store:
            raise Untranslatable("output %s never initialised on some path" % label)
        vals.append(as_int(tree.store[loc.id]).s)
    return "%s⟨%s, [%s], false⟩" % (pad, tree.ret.s, ", ".join(vals))


def tree_stats(tree):
    if tree is None:
        return (0, 0)
    if isinstance(tree, Ite):
        a, b = tree_stats(tree.a), tree_stats(tree.b)
        return (a[0] + b[0], a[1] + b[1])
    return (1, 1 if tree.throw else 0)


def emit_def(t):
    args = " ".join(n for n, _, _ in t.uparams)
    hdr = "def %s %s: Res :=\n" % (t.key, ("(%s : Int) " % args) if args else "")
    return hdr + tree_to_lean(t.tree, t.outs)


# ------------------------------------------------------------------------------------------
# driver: dump AST, parse
# ------------------------------------------------------------------------------------------
def parse_docs(text):
    dec = json.JSONDecoder()
    i, n = 0, len(text)
    docs = []
    while i < n:
        while i < n and text[i].isspace():
            i += 1
        if i >= n:
            break
        d, j = dec.raw_decode(text, i)
        docs.append(d)
        i = j
    return docs


def dump_ast(unity_src, inc_flags, workdir, extra=()):
    os.makedirs(workdir, exist_ok=True)
    src = os.path.join(workdir, "unity.C")
    with open(src, "w") as fh:
        fh.write(unity_src)
    cmd = ["clang++-14", "-std=gnu++17", "-fsyntax-only", "-DNDEBUG", "-UDEBUG", "-w"] + list(inc_flags) + list(extra) + \
          ["-Xclang", "-ast-dump=json", "-Xclang", "-ast-dump-filter=Givaro", src]
    p = subprocess.run(cmd, stdout=subprocess.PIPE, stderr=subprocess.PIPE, text=True)
    if p.returncode != 0:
        raise RuntimeError("clang failed on the translation unit:\n" + p.stderr[-4000:])
    return parse_docs(p.stdout)
