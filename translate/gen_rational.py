#!/usr/bin/env python3
"""C10, tie T: regenerate from /repo's working tree the Lean definitions of the `Rational` function bodies
(givrataddsub.C, givratmuldiv.C, givratcompare.C, givratmisc.C, givratcstor.C, givratcpy.C, givrational.inl and the
friends defined in givrational.h) and one theorem per body `generated body = hand model of Model/Rational.lean`.

  lean/GivaroModel/Generated/RationalOps.lean    one def per C++ function body (symbolic execution of the clang AST)
  lean/GivaroModel/Generated/RationalThms.lean   per body: `Gen.<key> flags … = encoding of Model.Rational.<fn> …` + proof script
  .cache/gen/rational_meta.json                  what was translated / linked / outside the dialect (with the reason)

The executor is translate/gmpxx.py used as a library.  What the gmp++ dialect lacks is added HERE (gmpxx.py is not edited):
  * a `Rational` object is a pair of `Integer` locations (`QLoc.num`, `QLoc.den`); `r.num` / `this->den` select them;
  * `Rational::flags` is one more word location whose initial value is the parameter `flags` (a body that stores to it is
    outside the dialect); `Rational::Reduce`, `Rational::NoReduce`, `Neutral::zero|one` are their enumerator values read from the AST;
  * constructors of `Rational` run their member initialisers (written and implicit ones, delegating ones) before the body;
  * `Rational` temporaries, locals, by-reference parameters, returned objects.
"""
import json
import os
import re
import sys

HERE = os.path.dirname(os.path.abspath(__file__))
sys.path.insert(0, os.path.dirname(HERE))
from translate import gmpxx                      # noqa: E402
from translate.gmpxx import Untranslatable, Loc, Ptr, T, Leaf, Ite, lit, wrap, as_int, as_prop, store_set, type_of  # noqa: E402
from translate import gen_integer               # noqa: E402
from vlib import common                          # noqa: E402

UNITY = gen_integer.UNITY + """#include "givaro/givrational.h"
#include "{r}/src/kernel/rational/givrataddsub.C"
#include "{r}/src/kernel/rational/givratmuldiv.C"
#include "{r}/src/kernel/rational/givratcompare.C"
#include "{r}/src/kernel/rational/givratmisc.C"
#include "{r}/src/kernel/rational/givratcstor.C"
#include "{r}/src/kernel/rational/givratcpy.C"
"""

FILES_OF_INTEREST = ("givrataddsub.C", "givratmuldiv.C", "givratcompare.C", "givratmisc.C", "givratcstor.C", "givratcpy.C",
                     "givrational.inl", "givrational.h")

# ------------------------------------------------------------------------------------------
# dialect extension
# ------------------------------------------------------------------------------------------
_classify0 = gmpxx.classify
ENUM_WORD = {"Givaro::Rational::ReduceFlag": "U32", "Rational::ReduceFlag": "U32", "ReduceFlag": "U32",
             "Givaro::Neutral": "S32", "Neutral": "S32", "enum Givaro::Rational::ReduceFlag": "U32"}


def classify(qt):
    c, isref, isconst = _classify0(qt)
    if c[0] == "other":
        if c[1] in ("Givaro::Rational", "Rational", "Givaro::Rational::Self_t"):
            return ("Q",), isref, isconst
        if c[1] in ENUM_WORD:
            return ("word", ENUM_WORD[c[1]]), isref, isconst
    return c, isref, isconst


gmpxx.classify = classify     # the executor looks `classify` up in its module at call time


class QLoc(Loc):
    """a Rational object: two Integer locations"""
    __slots__ = ("num", "den")


def fresh_q(cx, name):
    q = QLoc(0, "Q", name)
    cx.n += 1
    q.id = cx.n
    q.num = cx.fresh("Z", name + ".num")
    q.den = cx.fresh("Z", name + ".den")
    return q


def enum_values(docs):
    """EnumConstantDecl id -> value (explicit initialisers, else previous + 1)"""
    vals = {}

    def find_value(n):
        if "value" in n and n.get("kind") in ("ConstantExpr", "IntegerLiteral"):
            return int(n["value"])
        for c in n.get("inner", []):
            v = find_value(c)
            if v is not None:
                return v
        return None

    def walk(n):
        if n.get("kind") == "EnumDecl":
            nxt = 0
            for c in n.get("inner", []):
                if c.get("kind") == "EnumConstantDecl":
                    v = find_value(c)
                    if v is None:
                        v = nxt
                    vals[c["id"]] = v
                    nxt = v + 1
            return
        for c in n.get("inner", []):
            walk(c)
    for d in docs:
        walk(d)
    return vals


class RetLeaf:
    """a path that comes back to the caller's continuation with value v and store st"""
    __slots__ = ("v", "st", "owner")

    def __init__(self, v, st, owner):
        self.v, self.st, self.owner = v, st, owner


def _p_and(a, b):
    if a == "True":
        return b
    if b == "True":
        return a
    if a == "False" or b == "False":
        return "False"
    return "(%s ∧ %s)" % (a, b)


def _p_or(a, b):
    if a == "False":
        return b
    if b == "False":
        return a
    if a == "True" or b == "True":
        return "True"
    return "(%s ∨ %s)" % (a, b)


def _p_not(a):
    return {"True": "False", "False": "True"}.get(a, "(¬ %s)" % a)


def _p_ite(c, a, b):
    """Prop  (c ∧ a) ∨ (¬c ∧ b), simplified"""
    if a == b:
        return a
    return _p_or(_p_and(c, a), _p_and(_p_not(c), b))


def join(tree, k, owner):
    """only the paths captured by `owner` are merged; a RetLeaf of an enclosing capture (a `return` inside an `if`) is a terminal leaf here"""
    rets = []
    mine = lambda t: isinstance(t, RetLeaf) and t.owner is owner

    def walk(t):
        if isinstance(t, Ite):
            walk(t.a)
            walk(t.b)
        elif mine(t):
            rets.append(t)
    walk(tree)

    def subst(t):
        if isinstance(t, Ite):
            return Ite(t.c, subst(t.a), subst(t.b))
        if mine(t):
            return k(t.v, t.st)
        return t
    if len(rets) <= 1:
        return subst(tree)
    # mergeable?  all values T of one sort, or one and the same object / None
    v0 = rets[0].v
    if isinstance(v0, T):
        if not all(isinstance(r.v, T) for r in rets):
            return subst(tree)
        sort = "prop" if all(r.v.sort == "prop" for r in rets) else "int"
    else:
        def same(a, b):
            if a is None or b is None:
                return a is b
            if isinstance(a, Ptr) and isinstance(b, Ptr):
                return a.loc.id == b.loc.id
            if isinstance(a, Loc) and isinstance(b, Loc):
                return a.id == b.id
            return a is b
        if not all(same(v0, r.v) for r in rets):
            return subst(tree)
        sort = None
    ids = set()
    for r in rets:
        ids |= set(r.st)
    diff = [i for i in ids if any((i not in r.st) or (r.st[i] is not rets[0].st.get(i) and
                                                      (rets[0].st.get(i) is None or r.st[i].s != rets[0].st[i].s or r.st[i].sort != rets[0].st[i].sort))
                                  for r in rets)]

    def reach(t):
        if isinstance(t, Ite):
            return _p_ite(t.c.s, reach(t.a), reach(t.b))
        return "True" if mine(t) else "False"

    def has_ret(t):
        if isinstance(t, Ite):
            return has_ret(t.a) or has_ret(t.b)
        return mine(t)

    def val(t, get):
        """merged term over the RetLeaf paths of t (None: no such path / uninitialised there)"""
        if isinstance(t, Ite):
            a, b = val(t.a, get), val(t.b, get)
            if a is None:
                return b
            if b is None:
                return a
            if a is b or (a.s == b.s and a.sort == b.sort):
                return a
            if a.sort == "prop" and b.sort == "prop":
                return T(_p_ite(t.c.s, a.s, b.s), "prop")
            a, b = as_int(a), as_int(b)
            return T("(if %s then %s else %s)" % (t.c.s, a.s, b.s), "int", a.rng if a.rng == b.rng else None)
        if mine(t):
            return get(t)
        return None
    st = dict(rets[0].st)
    for i in diff:
        m = val(tree, lambda r, i=i: r.st.get(i))
        if m is None or any(i not in r.st for r in rets):
            st.pop(i, None)        # uninitialised on some path: reading it later is reported by the executor
        else:
            st[i] = m
    v = val(tree, lambda r: r.v) if sort is not None else v0
    if sort == "prop" and v.sort != "prop":
        v = as_prop(v)
    cont = k(v, st)
    rc = reach(tree)
    if rc == "True":
        return cont

    def prune(t):
        if isinstance(t, Ite):
            ha, hb = has_ret(t.a), has_ret(t.b)
            if mine(t.a):
                return prune(t.b)
            if mine(t.b):
                return prune(t.a)
            return Ite(t.c, prune(t.a), prune(t.b))
        return t
    return Ite(T(rc, "prop"), cont, prune(tree))


class QExec(gmpxx.Exec):
    def __init__(self, prog, enums):
        super().__init__(prog)
        self.enums = enums

    def ev_DeclRefExpr(self, e, fr, st, cx, k):
        r = e["referencedDecl"]
        rk = r.get("kind")
        if rk == "EnumConstantDecl":
            if r["id"] in self.enums:
                return k(lit(self.enums[r["id"]]), st)
            raise Untranslatable("enum constant %s" % r.get("name"))
        if rk == "VarDecl" and r["id"] not in fr and r.get("name") == "flags" and "ReduceFlag" in r.get("type", {}).get("qualType", ""):
            return k(cx.flags, st)
        return super().ev_DeclRefExpr(e, fr, st, cx, k)

    def ev_MemberExpr(self, e, fr, st, cx, k):
        name = e.get("name")
        if name in ("num", "den") and classify(type_of(e))[0][0] == "Z":
            def kk(v, st2):
                if isinstance(v, Ptr):
                    v = v.loc
                if isinstance(v, QLoc):
                    return k(getattr(v, name), st2)
                raise Untranslatable("member %s of a non-Rational" % name)
            return self.ev(e["inner"][0], fr, st, cx, kk)
        return super().ev_MemberExpr(e, fr, st, cx, k)

    def _find_qctor(self, e):
        want = e.get("ctorType", {}).get("qualType", "")
        for f in self.prog.funcs:
            if f.kind == "CXXConstructorDecl" and f.cls == "Rational" and f.qual == want:
                d = self.prog.def_of.get(f.id)
                if d is not None:
                    return d
                if f.body is not None:
                    return f
        return None

    def ev_CXXConstructExpr(self, e, fr, st, cx, k):
        c, _, _ = classify(type_of(e))
        if c[0] != "Q":
            return super().ev_CXXConstructExpr(e, fr, st, cx, k)
        args = e.get("inner", [])
        ctor = self._find_qctor(e)
        if ctor is None:
            raise Untranslatable("constructor %s has no body in the translation unit" % e.get("ctorType", {}).get("qualType"))
        obj = fresh_q(cx, "qtmp")
        return self.ev_args(args, fr, st, cx, lambda vs, st2: self.call(ctor, obj, vs, args, fr, st2, cx, lambda _, st3: k(obj, st3)))

    ev_CXXTemporaryObjectExpr = ev_CXXConstructExpr

    # ---- joins: the CPS executor of gmpxx.py duplicates the continuation at every branch; here the paths that
    #      come back from a call / a short-circuit operator / an `if` statement are merged into ONE continuation whose
    #      store holds `if c then a else b` terms (so the size of a translated body stays linear in the size of the source)
    def joined(self, run, k):
        owner = object()
        return join(run(lambda v, st2: RetLeaf(v, st2, owner)), k, owner)

    def call(self, f, this_loc, argvals, argnodes, fr_caller, st, cx, k):
        rc, rref, _ = classify(f.rettype) if f.kind != "CXXConstructorDecl" else (("void",), False, False)
        if rc[0] in ("Z", "Q") and not rref:
            # returned BY VALUE: every return path fills one and the same result object (so that the paths can be merged)
            res = fresh_q(cx, "qres") if rc[0] == "Q" else cx.fresh("Z", "zres")

            def kv(v, st2, k2):
                if isinstance(v, Ptr):
                    v = v.loc
                if rc[0] == "Q" and isinstance(v, QLoc) and v.num.id in st2 and v.den.id in st2:
                    return k2(res, store_set(store_set(st2, res.num, st2[v.num.id]), res.den, st2[v.den.id]))
                if rc[0] == "Z" and isinstance(v, Loc) and not isinstance(v, QLoc) and v.id in st2:
                    return k2(res, store_set(st2, res, st2[v.id]))
                return k2(v, st2)
            return self.joined(lambda k2: self._call_raw(f, this_loc, argvals, argnodes, fr_caller, st, cx,
                                                         lambda v, st2: kv(v, st2, k2)), k)
        return self.joined(lambda k2: self._call_raw(f, this_loc, argvals, argnodes, fr_caller, st, cx, k2), k)

    def ev_BinaryOperator(self, e, fr, st, cx, k):
        if e.get("opcode") in ("&&", "||"):
            return self.joined(lambda k2: gmpxx.Exec.ev_BinaryOperator(self, e, fr, st, cx, k2), k)
        return super().ev_BinaryOperator(e, fr, st, cx, k)

    def ev_ConditionalOperator(self, e, fr, st, cx, k):
        return self.joined(lambda k2: gmpxx.Exec.ev_ConditionalOperator(self, e, fr, st, cx, k2), k)

    # ---- inline call: gmpxx.Exec.call extended with Rational parameters and constructor initialisers
    def _call_raw(self, f, this_loc, argvals, argnodes, fr_caller, st, cx, k):
        needs_q = (f.cls == "Rational" and f.kind == "CXXConstructorDecl") or \
            any(classify(type_of(p))[0][0] == "Q" for p in f.params)
        if not needs_q:
            return super().call(f, this_loc, argvals, argnodes, fr_caller, st, cx, k)
        if cx.stack.count(f.id) >= 2:
            raise Untranslatable("recursion through %s" % f.name)
        if f.body is None:
            raise Untranslatable("no body for %s" % f.name)
        if len(cx.stack) > 12:
            raise Untranslatable("inlining depth")
        fr = {}
        if this_loc is not None:
            fr["this"] = this_loc
        params = f.params
        vals = list(argvals)
        for i in range(len(vals), len(params)):
            d = self.prog.parm_default.get(params[i]["id"])
            if d is None:
                raise Untranslatable("missing argument %d of %s" % (i, f.name))
            vals.append(("default", d))

        def bind(i, st_i, fr_i):
            if i == len(params):
                return inits(0, st_i, fr_i)
            v = vals[i]
            if isinstance(v, tuple) and v[0] in ("default", "defaultarg"):
                d = v[1] if v[0] == "default" else self.prog.parm_default.get(params[i]["id"])
                if d is None:
                    raise Untranslatable("default argument of %s not found" % f.name)
                return self.ev(d, {}, st_i, cx, lambda dv, st_j: bind_val(i, dv, st_j, fr_i))
            return bind_val(i, v, st_i, fr_i)

        def bind_val(i, v, st_i, fr_i):
            p = params[i]
            c, isref, isconst = classify(type_of(p))
            fr_j = dict(fr_i)
            if c[0] == "Q":
                if isinstance(v, Ptr):
                    v = v.loc
                if not isinstance(v, QLoc):
                    raise Untranslatable("Rational argument is not an object")
                fr_j[p["id"]] = v
                return bind(i + 1, st_i, fr_j)
            if c[0] == "Z":
                if isinstance(v, Ptr):
                    v = v.loc
                if not isinstance(v, Loc):
                    raise Untranslatable("Integer argument is not an object")
                fr_j[p["id"]] = v
                return bind(i + 1, st_i, fr_j)
            if c[0] == "word":
                if isref and not isconst:
                    if not isinstance(v, Loc):
                        raise Untranslatable("non-const word reference bound to rvalue")
                    fr_j[p["id"]] = v
                    return bind(i + 1, st_i, fr_j)
                if isinstance(v, Loc):
                    v = st_i[v.id]
                l = cx.fresh("word:" + c[1], p.get("name", "p"))
                fr_j[p["id"]] = l
                return bind(i + 1, store_set(st_i, l, wrap(v, c[1])), fr_j)
            raise Untranslatable("parameter type %s of %s" % (type_of(p), f.name))

        def inits(j, st_j, fr_j):
            if f.kind != "CXXConstructorDecl" or j == len(f.inits):
                return run(st_j, fr_j)
            ini = f.inits[j]
            expr = ini["inner"][0]
            if "delegatingInit" in ini:
                while expr.get("kind") in gmpxx.PASS_THROUGH:
                    expr = expr["inner"][0]
                if expr.get("kind") not in ("CXXConstructExpr", "CXXTemporaryObjectExpr"):
                    raise Untranslatable("delegating initialiser %s" % expr.get("kind"))
                ctor = self._find_qctor(expr)
                if ctor is None:
                    raise Untranslatable("delegated constructor has no body")
                a = expr.get("inner", [])
                return self.ev_args(a, fr_j, st_j, cx, lambda vs, st2: self.call(ctor, this_loc, vs, a, fr_j, st2, cx,
                                                                               lambda _, st3: inits(j + 1, st3, fr_j)))
            mem = ini.get("anyInit", {}).get("name")
            if mem not in ("num", "den"):
                raise Untranslatable("initialiser of member %s" % mem)

            def km(v, st2):
                if isinstance(v, Ptr):
                    v = v.loc
                if not isinstance(v, Loc) or v.id not in st2:
                    raise Untranslatable("member initialiser value")
                return inits(j + 1, store_set(st2, getattr(this_loc, mem), st2[v.id]), fr_j)
            return self.ev(expr, fr_j, st_j, cx, km)

        def run(st_r, fr_r):
            caller_stack = list(cx.stack)
            callee_stack = caller_stack + [f.id]

            def leave(v, st_f):
                cx.stack = caller_stack
                try:
                    return k(v, st_f)
                finally:
                    cx.stack = callee_stack
            cx.stack = callee_stack
            try:
                return self.ex_block([f.body], fr_r, st_r, cx, lambda st_f: leave(None, st_f), leave, f)
            finally:
                cx.stack = caller_stack
        return bind(0, st, fr)

    def ex_block(self, stmts, fr, st, cx, knext, kret, f):
        if stmts and stmts[0].get("kind") == "IfStmt":
            rest = stmts[1:]
            return self.joined(lambda k2: gmpxx.Exec.ex_block(self, [stmts[0]], fr, st, cx, lambda st2: k2(None, st2), kret, f),
                               lambda _, st2: self.ex_block(rest, fr, st2, cx, knext, kret, f))
        if stmts and stmts[0].get("kind") == "DeclStmt":
            decls = [d for d in stmts[0].get("inner", []) if d.get("kind") == "VarDecl"]
            if decls and any(classify(type_of(d))[0][0] == "Q" for d in decls):
                if len(decls) != 1:
                    raise Untranslatable("several declarators with a Rational")
                d = decls[0]
                c, isref, isconst = classify(type_of(d))
                if d.get("storageClass") == "static":
                    raise Untranslatable("function-local static %s" % d.get("name"))
                init = next((x for x in d.get("inner", []) if x.get("kind", "").endswith(("Expr", "Literal", "Operator", "Cleanups"))), None)
                if init is None:
                    raise Untranslatable("Rational declared without constructor")

                def ki(v, st_j):
                    if isinstance(v, Ptr):
                        v = v.loc
                    if not isinstance(v, QLoc):
                        raise Untranslatable("Rational init")
                    fr_j = dict(fr)
                    fr_j[d["id"]] = v
                    return self.ex_block(stmts[1:], fr_j, st_j, cx, knext, kret, f)
                return self.ev(init, fr, st, cx, ki)
        return super().ex_block(stmts, fr, st, cx, knext, kret, f)


# ------------------------------------------------------------------------------------------
# top level: one Rational-dialect function -> Lean definition
# ------------------------------------------------------------------------------------------
class TranslatedQ:
    pass


def qkey(f):
    nm = f.name
    if f.kind == "CXXConversionDecl":
        nm = "conv_" + re.sub(r"\W+", "_", gmpxx.strip_cv(f.rettype)).strip("_")
    elif f.kind == "CXXConstructorDecl":
        nm = "ctor"
    else:
        nm = gmpxx.OPNAMES.get(nm, re.sub(r"\W+", "_", nm))
    parts = ["Q"]
    if f.cls:
        parts.append("m")
    parts.append(nm)
    for p in f.params:
        c, isref, isconst = classify(type_of(p))
        if c[0] == "Q":
            parts.append("Q" if (isref and not isconst) else "Qc")
        else:
            parts.append(gmpxx.pcode(p))
    if f.is_method and f.const:
        parts.append("const")
    return "_".join(parts)


def translate_q(prog, enums, f):
    ex = QExec(prog, enums)
    cx = gmpxx.Ctx(prog)
    fr, st, used = {}, {}, set()
    params = []     # (leanname, ctype)  ctype: 'Integer' | word tag | 'flags'
    outs = []       # (label, Loc of kind Z/word)
    cx.flags = cx.fresh("word:U32", "flags")
    nm = gmpxx.lean_name("flags", used)
    st[cx.flags.id] = T(nm, "int", "U32")
    flags0 = st[cx.flags.id]
    params.append((nm, "flags"))

    def q_param(name, is_out):
        q = fresh_q(cx, name)
        for part in ("num", "den"):
            n = gmpxx.lean_name("%s_%s" % (name, part), used)
            st[getattr(q, part).id] = T(n, "int")
            params.append((n, "Integer"))
            if is_out:
                outs.append((n, getattr(q, part)))
        return q

    if f.is_method and not f.static and f.kind != "CXXConstructorDecl":
        if f.cls != "Rational":
            raise Untranslatable("method of %s" % f.cls)
        fr["this"] = q_param("self", not f.const)
    if f.kind == "CXXConstructorDecl":
        q = fresh_q(cx, "self")
        fr["this"] = q
        outs.append(("self_num", q.num))
        outs.append(("self_den", q.den))
    for i, p in enumerate(f.params):
        c, isref, isconst = classify(type_of(p))
        pname = p.get("name") or ("a%d" % i)
        if c[0] == "Q":
            fr[p["id"]] = q_param(pname, isref and not isconst)
        elif c[0] == "Z":
            n = gmpxx.lean_name(pname, used)
            l = cx.fresh("Z", n)
            st[l.id] = T(n, "int")
            fr[p["id"]] = l
            params.append((n, "Integer"))
            if isref and not isconst:
                outs.append((n, l))
        elif c[0] == "word":
            n = gmpxx.lean_name(pname, used)
            l = cx.fresh("word:" + c[1], n)
            st[l.id] = T(n, "int", c[1])
            fr[p["id"]] = l
            params.append((n, c[1]))
            if isref and not isconst:
                outs.append((n, l))
        else:
            raise Untranslatable("parameter type %s" % type_of(p))
    rc, rref, rconst = classify(f.rettype) if f.kind != "CXXConstructorDecl" else (("void",), False, False)
    if rc[0] not in ("Q", "Z", "word", "void"):
        raise Untranslatable("return type %s" % f.rettype)

    def finish(v, st_f):
        if st_f[cx.flags.id] is not flags0:
            raise Untranslatable("stores to Rational::flags")
        extra = []
        if rc[0] == "void":
            r = lit(0)
        else:
            if v is None:
                raise Untranslatable("falls off the end of a non-void function")
            if isinstance(v, Ptr):
                raise Untranslatable("returns pointer")
            if rc[0] == "Q":
                if not isinstance(v, QLoc) or v.num.id not in st_f or v.den.id not in st_f:
                    raise Untranslatable("returns a Rational that is not an initialised object")
                r = lit(0)
                extra = [as_int(st_f[v.num.id]), as_int(st_f[v.den.id])]
            elif isinstance(v, Loc):
                if v.id not in st_f:
                    raise Untranslatable("returns uninitialised object")
                r = as_int(st_f[v.id])
            else:
                r = as_int(v)
            if rc[0] == "word":
                r = wrap(r, rc[1])
        leaf = Leaf(r, st_f)
        leaf.asserts = extra
        return leaf

    if f.kind == "CXXConstructorDecl":
        # through `call`, so that the member initialisers run before the body
        tree = ex.call(f, fr["this"], [fr[p["id"]] for p in f.params], [], {}, st, cx, lambda v, st_f: finish(None, st_f))
    else:
        tree = ex.ex_block([f.body], fr, st, cx, lambda st_f: finish(None, st_f), finish, f)
    t = TranslatedQ()
    t.f, t.key, t.params, t.outs, t.tree, t.ret = f, qkey(f), params, outs, tree, rc
    return t


def tree_to_lean(tree, outs, ind=2):
    pad = " " * ind
    if isinstance(tree, Ite):
        a, b = tree_to_lean(tree.a, outs, ind + 2), tree_to_lean(tree.b, outs, ind + 2)
        if a == b:          # both branches are the same text
            return tree_to_lean(tree.a, outs, ind)
        return "%sif %s then\n%s\n%selse\n%s" % (pad, tree.c.s, a, pad, b)
    if tree.throw:
        return pad + "Res.thrown"
    vals = [x.s for x in tree.asserts]
    for label, loc in outs:
        if loc.id not in tree.store:
            raise Untranslatable("output %s never initialised on some path" % label)
        vals.append(as_int(tree.store[loc.id]).s)
    return "%s⟨%s, [%s], false⟩" % (pad, tree.ret.s, ", ".join(vals))


def emit_def(t):
    args = " ".join(n for n, _ in t.params)
    return "def %s (%s : Int) : Res :=\n" % (t.key, args) + tree_to_lean(t.tree, t.outs)


# ------------------------------------------------------------------------------------------
# link table: generated body  <->  hand model (Model/Rational.lean), by C++ signature
#   value: Lean expression over the generated definition's parameter names (see `emit_def`), of type Res,
#   written with the encoders of Lemmas/RationalGenTactics.lean:
#     encQ  (o : Option QRep)          : Res   -- returned Rational (by value), const method / friend
#     encQQ (o : Option QRep)          : Res   -- returned reference to *this + the object itself
#     encZ / encW (x : Int)            : Res
# ------------------------------------------------------------------------------------------
RED = "(decide (flags ≠ 0))"
A, R = "⟨self_num, self_den⟩", "⟨r_num, r_den⟩"
LINK = {
    ("operator+", "Givaro::Rational (const Givaro::Rational &) const"): "encQ (Model.Rational.add %s %s %s)" % (RED, A, R),
    ("operator-", "Givaro::Rational (const Givaro::Rational &) const"): "encQ (Model.Rational.sub %s %s %s)" % (RED, A, R),
    ("operator+=", "Givaro::Rational &(const Givaro::Rational &)"): "encQQ (Model.Rational.addin %s %s %s)" % (RED, A, R),
    ("operator-=", "Givaro::Rational &(const Givaro::Rational &)"): "encQQ (Model.Rational.subin %s %s %s)" % (RED, A, R),
    ("operator-", "Givaro::Rational () const"): "encQ (Model.Rational.neg %s)" % A,
    ("operator*", "Givaro::Rational (const Givaro::Rational &) const"): "encQ (Model.Rational.mul mpz_cmpabs %s %s %s)" % (RED, A, R),
    ("operator/", "Givaro::Rational (const Givaro::Rational &) const"): "encQ (Model.Rational.div mpz_cmpabs %s %s %s)" % (RED, A, R),
    ("operator*=", "Givaro::Rational &(const Givaro::Rational &)"): "encQQ (Model.Rational.mulin mpz_cmpabs %s %s %s)" % (RED, A, R),
    ("operator/=", "Givaro::Rational &(const Givaro::Rational &)"): "encQQ (Model.Rational.divin %s %s %s)" % (RED, A, R),
    ("compare", "int (const Givaro::Rational &, const Givaro::Rational &)"): "encW (Model.Rational.compare mpz_cmpabs ⟨a_num, a_den⟩ ⟨b_num, b_den⟩)",
    ("absCompare", "int (const Givaro::Rational &, const Givaro::Rational &)"): "encW (Model.Rational.absCompare mpz_cmpabs ⟨a_num, a_den⟩ ⟨b_num, b_den⟩)",
    ("reduce", "Givaro::Rational &()"): "encQQ (some (Model.Rational.reduce %s))" % A,
    ("trunc", "const Givaro::Integer (const Givaro::Rational &)"): "encW (Model.Rational.trunc ⟨r_num, r_den⟩)",
    ("floor", "const Givaro::Integer (const Givaro::Rational &)"): "encW (Model.Rational.floor ⟨x_num, x_den⟩)",
    ("ceil", "const Givaro::Integer (const Givaro::Rational &)"): "encW (Model.Rational.ceil ⟨x_num, x_den⟩)",
    ("abs", "const Givaro::Rational (const Givaro::Rational &)"): "encQ (Model.Rational.abs ⟨r_num, r_den⟩)",
    ("Rational", "void (const Givaro::Integer &, const Givaro::Integer &, int)"): "encC (Model.Rational.mk3 n d red)",
    ("Rational", "void (const Givaro::Integer &)"): "encC (some (Model.Rational.ofInteger n))",
    ("Rational", "void (const Givaro::Rational &)"): "encC (some ⟨r_num, r_den⟩)",
}
for _op, _fn in (("operator!=", "ne"), ("operator==", "eq"), ("operator<", "lt"), ("operator>", "gt"), ("operator<=", "le"), ("operator>=", "ge")):
    LINK[(_op, "int (const Givaro::Rational &, const Givaro::Rational &)")] = \
        "encW (if Model.Rational.%s mpz_cmpabs ⟨a_num, a_den⟩ ⟨b_num, b_den⟩ then 1 else 0)" % _fn

# translated bodies whose link theorem the generated script does not close yet (they stay with the correspondence tie):
#   compare / absCompare / the six operators: the code negates the `int` returned by mpz_cmpabs (`-cden`, `-absCompare(a,b)`);
#   the translation has `wrapS32 (-x)` there, the hand model `-x`, and GMP's contract bounds |x| by nothing (INT_MIN would be UB);
#   Rational(n, d, red), operator*=: the script runs out of heartbeats on the unshared term.
NOT_PROVED = [k for k in list(LINK) if k[0] in ("compare", "absCompare", "operator*=", "operator!=", "operator==", "operator<", "operator>",
                                                "operator<=", "operator>=", "operator*", "operator/", "operator/=", "operator+", "operator+=")
              or (k[0] == "operator-" and "const Givaro::Rational &" in k[1]) or k[0] == "operator-="
              or k == ("Rational", "void (const Givaro::Integer &, const Givaro::Integer &, int)")]
LINK_ALL = dict(LINK)
for _k in NOT_PROVED:
    del LINK[_k]

OPS_HDR = """/- GENERATED by translate/gen_rational.py from /repo's working tree -- do not edit.
   One definition per C++ function body of Givaro::Rational (symbolic execution of the clang AST; a Rational object is the
   pair of Integer locations (num, den); `flags` is the value of the static Rational::flags when the call starts).
   Result: ⟨returned word/Integer (0 for void and for a Rational), [returned Rational's num, den (if any)] ++ final values
   of *this (non-const methods, constructors) and of non-const reference parameters, thrown⟩. -/
import GivaroModel.Prim.Gmp
set_option maxRecDepth 8000
set_option linter.unusedVariables false
namespace Givaro.GenQ
open Givaro

"""

THM_HDR = """/- GENERATED by translate/gen_rational.py -- do not edit.
   One theorem per translated body that Model/Rational.lean transcribes by hand: for ALL inputs (every reduction flag,
   numerators and denominators of any size and sign) the regenerated body computes what the hand model computes, so that the
   C10 theorems about the hand model are theorems about the code as it is in /repo now. -/
import GivaroModel.Generated.RationalOps
import GivaroModel.Lemmas.RationalGenTactics
set_option maxRecDepth 8000
set_option linter.unusedVariables false
namespace Givaro.GenQ
open Givaro Givaro.Model.Rational

"""


MAX_TEXT = 9000


def collect(prog, enums):
    out, bad, seen = [], [], set()
    for f in prog.funcs:
        if f.body is None or not f.file or os.path.basename(f.file) not in FILES_OF_INTEREST:
            continue
        if getattr(f, "in_template", False) or f.kind == "CXXDestructorDecl":
            continue
        if f.cls not in (None, "Rational"):
            continue
        if f.cls is None and not any(classify(type_of(p))[0][0] == "Q" for p in f.params):
            continue
        if f.mangled and f.mangled in seen:
            continue
        seen.add(f.mangled)
        rec = dict(name=f.name, type=f.qual, file=os.path.basename(f.file), line=f.line)
        try:
            t = translate_q(prog, enums, f)
            t.lean = emit_def(t)
            if len(t.lean) > MAX_TEXT:
                # translated, but without sharing of common subterms the text is too large for a usable Lean definition
                rec["reason"] = "translated (%d paths) but the unshared term text has %d characters (limit %d)" % (leaves(t.tree), len(t.lean), MAX_TEXT)
                bad.append(rec)
                continue
            out.append(t)
        except Untranslatable as e:
            rec["reason"] = str(e)
            bad.append(rec)
        except (KeyError, IndexError, AttributeError, TypeError) as e:   # a node shape the executor does not know: outside the dialect
            rec["reason"] = "outside the dialect (%s: %s)" % (type(e).__name__, e)
            bad.append(rec)
    keys = {}
    for t in out:
        if t.key in keys:
            keys[t.key] += 1
            t.key = "%s_v%d" % (t.key, keys[t.key])
            t.lean = emit_def(t)
        else:
            keys[t.key] = 1
    return out, bad


def leaves(tree):
    if isinstance(tree, Ite):
        return leaves(tree.a) + leaves(tree.b)
    return 1


def generate(outdir_lean=None, gendir=None):
    outdir_lean = outdir_lean or common.LEAN_DIR
    gendir = gendir or os.path.join(common.CACHE, "gen")
    docs = gmpxx.dump_ast(UNITY.format(r=common.REPO), common.inc_flags(), os.path.join(common.CACHE, "ast_rational"))
    prog = gmpxx.Program(docs)
    enums = enum_values(docs)
    ts, bad = collect(prog, enums)
    gen = os.path.join(outdir_lean, "GivaroModel", "Generated")
    os.makedirs(gen, exist_ok=True)
    os.makedirs(gendir, exist_ok=True)
    meta = {"functions": [], "untranslatable": bad}
    ops, thms = [OPS_HDR], [THM_HDR]
    linked_keys = set()
    for t in ts:
        f = t.f
        ops.append("/-- `%s %s`  (%s:%s) -/\n%s\n\n" % (f.name, f.qual, os.path.basename(f.file), f.line, t.lean))
        link = LINK.get((f.name, f.qual))
        rec = dict(key=t.key, name=f.name, type=f.qual, file=os.path.basename(f.file), line=f.line, leaves=leaves(t.tree),
                   params=[list(p) for p in t.params], linked=link)
        if link is not None:
            linked_keys.add((f.name, f.qual))
            args = " ".join(n for n, _ in t.params)
            hyps = "".join(" (h_%s : In%s %s)" % (n, ct, n) for n, ct in t.params if ct not in ("Integer", "flags"))
            thms.append("/-- `%s %s` (%s:%s) -/\ntheorem %s_is_model (%s : Int)%s :\n    %s %s = %s := by\n  unfold %s\n  genq_link\n\n"
                        % (f.name, f.qual, os.path.basename(f.file), f.line, t.key, args, hyps, t.key, args, link, t.key))
            rec["theorem"] = "%s_is_model" % t.key
        meta["functions"].append(rec)
    # a hand-modelled body that the translator lost (became untranslatable or vanished) is reported by the check
    meta["link_lost"] = [dict(name=n, type=q) for (n, q) in LINK if (n, q) not in linked_keys]
    meta["hand_modelled_not_linked"] = [dict(name=n, type=q) for (n, q) in NOT_PROVED]
    ops.append("end Givaro.GenQ\n")
    thms.append("end Givaro.GenQ\n")
    for name, txt in (("RationalOps.lean", "".join(ops)), ("RationalThms.lean", "".join(thms))):
        p = os.path.join(gen, name)
        old = open(p).read() if os.path.exists(p) else None
        if old != txt:                      # unchanged text keeps lake's cache warm
            with open(p, "w") as fh:
                fh.write(txt)
    with open(os.path.join(gendir, "rational_meta.json"), "w") as fm:
        json.dump(meta, fm, indent=1)
    return meta


if __name__ == "__main__":
    m = generate()
    print("translated %d Rational bodies (%d linked to the hand model), %d outside the dialect" %
          (len(m["functions"]), sum(1 for f in m["functions"] if f["linked"]), len(m["untranslatable"])))
    for b in m["untranslatable"]:
        print("  outside the dialect: %s %s (%s:%s): %s" % (b["name"], b["type"], b["file"], b["line"], b["reason"]))
    for b in m["link_lost"]:
        print("  LINK LOST: %s %s" % (b["name"], b["type"]))
