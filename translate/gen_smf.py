#!/usr/bin/env python3
"""Special-member-function table for C14 (tie T of DESIGN.md §4 C14).

Input: the clang-14 JSON AST of a translation unit that copy-constructs and copy-assigns every CRT / RNS class the property
covers (so that the implicit special members are declared *and defined* by clang, and the user-written ones are instantiated with
concrete types).  For every such class instantiation it lists

  * the data members (FieldDecl, in declaration order),
  * for each of copy-ctor / copy-assign / move-ctor / move-assign: whether it is user-written, implicit (defaulted) or
    absent/deleted, and -- per data member -- the *source members* read from the argument object to initialise / assign that member
    (`_ck <- [_primes]` is the defect fixes/C14_1 repaired; `[]` means the member is not copied at all),
  * for user-written bodies that are not member-wise (Array0's deep copy): the set of source members read and of own members
    written anywhere in the body, closed under calls to member functions of the same class.

Output: lean/GivaroModel/Generated/SMF.lean (a table, nothing else) and .cache/gen/smf_meta.json.
"""
import json
import os
import subprocess
import sys

HERE = os.path.dirname(os.path.abspath(__file__))
sys.path.insert(0, os.path.dirname(HERE))
from translate import gmpxx          # noqa: E402
from vlib import common              # noqa: E402

# class templates the property covers (+ the array type the RNS systems are made of)
TARGETS = ("IntRNSsystem", "RNSsystem", "RNSsystemFixed", "ChineseRemainder", "Poly1CRT", "Array0")

TU = r'''
#include <gmp++/gmp++.h>
#include <givaro/givinteger.h>
#include <givaro/givintprime.h>
#include <givaro/modular.h>
#include <givaro/montgomery.h>
#include <givaro/givintrns.h>
#include <givaro/chineseremainder.h>
#include <givaro/givrns.h>
#include <givaro/givrnsfixed.h>
#include <givaro/givpoly1crt.h>
#include <type_traits>
#include <utility>
using namespace Givaro;
// every copy / move operation the class offers is used once, so that clang declares and defines the implicit ones
template <class T> typename std::enable_if<std::is_copy_constructible<T>::value>::type smf_cc(const T& a) { T b(a); (void)b; }
template <class T> typename std::enable_if<!std::is_copy_constructible<T>::value>::type smf_cc(const T&) {}
template <class T> typename std::enable_if<std::is_copy_assignable<T>::value>::type smf_ca(T& b, const T& a) { b = a; }
template <class T> typename std::enable_if<!std::is_copy_assignable<T>::value>::type smf_ca(T&, const T&) {}
template <class T> typename std::enable_if<std::is_move_constructible<T>::value>::type smf_mc(T& a) { T b(std::move(a)); (void)b; }
template <class T> typename std::enable_if<!std::is_move_constructible<T>::value>::type smf_mc(T&) {}
template <class T> typename std::enable_if<std::is_move_assignable<T>::value>::type smf_ma(T& b, T& a) { b = std::move(a); }
template <class T> typename std::enable_if<!std::is_move_assignable<T>::value>::type smf_ma(T&, T&) {}
template <class T> void smf_all(T& a, T& b) { smf_cc(a); smf_ca(b, a); smf_mc(a); smf_ma(b, a); }
template <class T> void smf_type() { T* a = nullptr; T* b = nullptr; smf_all(*a, *b); }
template <class Dom> void smf_dom() {
    smf_type<RNSsystem<Integer, Dom>>();
    smf_type<ChineseRemainder<IntPrimeDom, Dom, true>>();
    smf_type<ChineseRemainder<IntPrimeDom, Dom, false>>();
    smf_type<Poly1CRT<Dom>>();
    smf_type<Array0<Dom>>();
    smf_type<Array0<typename Dom::Element>>();
}
void smf_use() {
    smf_type<IntRNSsystem<std::vector, std::allocator>>();
    smf_type<RNSsystemFixed<Integer>>();
}
template void smf_dom<Modular<int64_t>>();
template void smf_dom<Modular<double>>();
template void smf_dom<Modular<Integer>>();
template void smf_dom<Montgomery<int32_t>>();
'''

CASTS = ("ImplicitCastExpr", "ParenExpr", "CStyleCastExpr", "CXXStaticCastExpr", "CXXFunctionalCastExpr", "CXXConstCastExpr",
         "ExprWithCleanups", "MaterializeTemporaryExpr", "CXXBindTemporaryExpr", "CXXReinterpretCastExpr")
OPS = ("copy-ctor", "copy-assign", "move-ctor", "move-assign")
# standard-library copying primitives: name -> (indices of the arguments that denote the source range, index of the destination)
COPY_PRIMITIVES = {
    "copy": ([0, 1], 2), "copy_n": ([0], 2), "copy_backward": ([0, 1], 2), "copy_if": ([0, 1], 2),
    "move": ([0, 1], 2), "move_backward": ([0, 1], 2),
    "uninitialized_copy": ([0, 1], 2), "uninitialized_copy_n": ([0], 2), "uninitialized_move": ([0, 1], 2),
    "uninitialized_move_n": ([0], 2), "transform": ([0, 1], 2), "swap_ranges": ([0, 1], 2),
    "memcpy": ([1], 0), "memmove": ([1], 0), "wmemcpy": ([1], 0), "strcpy": ([1], 0), "strncpy": ([1], 0),
}


def strip(n):
    while n.get("kind") in CASTS and n.get("inner"):
        n = n["inner"][-1]
    return n


def is_this(e):
    e = strip(e)
    if e.get("kind") == "UnaryOperator" and e.get("opcode") == "*" and e.get("inner"):
        e = strip(e["inner"][0])
    return e.get("kind") == "CXXThisExpr"


def this_member(e):
    """name of the data member of *this that expression e denotes (through casts, &, [], unary *), else None"""
    e = strip(e)
    while True:
        k = e.get("kind")
        if k == "UnaryOperator" and e.get("opcode") in ("&", "*") and e.get("inner"):
            e = strip(e["inner"][0])
            continue
        if k == "ArraySubscriptExpr" and e.get("inner"):
            e = strip(e["inner"][0])
            continue
        break
    if e.get("kind") == "MemberExpr" and e.get("inner") and is_this(e["inner"][0]) and "referencedMemberDecl" in e:
        return e.get("name")
    return None


class ClassInfo:
    def __init__(self, node):
        self.node = node
        self.name = node.get("name")
        self.fields = []          # (name, type)
        self.field_ids = {}
        self.methods = {}         # decl id -> node (definitions in this record)
        args = []
        for c in node.get("inner", []):
            k = c.get("kind")
            if k == "TemplateArgument":
                t = c.get("type", {}).get("qualType")
                if t is None and "value" in c:
                    t = str(c["value"])
                if t is None and c.get("inner"):
                    t = c["inner"][0].get("name") or c["inner"][0].get("kind")
                if t is None:
                    t = "template"            # template template argument (IntRNSsystem<std::vector, std::allocator>)
                args.append(str(t))
            elif k == "FieldDecl":
                self.fields.append((c.get("name"), c.get("type", {}).get("qualType", "?")))
                self.field_ids[c["id"]] = c.get("name")
            elif k in ("CXXConstructorDecl", "CXXMethodDecl", "CXXDestructorDecl"):
                self.methods[c["id"]] = c
        if self.name == "ChineseRemainder" and len(args) == 3:
            args[2] = "REDUCE=false" if args[2] == "0" else "REDUCE=true"
        self.inst = "%s<%s>" % (self.name, ", ".join(a.replace("Givaro::", "") for a in args))

    def params(self, m):
        return [c for c in m.get("inner", []) if c.get("kind") == "ParmVarDecl"]

    def classify(self, m):
        """which special member (of OPS) is method m, or None"""
        ps = self.params(m)
        if len(ps) != 1:
            return None
        qt = ps[0].get("type", {})
        t = (qt.get("desugaredQualType") or qt.get("qualType") or "")
        q = qt.get("qualType", "")
        own = ("Givaro::%s<" % self.name in t) or ("::Self_t" in q) or (("%s<" % self.name) in q) or q.replace("const ", "").strip(" &") == self.name
        if not own:
            return None
        is_move = t.rstrip().endswith("&&") or q.rstrip().endswith("&&")
        is_ref = t.rstrip().endswith("&") or q.rstrip().endswith("&")
        if not is_ref:
            return None
        if m.get("kind") == "CXXConstructorDecl":
            return "move-ctor" if is_move else "copy-ctor"
        if m.get("kind") == "CXXMethodDecl" and m.get("name") == "operator=":
            return "move-assign" if is_move else "copy-assign"
        return None


def accessor_member(ci, decl_id, depth=0):
    """the data member a trivial accessor of class ci returns (begin() { return _d; }, end() { return _d + _size; }), else None"""
    m = ci.methods.get(decl_id)
    if m is None or depth > 2:
        return None
    b = body_of(m)
    if b is None:
        return None
    found = []

    def walk(n):
        if n.get("kind") == "ReturnStmt" and n.get("inner"):
            e = strip(n["inner"][0])
            while e.get("kind") == "BinaryOperator" and e.get("opcode") in ("+", "-") and e.get("inner"):
                e = strip(e["inner"][0])
            tm = this_member(e)
            if tm:
                found.append(tm)
            elif e.get("kind") == "CXXMemberCallExpr" and e.get("inner"):
                c = strip(e["inner"][0])
                if c.get("kind") == "MemberExpr" and c.get("inner") and is_this(c["inner"][0]):
                    r = accessor_member(ci, c.get("referencedMemberDecl"), depth + 1)
                    if r:
                        found.append(r)
        for c in n.get("inner", []):
            walk(c)
    walk(b)
    return found[0] if found else None


def body_of(m):
    for c in m.get("inner", []):
        if c.get("kind") == "CompoundStmt":
            return c
    return None


def analyse(ci, m, src_id, depth=0, seen=None):
    """(per_member {dst: set(src members)}, reads set, writes set) of method m of class ci whose source object is the
    ParmVarDecl with id src_id.  Closed under calls to member functions of the same class that receive the source object."""
    per, reads, writes = {}, set(), set()
    seen = seen or set()
    aliases = {}      # local variable id -> set(source members) it was initialised from (const T* baseP = src._d)

    def src_members(e, out):
        k = e.get("kind")
        if k == "MemberExpr" and e.get("inner"):
            b = strip(e["inner"][0])
            if b.get("kind") == "DeclRefExpr" and b.get("referencedDecl", {}).get("id") == src_id and "referencedMemberDecl" in e:
                if e.get("referencedMemberDecl") in ci.field_ids:
                    out.add(e.get("name"))
                else:
                    am = accessor_member(ci, e.get("referencedMemberDecl"))
                    out.add(am if am else "%s()" % e.get("name"))          # accessor call on the source (begin(), size(), …)
        if k == "DeclRefExpr" and e.get("referencedDecl", {}).get("id") in aliases:
            out |= aliases[e["referencedDecl"]["id"]]
        for c in e.get("inner", []):
            src_members(c, out)
        return out

    def mentions_src(e):
        if e.get("kind") == "DeclRefExpr" and e.get("referencedDecl", {}).get("id") == src_id:
            return True
        return any(mentions_src(c) for c in e.get("inner", []))

    if depth == 0:
        analyse.conditional = set()       # members whose copy sits under a condition other than the self-assignment guard
        analyse.cond_depth = 0

    def record(dst, srcs):
        per.setdefault(dst, set()).update(srcs)
        writes.add(dst)
        reads.update(srcs)
        if analyse.cond_depth > 0:
            analyse.conditional.add(dst)

    def self_guard(c):
        """`this != &src` / `this == &src` (and the same through casts / parentheses)"""
        c = strip(c)
        if c.get("kind") != "BinaryOperator" or c.get("opcode") not in ("!=", "==") or len(c.get("inner", [])) != 2:
            return False
        a, b = strip(c["inner"][0]), strip(c["inner"][1])

        def addr_of_src(e):
            return e.get("kind") == "UnaryOperator" and e.get("opcode") == "&" and e.get("inner") and \
                strip(e["inner"][0]).get("kind") == "DeclRefExpr" and strip(e["inner"][0]).get("referencedDecl", {}).get("id") == src_id
        return (a.get("kind") == "CXXThisExpr" and addr_of_src(b)) or (b.get("kind") == "CXXThisExpr" and addr_of_src(a))

    def this_accessor_target(e):
        """a destination given by a trivial accessor of *this (begin(), baseptr())"""
        e = strip(e)
        while e.get("kind") == "BinaryOperator" and e.get("opcode") in ("+", "-") and e.get("inner"):
            e = strip(e["inner"][0])
        if e.get("kind") == "CXXMemberCallExpr" and e.get("inner"):
            c = strip(e["inner"][0])
            if c.get("kind") == "MemberExpr" and c.get("inner") and is_this(c["inner"][0]):
                return accessor_member(ci, c.get("referencedMemberDecl"))
        return None

    def local_alias_target(e):
        """a write through a local pointer initialised from a member of *this (T* baseThis = _d; baseThis[i] = …)"""
        e = strip(e)
        while e.get("kind") in ("ArraySubscriptExpr", "UnaryOperator") and e.get("inner"):
            e = strip(e["inner"][0])
        if e.get("kind") == "DeclRefExpr":
            return this_aliases.get(e.get("referencedDecl", {}).get("id"))
        return None

    this_aliases = {}

    def walk(n):
        k = n.get("kind")
        if k == "CXXCtorInitializer":
            tgt = n.get("anyInit", {}).get("name")
            srcs = set()
            for c in n.get("inner", []):
                src_members(c, srcs)
            if tgt is not None:
                record(tgt, srcs)
        elif k == "VarDecl" and n.get("inner"):
            s = src_members(n["inner"][-1], set())
            if s:
                aliases[n["id"]] = s
            tm = this_member(n["inner"][-1])
            if tm:
                this_aliases[n["id"]] = tm
        elif k in ("BinaryOperator", "CompoundAssignOperator") and (n.get("opcode") == "=" or k == "CompoundAssignOperator"):
            dst = this_member(n["inner"][0]) or local_alias_target(n["inner"][0])
            if dst:
                record(dst, src_members(n["inner"][1], set()))
        elif k == "UnaryOperator" and n.get("opcode") in ("++", "--"):
            dst = this_member(n["inner"][0])
            if dst:
                record(dst, set())
        elif k == "CXXOperatorCallExpr" and len(n.get("inner", [])) >= 3:
            callee = strip(n["inner"][0])
            if callee.get("kind") == "DeclRefExpr" and callee.get("referencedDecl", {}).get("name", "").startswith("operator") and \
                    callee["referencedDecl"]["name"] in ("operator=", "operator+=", "operator-=", "operator*="):
                dst = this_member(n["inner"][1]) or local_alias_target(n["inner"][1])
                if dst:
                    srcs = set()
                    for a in n["inner"][2:]:
                        src_members(a, srcs)
                    record(dst, srcs)
        elif k == "CXXMemberCallExpr" and n.get("inner"):
            callee = strip(n["inner"][0])
            if callee.get("kind") == "MemberExpr" and callee.get("inner"):
                obj = callee["inner"][0]
                dst = this_member(obj)
                args = n["inner"][1:]
                if dst is not None:
                    # a member function of a data member: it (possibly) rewrites that member from its arguments
                    srcs = set()
                    for a in args:
                        src_members(a, srcs)
                    const_call = "const" in (callee.get("type", {}).get("qualType", "") or "")
                    if srcs or not const_call:
                        if callee.get("name") not in ("size", "begin", "end", "empty", "operator[]", "front", "back"):
                            record(dst, srcs)
                elif is_this(obj):
                    # own member function: follow it when we have its body
                    tid = callee.get("referencedMemberDecl")
                    tm = ci.methods.get(tid)
                    srcs_args = set()
                    for a in args:
                        src_members(a, srcs_args)
                    if tm is not None and body_of(tm) is not None and tid not in seen and depth < 4:
                        ps = ci.params(tm)
                        sub_src = None
                        for p, a in zip(ps, args):
                            sa = strip(a)
                            if sa.get("kind") == "DeclRefExpr" and sa.get("referencedDecl", {}).get("id") == src_id:
                                sub_src = p["id"]
                        sp, sr, sw = analyse(ci, tm, sub_src if sub_src is not None else "<none>", depth + 1, seen | {tid})
                        for d, s in sp.items():
                            record(d, s | (srcs_args if sub_src is None else set()))
                        reads.update(sr)
                        reads.update(srcs_args)
                        for d in sw:
                            writes.add(d)
                            if sub_src is None and srcs_args:
                                per.setdefault(d, set()).update(srcs_args)
        elif k == "CallExpr" and n.get("inner"):
            callee = strip(n["inner"][0])
            nm = callee.get("referencedDecl", {}).get("name", "") if callee.get("kind") == "DeclRefExpr" else ""
            args = n["inner"][1:]
            prim = COPY_PRIMITIVES.get(nm.replace("__builtin_", "").lstrip("_"))
            if prim is not None and len(args) > max(prim[0] + [prim[1]]):
                # standard-library copying primitive: reads the source range, writes the destination range
                dst = this_member(args[prim[1]]) or local_alias_target(args[prim[1]]) or this_accessor_target(args[prim[1]])
                if dst:
                    srcs = set()
                    for i in prim[0]:
                        src_members(args[i], srcs)
                    record(dst, srcs)
            elif len(args) > 1:
                # free function writing a member passed by reference/pointer as first argument (initone(&_d[i], p._d[i]))
                dst = this_member(args[0]) or local_alias_target(args[0])
                if dst and len(args) >= 2:
                    srcs = set()
                    for a in args[1:]:
                        src_members(a, srcs)
                    if srcs:
                        record(dst, srcs)
        if k in ("IfStmt", "ConditionalOperator", "SwitchStmt") and n.get("inner"):
            kids = n["inner"]
            walk(kids[0])
            guarded = not (k == "IfStmt" and self_guard(kids[0]))
            if guarded:
                analyse.cond_depth += 1
            for c in kids[1:]:
                walk(c)
            if guarded:
                analyse.cond_depth -= 1
            return
        for c in n.get("inner", []):
            walk(c)

    for c in m.get("inner", []):
        if c.get("kind") in ("CXXCtorInitializer", "CompoundStmt"):
            walk(c)
    reads.update(src_members(m, set()) if src_id != "<none>" else set())
    return per, reads, writes


def extract():
    work = os.path.join(common.CACHE, "ast_smf")
    os.makedirs(work, exist_ok=True)
    src = os.path.join(work, "smf.C")
    with open(src, "w") as fh:
        fh.write(TU)
    cmd = ["clang++-14", "-std=gnu++17", "-fsyntax-only", "-DNDEBUG", "-UDEBUG", "-w"] + common.inc_flags() + \
          ["-Xclang", "-ast-dump=json", "-Xclang", "-ast-dump-filter=Givaro", src]
    p = subprocess.run(cmd, stdout=subprocess.PIPE, stderr=subprocess.PIPE, text=True)
    if p.returncode != 0:
        raise RuntimeError("clang failed on the special-member-function translation unit:\n" + p.stderr[-3000:])
    docs = gmpxx.parse_docs(p.stdout)
    classes = {}
    outdefs = {}      # id of an in-class declaration -> its out-of-line definition (explicit specialisations such as Modular<Log16>)

    def walk(n):
        k = n.get("kind")
        if k in ("CXXConstructorDecl", "CXXMethodDecl") and n.get("previousDecl") and body_of(n) is not None:
            outdefs[n["previousDecl"]] = n
        if k == "ClassTemplateSpecializationDecl" and n.get("name") in TARGETS and \
                any(c.get("kind") == "FieldDecl" for c in n.get("inner", [])):
            ci = ClassInfo(n)
            if ci.inst not in classes or len(json.dumps(n)) > len(json.dumps(classes[ci.inst].node)):
                classes[ci.inst] = ci
        for c in n.get("inner", []):
            walk(c)
    for d in docs:
        walk(d)
    table = []
    for inst in sorted(classes):
        ci = classes[inst]
        for mid in list(ci.methods):
            if body_of(ci.methods[mid]) is None and mid in outdefs:
                ci.methods[mid] = outdefs[mid]
        ops = {}
        for mid, m in ci.methods.items():
            op = ci.classify(m)
            if op is None:
                continue
            implicit = bool(m.get("isImplicit"))
            deleted = bool(m.get("explicitlyDeleted")) or (implicit and body_of(m) is None and m.get("kind") != "CXXConstructorDecl")
            has_def = body_of(m) is not None
            if m.get("explicitlyDeleted"):
                how = "deleted"
            elif implicit or m.get("explicitlyDefaulted"):
                how = "implicit" if has_def else "implicit-unused-or-deleted"
            else:
                how = "user" if has_def else "user-undefined"
            prev = ops.get(op)
            if prev is not None and prev["has_def"] and not has_def:
                continue
            entry = dict(op=op, how=how, has_def=has_def, per={}, reads=[], writes=[], file=os.path.basename(m.get("loc", {}).get("file", "") or ""),
                         line=m.get("loc", {}).get("line"))
            if has_def:
                ps = ci.params(m)
                per, reads, writes = analyse(ci, m, ps[0]["id"])
                entry["per"] = {k: sorted(v) for k, v in per.items()}
                entry["reads"] = sorted(reads)
                entry["writes"] = sorted(writes)
                entry["conditional"] = sorted(getattr(analyse, "conditional", ()))
            ops[op] = entry
        for op in OPS:
            if op not in ops:
                ops[op] = dict(op=op, how="absent", has_def=False, per={}, reads=[], writes=[], file="", line=None)
        table.append(dict(cls=ci.name, inst=inst, fields=ci.fields, ops=[ops[o] for o in OPS]))
    return table


def lean_str(s):
    return '"' + str(s).replace("\\", "\\\\").replace('"', '\\"') + '"'


def emit(table):
    gen = os.path.join(common.LEAN_DIR, "GivaroModel", "Generated")
    os.makedirs(gen, exist_ok=True)
    lines = ["/- GENERATED by translate/gen_smf.py from /repo's working tree (clang AST) -- do not edit.",
             "   One row per (class instantiation, special member function, data member): how the function is provided and which members of",
             "   the *source* object are read to initialise / assign that member.  `sources = []` = the member is not copied. -/",
             "namespace Givaro.Gen.SMF", "",
             "structure Row where", "  cls : String", "  inst : String", "  op : String", "  how : String", "  member : String",
             "  sources : List String", "  reads : List String", "  writes : List String", "deriving Repr, DecidableEq", "",
             "def rows : List Row := ["]
    body = []
    for t in table:
        for o in t["ops"]:
            for (f, _ty) in t["fields"]:
                body.append("  ⟨%s, %s, %s, %s, %s, [%s], [%s], [%s]⟩" % (
                    lean_str(t["cls"]), lean_str(t["inst"]), lean_str(o["op"]), lean_str(o["how"]), lean_str(f),
                    ", ".join(lean_str(x) for x in o["per"].get(f, [])),
                    ", ".join(lean_str(x) for x in o["reads"]), ", ".join(lean_str(x) for x in o["writes"])))
    lines.append(",\n".join(body))
    lines += ["]", "",
              "/-- the data members of every class instantiation, in declaration order -/",
              "def members : List (String × String × List String) := ["]
    lines.append(",\n".join("  (%s, %s, [%s])" % (lean_str(t["cls"]), lean_str(t["inst"]), ", ".join(lean_str(f) for f, _ in t["fields"]))
                            for t in table))
    lines += ["]", "", "end Givaro.Gen.SMF", ""]
    path = os.path.join(gen, "SMF.lean")
    from vlib import genroot
    genroot.write_if_changed(path, "\n".join(lines))
    os.makedirs(os.path.join(common.CACHE, "gen"), exist_ok=True)
    with open(os.path.join(common.CACHE, "gen", "smf_meta.json"), "w") as fh:
        json.dump(table, fh, indent=1)
    return path


if __name__ == "__main__":
    t = extract()
    emit(t)
    for c in t:
        print(c["inst"], [f for f, _ in c["fields"]])
        for o in c["ops"]:
            print("   %-11s %-26s %s   reads=%s writes=%s" % (o["op"], o["how"], o["per"], o["reads"], o["writes"]))
