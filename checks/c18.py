"""C18 — const use of a shared domain object from several threads is race-free.

(T) the footprint table of every const member function and copy constructor of the domain classes is regenerated from the clang AST
    (translate/footprint.py); `Props/C18.claimed_ops_readonly` is a kernel evaluation over the whole table: no write to a data member
    of the shared object, no write through a pointer member (std::atomic pointees excepted), no static storage but the documented
    random state.  `Props/C18.readonly_*` prove, in the execution model of Model/Threads.lean, that read-only schedules are race-free
    and interleaving-independent for any number of threads.
(C) cross-check of the extraction: harness/h_threads.cpp, built with clang++-14 -fsanitize=thread from /repo's sources, lets 2/4/8
    threads run the probe (the claimed operations) on ONE shared object of each of the 21 domain types and copy-construct from it;
    every thread's digest must equal the sequential digest, and a ThreadSanitizer report is a violation (the footprint said read-only).
"""
import json
import os
import re
import subprocess

from vlib import common, report, flow
from translate import footprint


def run(prop, tier, seed, replay=None):
    V = report.Verdict(prop, tier, seed, "proof")
    V.assumptions = [
        "members of the shared object handed by a const operation to a callee that may store through that parameter (interprocedural, translate/paramwrites.py, "
        "const_cast included) count as shared writes, except the polynomial constants zero/one/mOne and Extension's modulus where every store on the path is "
        "Poly1Dom::setdegree's guarded resize: assumed unreachable because these members are stored normalised -- checked on fresh objects, copies and assignment "
        "targets by the `norm` lines of harness/h_threads.cpp and watched by ThreadSanitizer, not proved",
        "the footprint is a syntactic over-approximation of the writes in the domain classes' own code (clang AST of the instantiated bodies, closed under calls); "
        "it does not model the C++ memory model, the process-wide allocator free lists or GMP's allocator (documented globals the property excludes)",
        "the theorem readonly_race_free is about the execution model of Model/Threads.lean (sequentially consistent shared memory, operations as functions of the memory)",
        "ThreadSanitizer explores only the schedules that happen in the run",
        "random draws (random/nonzerorandom) write the caller's generator and are not in the property's operation list: they are excluded from the claimed set",
    ]
    table = []
    try:
        table = footprint.extract()
        footprint.emit(table)
    except Exception as e:
        V.violation("footprint", {"obligation": "footprint extraction (translate/footprint.py)", "what": str(e)[-3000:]}, no_failing_input=True)
    L = flow.lean_stage(V, ["GivaroModel.Props.C18"], "GivaroModel/Props/C18.lean")
    offenders = [t for t in table if footprint.claimed(t) and (t["const_writes"] or t["pointee_writes"] or t.get("arg_writes") or
                                                                 [s for s in t["statics"] if s not in ("local:randstate", "write:randstate", "Rational::flags")])]
    # dynamic cross-check under ThreadSanitizer
    binp = common.build_harness("h_threads", "T", cxx="clang++-14")
    env = dict(os.environ, TSAN_OPTIONS="halt_on_error=0 report_signal_unsafe=0 history_size=4")
    kinds = None
    if replay:
        with open(replay) as fh:
            kinds = sorted({l.split(" ")[1].rsplit(".", 1)[0] for l in json.load(fh).get("lines", []) if l and l.startswith("thr ")})
    outs, errs = [], []
    for k in (kinds or [""]):
        p = subprocess.run([binp, "thorough" if (tier == "thorough" or replay) else "quick", str(seed)] + ([k] if k else []),
                           stdout=subprocess.PIPE, stderr=subprocess.PIPE, text=True, env=env, timeout=3000, errors="replace")
        outs += [l for l in p.stdout.split("\n") if l]
        errs.append(p.stderr)
        if p.returncode not in (0, 66):     # 66 = TSan "races were reported"
            V.violation("crash", {"obligation": "thread harness run", "what": "the harness crashed", "lines": outs[-2:], "stderr": p.stderr[-2000:]})
    err = "\n".join(errs)
    bad = [l for l in outs if l.startswith("thr ") and l.rsplit(" ", 1)[1].split("/")[0] != l.rsplit(" ", 1)[1].split("/")[1]]
    races = re.findall(r"WARNING: ThreadSanitizer: ([^\n(]+)\(pid=\d+\)\n(?:[^\n]*\n){0,3}?\s+#0 ([^\n]+)", err)
    race_sites = {}
    for kind_, frame in races:
        m = re.search(r"(\S+:\d+)(?::\d+)? \(", frame)
        site = (kind_.strip(), m.group(1) if m else frame[:120])
        race_sites[site] = race_sites.get(site, 0) + 1
    unnorm = [l for l in outs if l.startswith("norm ") and "0" in l.split(" = ")[1].split()]
    if unnorm:
        V.violation("impl_unnormalised_constant", {"obligation": "the polynomial constants of a domain object (zero/one/mOne, Extension's modulus) are stored normalised "
                                                   "after construction, copy and assignment (assumption of the argNormalise column of the footprint table)",
                                                   "what": "a const operation that hands this member to a normalising predicate will store into the shared object",
                                                   "lines": unnorm[:8]})
    if bad:
        V.violation("impl_digest", {"obligation": "every thread obtains the sequential results", "what": "a thread's digest differs from the sequential digest",
                                    "lines": bad[:8]})
    if race_sites:
        # attribute to the kinds that were running: lines just printed around are not ordered with stderr; list all failing sites
        V.violation("impl_race", {"obligation": "claimed_ops_readonly vs ThreadSanitizer", "what": "ThreadSanitizer reported data races / use after free while threads "
                                  "used the const operations of one shared domain object",
                                  "sites": ["%s at %s (x%d)" % (k, s, n) for (k, s), n in sorted(race_sites.items())][:20],
                                  "lines": [l for l in outs if l.startswith("thr ")][:3] if not kinds else outs[:6]})
    if offenders and not (bad or race_sites):
        V.violation("thm_claimed_ops_readonly", {"obligation": "Givaro.Props.C18.claimed_ops_readonly",
                                                 "what": "a claimed operation writes shared state according to the regenerated footprint; no race or wrong result was observed under ThreadSanitizer",
                                                 "functions": ["%s::%s  const_writes=%s pointee_writes=%s arg_writes=%s statics=%s" % (t["cls"], t["fn"], t["const_writes"], t["pointee_writes"], t.get("arg_writes"), t["statics"]) for t in offenders[:20]]},
                    no_failing_input=True)
    lines = [l for l in outs if l.startswith("thr ")]
    cov = {
        "obligations": len(L["theorems"]) + 1,
        "discharged": L["proved"] + (1 if L["audit_ok"] else 0),
        "checker_cmd": "python3 translate/footprint.py && lake build GivaroModel.Props.C18 && #print axioms; clang++-14 -fsanitize=thread harness/h_threads.cpp",
        "trusted_base": report.TRUSTED_BASE_COMMON + V.assumptions,
        "property_theorems": L["theorems"],
        "evaluations": len(lines),
        "distinct_nontrivial": len({l.split(" = ")[0] for l in lines}),
        "rule": "per domain type and parameter set: one shared object, 2/4/8 threads × rounds (quick 20, thorough 200) of probe + copy-construct + destroy; "
                "distinct = (type.param, threads, rounds); every case is non-trivial (≥ 2 threads)",
        "samples": lines[:: max(1, len(lines) // 10)][:10],
        "traces_validated_against_impl": len(lines) - len(bad),
        "tsan_reports": sum(race_sites.values()),
        "footprint_rows": len(table),
        "claimed_operations": len([t for t in table if footprint.claimed(t)]),
        "claimed_operations_with_shared_writes": len(offenders),
        "claimed_operations_handing_a_normalised_constant_to_a_normalising_callee": len([t for t in table if footprint.claimed(t) and t.get("arg_normalise")]),
        "normalised_constant_probes": len([l for l in outs if l.startswith("norm ")]),
        "timing_s": {"lean": round(L["t"], 1)},
    }
    V.coverage = cov
    V.finish()
