"""C16 — domain objects are self-contained: no hidden cross-object or history dependence.

Three parts:
 (T) translate/footprint.py regenerates `Generated/Footprint.lean` from the clang AST of a translation unit using every domain class
     (harness/domains.h): per instantiated member function, closed under calls, the non-const static storage it touches;
     `Props/C16Static.no_hidden_state` is a kernel evaluation over the whole table (function-local statics, static members, globals).
 (P) `Props/C16.lean`: the reference-counted table sharing of Modular<Log16> (copy ctor / operator= / destructor as written) keeps
     `counter = number of sharers` for every history, hence no use after free and "destroying one copy never invalidates another";
     the value-semantics machine the histories are judged against.
 (C) harness/h_history.cpp: every history up to a length (and sampled longer ones) of construct / copy-construct / assign /
     self-assign / destroy / probe over three slots, for 21 domain types, under ASan; the Lean driver replays each history in the
     value-semantics machine and demands that every probe equals the isolated probe of the slot's construction parameters.
"""
import json
import os

from vlib import common, report, flow
from translate import footprint, gen_smf_domains


def run(prop, tier, seed, replay=None):
    V = report.Verdict(prop, tier, seed, "proof")
    V.assumptions = [
        "the footprint is a syntactic over-approximation computed from clang's AST of the instantiated member functions the harness uses "
        "(direct references to static storage, closed under calls inside namespace Givaro); state reached through raw pointers handed in by the caller is not tracked",
        "the probe (harness/domains.h) observes a fixed set of operations per domain type; the Lean machine is the value semantics of "
        "construct/copy/assign/destroy (Model/Domain.lean)",
        "the Log16 sharing model (Model/Domain.lean `Share`) is a hand transcription of modular-log16.inl's special member functions, "
        "tied to the code by the ASan histories",
        "RNS system objects are covered by C14's histories",
        "special-member-function table (translate/gen_smf_domains.py): syntactic extraction of which source member initialises / is assigned to which data member; "
        "the constants zero/one/mOne are excused (re-derived from the copied members; compared dynamically), base-class sub-objects are rows of their own class",
    ]
    try:
        table = footprint.extract()
        footprint.emit(table)
    except Exception as e:
        V.violation("footprint", {"obligation": "footprint extraction (translate/footprint.py)", "what": str(e)[-3000:]}, no_failing_input=True)
        table = []
    smf = []
    try:
        smf = gen_smf_domains.extract()
        gen_smf_domains.emit(smf)
    except Exception as e:
        V.violation("smf_domains", {"obligation": "special-member-function table of the domain classes (translate/gen_smf_domains.py)", "what": str(e)[-3000:]},
                    no_failing_input=True)
    L = flow.lean_stage(V, ["GivaroModel.Props.C16", "GivaroModel.Props.C16Static", "GivaroModel.Props.C16SMF"], "GivaroModel/Props/C16.lean",
                        extra_theorem_files=["GivaroModel/Props/C16Static.lean", "GivaroModel/Props/C16SMF.lean"])
    # the rows that falsify Props/C16SMF.domain_copies_memberwise_complete (same predicate, for the report)
    incomplete = []
    for c in smf:
        for o in c["ops"]:
            if o["how"] in ("absent", "deleted", "implicit-unused-or-deleted"):
                continue
            iscopy = o["op"] in ("copy-ctor", "copy-assign")
            for f, _ty in c["fields"]:
                ok = o["how"] in ("user", "implicit") and (f in ("zero", "one", "mOne") or o["per"].get(f) == [f]) and \
                    not (iscopy and f in o.get("conditional", []))
                if not ok:
                    incomplete.append("%s %s (%s): member %s <- %s%s" % (c["inst"], o["op"], o["how"], f, o["per"].get(f, []),
                                                                         " [conditional]" if f in o.get("conditional", []) else ""))
    # audit of the second file happens through the first module only if imported: audit it separately
    hidden = [(t["cls"], t["fn"], s) for t in table for s in t["statics"] if s not in ("local:randstate", "write:randstate", "Rational::flags")]
    if hidden and L["ok"]:
        V.note("footprint rows with undocumented statics although the theorem built: %r" % hidden[:5])
    if hidden:
        # the table theorem fails; name the functions as the concrete evidence and let the histories look for a failing history
        V.note("member functions touching undocumented static storage: %s" % ", ".join("%s::%s -> %s" % h for h in hidden[:12]))
    bins = flow.build_harnesses("h_history", configs=("S",))
    if replay:
        with open(replay) as fh:
            lines = [l.split(" = ")[0] for l in json.load(fh).get("lines", []) if l]
        res = flow.correspond(bins, "history", lines=lines, harness_args=["replay"], timeout=3000)
    else:
        res = flow.correspond(bins, "history", lines=None, harness_args=[tier, str(seed)], timeout=6000)
    counts = flow.decide(V, res, known=report.findings_for(prop), key_of=lambda l: " ".join(l.split(" ")[:2]))
    if hidden and not any("impl_" in p for p, _ in V.violations):
        V.violation("hidden_state", {"obligation": "Givaro.Props.C16.no_hidden_state", "what": "member functions of domain classes touch undocumented static storage",
                                     "functions": ["%s::%s -> %s" % h for h in hidden[:40]]}, no_failing_input=True)
    if incomplete and not any("impl_" in p for p, _ in V.violations):
        V.violation("thm_domain_copies_memberwise_complete",
                    {"obligation": "Givaro.Props.C16SMF.domain_copies_memberwise_complete",
                     "what": "a copy operation of a domain class does not copy every data member unconditionally from the same member of its source "
                             "(regenerated special-member-function table); no history of the harness showed a wrong result",
                     "rows": incomplete[:40]}, no_failing_input=True)
    elif incomplete:
        V.note("special-member-function table rows that are not member-wise complete: %s" % "; ".join(incomplete[:12]))
    kinds = sorted({l.split(" ")[1] for _, l, _ in res["results"] if l.startswith("hist ")})
    flow.fill_coverage(V, L, res, counts,
                       rule="per domain type: every legal history up to length 3 (thorough 5) over {construct(p0|p1), copy-construct, assign, self-assign, "
                            "destroy, probe} on three slots, plus seeded random histories up to length 9 (thorough 12); non-trivial = at least two operations; "
                            "distinct = distinct (type, history)",
                       extra={"domain_types": kinds, "footprint_rows": len(table), "smf_domain_class_instantiations": len(smf),
                              "smf_rows_not_memberwise_complete": len(incomplete),
                              "footprint_rows_with_statics": len([t for t in table if t["statics"]])},
                       nontrivial=lambda l: len(l.split(" = ")[0].split(" ")) > 3)
    V.finish()
