"""C20 — random generators respect their ranges and are reproducible from the seed.

Proof: lean/GivaroModel/Props/C20.lean (all-inputs theorems about lean/GivaroModel/Model/Random.lean).
Tie C (correspondence): harness/h_random.cpp calls the real generators in-process; GivRandom is compared draw by draw
with the model; the Integer range constructions are replayed by the model on the raw GMP draws the code consumed (the two
GMP entry points are interposed by the harness, which also substitutes the extreme values the GMP contract allows);
RecInt::rand is replayed on the raw mt19937_64 words; every output goes through the range checkers of
Spec/RandomSpec.lean.  Every draw line draws TWICE from the same seed: once into destinations pre-filled with junk (a large
multi-limb Integer, a non-canonical ring element, a longer polynomial of ones, an all-ones ruint) and once into other
destinations, the second time through an iterator / generator that is replaced half-way by a copy of itself (copy
constructor, copy assignment); the specification rejects any difference between the two sequences (destination
independence, reproducibility from the seed, copy semantics), and the model (Model/RandomDest.lean, every destination's
previous content an explicit argument) is run on the pre-filled destinations.
"""
import json
import re

from vlib import common, report, flow


def run(prop, tier, seed, replay=None):
    V = report.Verdict(prop, tier, seed, "proof")
    V.assumptions = [
        "GMP's generator (mpz_urandomb/mpz_urandomm behind gmp_randclass) and std::mt19937_64 are modelled as abstract generators "
        "constrained only by their documented contracts (value in [0,2^n), [0,m), [0,2^64)); the theorems hold for every such generator; "
        "the harness validates the contracts on every recorded raw draw",
        "termination of Integer::nonzerorandom depends on GMP's generator eventually returning a non-zero value (probability 1): modelled with fuel, "
        "proved only in the form `whatever is returned is non-zero and in range`; the GivRandom-based loops are proved to terminate "
        "(the multiplier is a primitive root modulo the prime 2^31-1, Lemmas/RandomOrbit.lean); the correspondence runs every loop under a watchdog",
        "ModularExtended<double>, Modular<Integer>, Modular<rint<K>> and the Extension::RandIter class (floating-point scaling of the draw) are checked "
        "implementation-vs-specification only (their init is the subject of C04); Modular<float|double>, ModularBalanced<int32|int64|float|double>, "
        "Montgomery<int32_t>, ZRing<intN|uintN|double>, GF2, Extension<Modular<int32_t>>::random/nonzerorandom, QField<Rational>::random/nonzerorandom (argument evaluation order of "
        "Rational(Integer::random(s), Integer::nonzerorandom(s)) as compiled by g++: right to left) and Poly1Dom::random over GFqDom<int32_t>, Modular<double>, ModularBalanced<int32_t>, Montgomery<int32_t> are modelled exactly "
        "(Model/RandomRings.lean: the conversion of a residue below maxCardinality() to float/double is taken to be exact; theorems Props/C20Rings.lean); "
        "a zero seed (clock-seeded generator) is outside the property",
        "that the CODE has no other input than the seed, the construction parameters and the calls is checked by drawing every sequence twice "
        "(pre-filled vs other destinations, original vs copied iterator); for the MODEL it is a theorem (…_dest_indep, …_run_dest_indep, …_append, rii_run_indep)",
        "a zero seed makes GivRandom read the clock (the only documented non-determinism): modelled as an arbitrary stream of int64_t readings, "
        "proved to give a valid state for every reading; not exercised by the correspondence",
    ]
    L = flow.lean_stage(V, ["GivaroModel.Props.C20", "GivaroModel.Props.C20Rings"], "GivaroModel/Props/C20.lean",
                        extra_theorem_files=("GivaroModel/Props/C20Rings.lean",))
    common.shadow_inc()      # bring the shadow include tree up to date once, before the per-configuration builds run concurrently
    bins = flow.build_harnesses("h_random", configs=("S", "R") if tier == "thorough" else ("S",), extra=("-ldl",))
    if replay:
        lines = [l.split(" = ")[0] for l in json.load(open(replay)).get("lines", []) if l]
    else:
        first = next(iter(bins.values()))
        lines, crash = flow.run_harness(first, None, ["gen", tier, str(seed)], timeout=600)
        if crash is not None:
            V.violation("gen", {"obligation": "case generation", "detail": crash}, no_failing_input=True)
    res = flow.correspond(bins, "random", lines=lines, timeout=1500 if tier == "quick" else 3000)
    counts = flow.decide(V, res, known=report.findings_for(prop), key_of=key_of)
    # a watchdog exit / sanitizer abort is attributed by flow.run_harness to the input line without output
    kinds = {}
    for l in lines:
        k = l.split(" ", 1)[0]
        kinds[k] = kinds.get(k, 0) + 1
    flow.fill_coverage(V, L, res, counts,
                       rule="structured: GivRandom seeds {1,2,M-2,M-1,M,M+1,2M,2^31,2^32±1,2^33,overflow threshold ±1,2^63,2^64-1,multiples of M, VERIF_SEED-derived} "
                            "(M = 2^31-1) x 24 draws from two generators + runs of 10^4..3*10^6 draws; every Integer range construction at bounds "
                            "{1,2,..,2^k-1,2^k,2^k+1 for k in 31..3000, limb-structured multi-limb} and bit sizes {1,2,31..33,63..65,127..129,..,1000,random} "
                            "x raw-draw patterns (every sequence over {real, minimum, maximum} of length <= 2 in quick, <= 3 plus selected longer ones in thorough), every destination pre-filled from {0,±1,2^64,-(2^130+12345),2^300+2^64+3,-2^63,2^1000-1}; "
                            "every ring type x modulus grid (min/maxCardinality() as reported by the running code and the values next to them) x 8 draw functions x sizes "
                            "{0,1,2,3,p/2,p-1,p,p+1,max}; polynomial degrees 0..100 (1000 thorough) over Modular<int32_t>, GFqDom<int32_t>, Modular<double>, ModularBalanced<int32_t>, Montgomery<int32_t>; QField<Rational> 4 forms x sizes {1,2,3,8,31..33,63..65,128,200} / bounds incl. multi-limb x 14 raw-draw substitution patterns; "
                            "three-argument RandIter constructors and copy assignment between iterators of different sampling sizes (fn 8, 9); GF2 x 7 draw functions; ZRing<int8..uint64,double> x {RandIter, GeneralRingRandIter sizes 0,1,2,3,100,127,255,..,2^31-1,2^40,2^63-1, nonzero iterator, random, nonzerorandom}; "
                            "Extension<Modular<int32_t>>(p in {2,3,5,101,32749,46337}, e in {1,2,3,5,8} (13, 24 thorough)) x 6 random forms x sizes {0,1,2,e-1,e,e+1,1000,-1,-7,2^63-1} / every b.size() <= e + RandIter sizes {0,1,2,p-1,p,p+1,1000003}; RecInt K = 6..10. distinct = distinct input lines; "
                            "non-trivial = not all arguments in {0,1}",
                       extra={"cases_by_kind": kinds})
    V.finish()


def key_of(line):
    t = line.split(" ")
    if t[0] in ("ring", "poly") and len(t) > 5:
        return "%s_T%s_fn%s" % (t[0], t[1], t[5])
    if t[0] == "ext" and len(t) > 4:
        return "ext_k%s" % t[4]
    return t[0]
