"""C12: primality tests and integer factorisation return correct, complete answers.

Proof: lean/GivaroModel/Props/C12.lean about the model lean/GivaroModel/Model/Primes.lean; the prime tables the
theorems speak about (IP, IP2 with their padding, LOGMAX*, TABMAX*, Primes16) are re-extracted from the working
tree on every run (translate/gen_primes.py), so a changed table entry re-checks `isprime_table_correct`.
Tie C: harness/h_primes.cpp calls the real code (exhaustively below 2^16+64, structured 64-bit and factorisation
inputs) and the compiled Lean driver (mode `primes`) evaluates model and checkers on every line.
"""
import json

from vlib import common, report, flow
from translate import gen_primes


def key_of(line):
    """violations are grouped per operation and input class (so that distinct defects get distinct replays)"""
    toks = line.split(" ")
    k = toks[0]
    arg = toks[1] if len(toks) > 1 else ""
    if line.endswith("= SIGNAL") or line.endswith("= TIMEOUT"):
        return k + "_noreturn"
    if arg.startswith("-") or arg == "0":
        return k + "_nonpositive"
    return k


def run(prop, tier, seed, replay=None):
    V = report.Verdict(prop, tier, seed, "proof")
    V.assumptions = [
        "mpz_probab_prime_p (n >= 2^16), Pollard rho and Lenstra ECM are oracles of the model: the theorems assume the stated contract "
        "(answers the primality question / returns a prime factor); every answer of the real code is certified per call by the verified checkers",
        "Lenstra's ECM arithmetic (Add_Curve, Mul_Curve, one_Mul_Curve) is an oracle too: executed and certified per call (divisor / failure value), never modelled; "
        "Miller / Lehmann / test_Lehmann are modelled as functions of the base they draw (Model/PrimesMR.lean, theorems for every base in Props/C12MR.lean); "
        "the draw itself (mpz_urandomm on GMP's global state) is not modelled: the harness seeds the library generator and recomputes the base with a GMP state of its own; "
        "Erathostene (sieve variant) is modelled with unbounded counters (Model/PrimesErat.lean; the C++ counters are int: the model is the code for n + 2*sqrt(n) < 2^31, "
        "and a read of Ip beyond the array - which needs an interval (i, 2i) without unmarked odd number - is 'unmarked' in the model); "
        "the text of write() is certified, not modelled (write's loop is compared with the model of set)",
        "Pollard() called directly on n with a prime factor below 100 can recurse without end (n = 4, 25: the rho iteration fails for every start): "
        "factor() never passes such n, the harness calls Pollard only on factor()'s domain",
        "the reference test above 2^20 is Miller-Rabin with the bases 2..37 (deterministic below 3.3e24; that fact is not proved in Lean); "
        "below 2^20 it is trial division, proved equivalent to Nat.Prime",
        "mpz_get_si / mpz_gcd / divmod contracts as in Prim/Gmp.lean; mpz_root by the explicit contract RootOK (floor of the k-th root; the driver's bisection "
        "is proved to meet it); the rho / ECM searches by the contracts RhoFull (loops = 0) and 'any positive divisor' (bounded loops): modelled, not verified",
    ]
    try:
        changed = gen_primes.main()
    except Exception as e:                                    # the tables cannot be extracted any more
        V.violation("tables", {"obligation": "extraction of IP/IP2/Primes16 from the working tree", "what": str(e)}, no_failing_input=True)
        changed = False
    if changed:
        V.note("prime tables re-extracted from %s (they differ from the committed extraction)" % common.REPO)
    L = flow.lean_stage(V, ["GivaroModel.Props.C12", "GivaroModel.Props.C12MR", "GivaroModel.Props.C12Erat", "GivaroModel.Props.C12Rho"], "GivaroModel/Props/C12.lean",
                        extra_theorem_files=["GivaroModel/Props/C12MR.lean", "GivaroModel/Props/C12Erat.lean", "GivaroModel/Props/C12Rho.lean"])
    bins = flow.build_harnesses("h_primes", configs=("S",))
    lines = None
    if replay:
        lines = [l.split(" = ")[0] for l in json.load(open(replay)).get("lines", []) if l]
    res = flow.correspond(bins, "primes", lines=lines, harness_args=[] if lines is not None else [tier, str(seed)],
                          timeout=7200 if tier == "thorough" else 1500)
    # second build of the same harness with -DGIVARO_LENSTRA: `factor` (hence `set`) routes through Lenstra's ECM instead of Pollard;
    # it emits only the factor-driven lines, under their own keys (factorL, setL)
    try:
        binsL = flow.build_harnesses("h_primes", configs=("S",), extra=["-DGIVARO_LENSTRA"])
        linesL = None if lines is None else [l for l in lines if l.split(" ")[0] in ("factorL", "setL")]
        if linesL is None or linesL:
            resL = flow.correspond(binsL, "primes", lines=linesL, harness_args=[] if linesL is not None else [tier, str(seed)],
                                   timeout=7200 if tier == "thorough" else 1500)
            res["results"] += [(v, l, "S+LENSTRA") for v, l, _ in resL["results"]]
            res["crashes"] += resL["crashes"]
        if lines is not None:      # a replay file of the plain build must not re-run the Lenstra-build lines there
            res["results"] = [(v, l, c) for v, l, c in res["results"] if c == "S+LENSTRA" or l.split(" ")[0] not in ("factorL", "setL")]
    except common.BuildError as e:
        V.note("the -DGIVARO_LENSTRA build of the harness does not compile: %s" % str(e)[-400:])
    counts = flow.decide(V, res, known=report.findings_for(prop), key_of=key_of)
    keys = {}
    for _, l, _ in res["results"]:
        k = l.split(" ", 1)[0]
        keys[k] = keys.get(k, 0) + 1
    flow.fill_coverage(V, L, res, counts,
                       rule="isprime/nextprime/prevprime: every n in [-70, 2^16+64) plus a 64-bit grid (2^k +- 40, strong pseudoprimes, Carmichael "
                            "numbers, p*q near 2^32/2^64, random); factorisation: every n in [-40, 2500) (thorough 20000), products of small primes "
                            "with multiplicity, semiprimes, prime powers, negatives, each through set, set(Lf,n), factor, iffactorprime, primefactor, divisors and (sub-sampled) "
"set with loops in {1,2,3,7,40,5000}, and (sub-sampled) with PRE-FILLED output containers (result for another m plus junk: divinto, setinto, "
                            "set1into, eratinto, writeinto; divisors also with the output list aliasing the factor list); isprimepower: every n in [-300, 70000) and p^e grids; "
                            "Miller / test_Lehmann / Lehmann with the generator seeded and the base recomputed (millers, lehmanns): every n in [-3, 200) (thorough 600) with so many seeds that "
                            "every base is drawn for n < 40, strong pseudoprimes / Carmichael numbers x 24 seeds, the 64-bit grid; Pollard seeded (pollards: start values recomputed, "
                            "bounds {0,1,2,3,4,5,9,17,100,10^5}, every product of two primes of 101..199); factor / iffactorprime with explicit loops; the sieve on [-30, 6000) (thorough 30000) "
                            "and on squares / cubes / products of primes up to 4*10^6, 2^k * odd; "
                            "distinct = distinct (operation, argument); non-trivial = argument outside {0,1}",
                       extra={"lines_per_operation": keys})
    V.finish()
