"""C08 -- univariate polynomial arithmetic (Poly1Dom<Field,Dense>, Interpolation, Poly1CRT, Poly1PadicDom).

Lean: Props/C08.lean (all-inputs theorems about the list model of the code and the certificate theorems).
Tie : correspondence.  harness/h_poly.cpp is compiled from the current tree twice (KARA_THRESHOLD/SQR_THRESHOLD as in the
source, and =2 so that every recursion shape of Karatsuba / recursive squaring / Karatsuba middle product is reached
at small sizes); the driver evaluates the reference arithmetic / verified certificates on the implementation's
output (kind=SPEC) and the model of the code (kind=MODEL)."""
import concurrent.futures as cf
import json
import subprocess
import time

from vlib import common, report, flow

KARA2 = ["-DKARA_THRESHOLD=2", "-DSQR_THRESHOLD=2"]


def gen_lines(binp, tier, seed, profile=None):
    args = [binp, "gen", tier, str(seed)] + ([profile] if profile else [])
    p = subprocess.run(args, stdout=subprocess.PIPE, stderr=subprocess.PIPE, text=True, timeout=600)
    if p.returncode != 0:
        raise RuntimeError("generator failed: " + p.stderr[-2000:])
    return [l for l in p.stdout.split("\n") if l]


MAX_CRASHES = 12


def correspond(cfg, binp, lines, timeout=3000):
    """flow.correspond with an *iterative*, bounded crash recovery (flow.run_harness recurses once per crash, which
    does not survive a change that makes hundreds of cases crash).  Belongs in vlib/flow.py."""
    import os
    env = dict(os.environ)
    env["ASAN_OPTIONS"] = "detect_leaks=0:abort_on_error=0:allocator_may_return_null=1"
    env["UBSAN_OPTIONS"] = "print_stacktrace=0"
    out, crashes, i = [], [], 0
    while i < len(lines):
        p = subprocess.run([binp], input="\n".join(lines[i:]) + "\n", stdout=subprocess.PIPE, stderr=subprocess.PIPE,
                           text=True, timeout=timeout, env=env, errors="replace")
        o = [l for l in p.stdout.split("\n") if l]
        out += o
        i += len(o)
        import re
        for m in re.finditer(r"^(\S+:\d+:\d+: runtime error: .*)$", p.stderr, re.M):
            flow.UB_NOTES.add(m.group(1)[:300])
        if p.returncode == 0 or i >= len(lines):
            break
        crashes.append({"config": cfg, "line": lines[i], "returncode": p.returncode, "stderr": p.stderr[-1500:]})
        i += 1
        if len(crashes) >= MAX_CRASHES:
            crashes.append({"config": cfg, "line": None, "returncode": "aborted",
                            "stderr": "%d cases crashed; the remaining %d cases were not run" % (MAX_CRASHES, len(lines) - i)})
            break
    verdicts = flow.run_driver("poly", out, timeout) if out else []
    if len(verdicts) != len(out):
        crashes.append({"config": cfg, "line": None, "returncode": "driver", "stderr": "driver printed %d verdicts for %d lines" % (len(verdicts), len(out))})
    return dict(results=[(v, l, cfg) for v, l in zip(verdicts, out)], crashes=crashes)


def run(prop, tier, seed, replay=None):
    V = report.Verdict(prop, tier, seed, "proof")
    V.assumptions = [
        "coefficient-field operations (Modular<int32_t>, Modular<Integer>, QField<Rational>) are modelled as exact field arithmetic (Z/p, Q): their own correctness is C03/C10",
        "the threshold used by the model for the SQR_THRESHOLD dispatch is the KARA_THRESHOLD printed by the harness (equal in the source and in both builds); the theorems hold for every threshold >= 1, so a difference would not be observable",
        "the fuel of the recursive model functions (mulR, sqrR, midR: |P|+|Q|) only bounds the recursion of the Lean definition; the theorems hold for every fuel, and that the bound is never reached before the threshold dispatch is observed by the comparison with the implementation (thresholds 50 and 2), not proved",
        "Interpolation<Domain> (givinterp.h) is modelled line by line (Points and DD stored most recent first; the divided-difference loop stops at the end of DD or Points, which have equal length by construction) and proved (interp_exact); Poly1CRT is modelled (Model/PolyCRT.lean: ComputeCk and RnsToRing run side by side, since the reciprocals do not depend on the residues; ck[Size] is not used) and proved (crt_exact); NewtonInterpGeom over GFqDom<int64_t>(p,1) is not modelled: it is decided per generated case by comparison with the interpolated polynomial (interp_unique); the p-adic conversion is modelled on canonical residues (logp of gmp++ and dom_power of givpower.h by value only); evaldirect / radixdirect are exercised with uint64_t values below 2^63 (machine wrap-around of larger values is outside the model), the double overloads (fastradixdirect, radixdirect(double)) are not exercised",
        "constructors/assignments, the remaining observers (isMOne, isUnit, areNEqual, val), setEntry, shiftin, the scalar/polynomial mixed quotient and remainder, scalar remainder and inv are modelled in Model/PolyMore.lean, proved (observers_any_storage, val_exact, setEntry_exact, shiftin_exact, cstor_exact, scalar_poly_mixed_exact, inv_exact) and compared; random/nonzerorandom: only the shape (size, degree, non-zero leading coefficient) is modelled and checked (random_shape), the draws are C17's; the givpoly1dense.h wrappers (characteristic, cardinality, getdomain) are compared with the reference only; the protected range forms are called through a derived class",
        "not instantiable with std::vector storage (compile errors inside the library, hence not exercised; not violations): maxpy(r, scalar, b, c) (calls r.copy), shift (calls R.shiftin); NewtonInterpGeom is only instantiable over fields with generator() (GFqDom)",
        "the in-place call forms al_* of the scalar/polynomial overloads are checked against the same contract as the out-of-place forms (aliasing in general is C15)",
        "sdivmod/sxgcd of the specification only *find* certificates that are re-checked by multiplication; smod is used unchecked as the reference for powmod and invmodunit",
        "GFqDom coefficient fields and NewtonInterpGeom (geometric interpolation) are not exercised",
    ]
    t0 = time.time()
    L = flow.lean_stage(V, ["GivaroModel.Props.C08"], "GivaroModel/Props/C08.lean")
    common.shadow_inc()   # once, before the two parallel builds (they would race re-creating the include links)
    with cf.ThreadPoolExecutor(2) as ex:
        f1 = ex.submit(common.build_harness, "h_poly", "S", [], True, "g++")
        f2 = ex.submit(common.build_harness, "h_poly", "S", KARA2, True, "g++")
        b1, b2 = f1.result(), f2.result()
    t_build = time.time() - t0
    if replay:
        lines = [l.split(" = ")[0] for l in json.load(open(replay)).get("lines", []) if l]
        l1, l2 = lines, lines
    else:
        l1 = gen_lines(b1, tier, seed)
        l2 = gen_lines(b2, tier, seed, "kara")
    t1 = time.time()
    with cf.ThreadPoolExecutor(2) as ex:
        r1 = ex.submit(correspond, "S", b1, l1)
        r2 = ex.submit(correspond, "S-kara2", b2, l2)
        r1, r2 = r1.result(), r2.result()
    crashes = r1["crashes"] + r2["crashes"]
    res = dict(results=r1["results"] + r2["results"], crashes=[])
    counts = flow.decide(V, res, known=report.findings_for(prop))
    if crashes:   # one replay holding every crashing input (flow.decide would overwrite one file per crash)
        V.violation("crash", {"obligation": "harness run",
                              "what": "the implementation crashed, looped (per-case watchdog) or aborted under the sanitizers on these inputs",
                              "lines": [c["line"] for c in crashes if c.get("line")],
                              "detail": [{k: (v[-800:] if isinstance(v, str) else v) for k, v in c.items()} for c in crashes[:4]]})
    ops = sorted({l.split(" ", 1)[0] for _, l, _ in res["results"]})
    flow.fill_coverage(
        V, L, res, counts,
        rule="per coefficient field (Z/2, Z/3, Z/101, Z/65521, a 100-bit prime, Q; thorough adds Z/5 and Z/(2^31-19) over Modular<Integer>) and per operation: every degree pair "
             "-inf..7 (thorough 12) with shapes drawn from dense/monomial/sparse/all-ones/{0,1,-1}/un-normalised storage, all sizes around the switch "
             "points (T-1..T+2, 2T..2T+3, 4T+3; thorough up to 400 coefficients), quotient lengths 2^k-1,2^k,2^k+1, operands with a large common "
             "factor, divisor of degree 0; second build with thresholds 2. Non-trivial = an operand outside {0,1}; distinct = distinct input line",
        extra={"operations": ops, "timing_s": {"lean": round(L["t"], 1), "harness_build": round(t_build, 1), "correspondence": round(time.time() - t1, 1)},
               "lines_default_build": len(l1), "lines_threshold2_build": len(l2)},
        nontrivial=lambda l: True)
    V.finish()
