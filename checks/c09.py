"""C09: polynomial factorisation, irreducibility and primitivity decisions over GF(q).

Tie C (correspondence): harness/h_polyfactor.cpp calls the real Poly1FactorDom code (Modular<int32_t> and
GFqDom<int64_t> coefficients) on every polynomial of small degree over small fields and on structured larger inputs;
the Lean driver decides every answer with the verified oracle / certificate checkers and compares the determined
outputs with the model of the code.
"""
import json
import re

from vlib import common, report, flow

# -fpermissive: is_irreducible2 / order use unqualified names of the dependent base class and are rejected by a
# conforming compiler on the unrepaired tree (fixes/C09_3 repairs that); the flag lets the same harness build on both.
EXTRA = ("-fpermissive", "-w")


def classify_known(entry, line, verdict):
    m = entry.get("match")
    v = entry.get("verdict_match")
    if m and re.search(m, line) is None:
        return False
    if v and re.search(v, verdict) is None:
        return False
    return bool(m or v)


def run(prop, tier, seed, replay=None):
    V = report.Verdict(prop, tier, seed, "proof")
    V.assumptions = [
        "Poly1Dom arithmetic (mul, divmod, mod, gcd remainder sequence, powmod, diff) is modelled as exact list-polynomial arithmetic (its own correctness is C08's); "
        "GFqDom / Modular coefficient arithmetic is modelled as GF(p^k) = F_p[x]/(irreducible() reported by the running code) (C03/C05)",
        "IntFactorDom::set (prime divisors of q^n - 1 and of n) is modelled by trial division (C12); for q^n >= 2^64 the distinct primes of q^n - 1 are supplied by the harness "
        "(hard-coded) and accepted by the driver only after each is verified prime by trial division and they factor q^n - 1 completely",
        "random choices (SplitFactor, find_irred_randomial, give_random_prim_root) are not reproduced: their outputs are decided by the certificate checkers only; "
        "termination of the random searches is probabilistic and not a theorem",
        "the theorems about the oracle, the checkers and the model of is_irreducible (bruteIrreducible_correct, factor_list_checker_decides, sqrfree_checker_sound, "
        "is_irreducible_model_correct) are stated for the coefficient record fieldOps K of a Mathlib field; the driver runs the same polymorphic functions on the records "
        "fpOps p / fqOps p k irr (residues 0..p-1, p-adic codes): that these are the operations of ZMod p / GF(p^k) read through val is not proved",
        "is_irreducible2, sqrfree (beyond separable inputs), order, is_prim_root: the refinement of their list models to the proved Mathlib-level criteria is not proved (correspondence only)",
    ]
    L = flow.lean_stage(V, ["GivaroModel.Props.C09"], "GivaroModel/Props/C09.lean")
    cfgs = ("S", "R") if tier == "thorough" else ("S",)
    bins = flow.build_harnesses("h_polyfactor", configs=cfgs, extra=EXTRA)
    lines = None
    if replay:
        with open(replay) as fh:
            lines = [l.split(" = ")[0] for l in json.load(fh).get("lines", []) if l]
    if tier == "thorough" and not replay:
        # exhaustive spaces once, under the sanitizers; the repository's own flags (R) on the quick generator
        res = flow.correspond({"S": bins["S"]}, "polyfactor", lines=None, harness_args=[tier, str(seed)], timeout=3000)
        resR = flow.correspond({"R": bins["R"]}, "polyfactor", lines=None, harness_args=["quick", str(seed)], timeout=1500)
        res = dict(results=res["results"] + resR["results"], crashes=res["crashes"] + resR["crashes"])
    else:
        res = flow.correspond(bins, "polyfactor", lines=lines, harness_args=[tier, str(seed)], timeout=1500)
    counts = flow.decide(V, res, known=report.findings_for(prop), classify_known=classify_known,
                         key_of=lambda line: " ".join(line.split(" ", 2)[:1]))
    ops = {}
    for _, l, _ in res["results"]:
        k = l.split(" ", 1)[0]
        ops[k] = ops.get(k, 0) + 1
    flow.fill_coverage(V, L, res, counts,
                       rule="every coefficient vector of degree <= d (all leading coefficients) and every monic one of degree d+1 over 18 (domain, field) "
                            "configurations through is_irreducible, is_irreducible2, CZfactor, sqrfree; products of equal-degree irreducibles, multiplicities "
                            "1,2,3,p,p+1,2p,p^2, degrees divisible by p, P(X^p), X^p-a, X^(q^j)-X, X^n-1; order/is_prim_root on every residue modulo "
                            "irreducible moduli with q^n small and sampled beyond; every search for degrees 1..12; products of k distinct irreducibles of equal degree d, "
                            "k*d in {4,8,9,12,16,18}; the MOD-taking overloads and factor(factors,exp,P); two factorisations accumulated into the same lists; "
                            "big fields q^n in [2^64, 2^128] over Modular<int64_t>, Modular<Integer>, GFqDom (GF(2)^65/67/128, GF(65537)^4, GF(2^31-1)^3, GF(4)^33, GF(3)^41, ...): "
                            "moduli found by the library, primitive element found by the library, elements of known order g^(N/r), g^r; the primes of q^n-1 travel with the line "
                            "and are re-verified by the driver (trial division, complete factorisation); distinct = distinct (op, field, input)",
                       extra={"per_operation": ops},
                       nontrivial=lambda l: True)
    V.finish()
