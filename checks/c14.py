"""C14 — Chinese remaindering and residue number systems reconstruct the unique integer.

Proof: lean/GivaroModel/Props/C14.lean — all-inputs theorems about the executable model (Model/CRT.lean) of IntRNSsystem,
RNSsystem<RING,Domain>, the ChineseRemainder functor and Poly1CRT: digits, uniqueness, both round trips, the value is Mathlib's
`Nat.chineseRemainderOfList`, the cache invariant lifted over operation lists of any length on any number of objects.
Tie T (translation): translate/gen_smf.py regenerates Generated/SMF.lean (which data member every copy/move operation of every
CRT/RNS class copies from which) from the clang AST on every run; Props/C14SMF.lean is a kernel evaluation over the whole table.
Tie C (correspondence): harness/h_crt.cpp calls the real classes in-process over 14 residue domains on structured moduli lists,
exhaustively enumerated single-object histories and sampled programs over several objects; lean/Driver/CRT.lean evaluates model
and specification on every line.
"""
import json
import time

from vlib import common, report, flow
from translate import gen_smf

SMF_MODULE = "GivaroModel.Props.C14SMF"
SMF_FILE = "GivaroModel/Props/C14SMF.lean"
STATE_MEMBERS = {"IntRNSsystem": ["_primes", "_prod", "_ck"], "RNSsystem": ["_primes", "_ck"], "RNSsystemFixed": ["_primes", "_RNS"],
                 "ChineseRemainder": ["_domain", "C_12"], "Poly1CRT": ["_F", "_PolRing", "_primes", "_ck"], "Array0": ["_size", "_d"]}
COPY_LETTERS = set("CKABbVcka")


def smf_broken_rows(table):
    """the rows of the generated table that falsify Props/C14SMF.smf_complete (same predicate, for the report)"""
    bad = []
    for t in table:
        for o in t["ops"]:
            if o["how"] in ("absent", "deleted", "implicit-unused-or-deleted"):
                continue
            for f in STATE_MEMBERS.get(t["cls"], []):
                src = o["per"].get(f, [])
                if t["cls"] == "Array0" and o["how"] == "user":
                    ok = f in src and f in o["writes"]
                else:
                    ok = src == [f]
                if not ok or o["how"] not in ("user", "implicit"):
                    bad.append("%s %s (%s): %s <- %s" % (t["inst"], o["op"], o["how"], f, src))
    return bad


def smf_stage(V, L):
    """tie T: regenerate Generated/SMF.lean from the clang AST, re-check the table theorems.  Returns (ok, broken rows)."""
    table, err = [], None
    try:
        table = gen_smf.extract()
        gen_smf.emit(table)
    except Exception as e:           # the translation unit no longer compiles / clang missing
        err = str(e)[-3000:]
    if err is not None:
        return False, ["special-member-function extraction failed: " + err], table
    ok, out, t = common.lake_build([SMF_MODULE])
    thms = common.theorems_in(SMF_FILE)
    L["theorems"] += thms
    L["t"] += t
    bad = smf_broken_rows(table)
    if ok:
        axs, _missing, _txt = common.print_axioms(SMF_MODULE, thms)
        good = [n for n in thms if axs.get(n) is not None and not (axs[n] - common.ALLOWED_AXIOMS)]
        L["proved"] += len(good)
        if len(good) != len(thms):
            L["audit_ok"] = False
            V.violation("audit_axioms_smf", {"obligation": "axioms of the SMF table theorems", "theorems": sorted(set(thms) - set(good))},
                        no_failing_input=True)
    else:
        errs = ["%s:%s %s" % (f, ln, msg[:200]) for f, ln, col, msg in common.lean_errors(out)]
        bad = bad or errs or [out[-1500:]]
    return ok, bad, table


def run(prop, tier, seed, replay=None):
    V = report.Verdict(prop, tier, seed, "proof")
    V.assumptions = [
        "the operations of a residue domain (Modular<T>, Montgomery<int32_t>, GFqDom<int32_t>, Modular<Log16>) on canonical elements are exact "
        "arithmetic modulo p and init/convert are the canonical maps (that is properties C03/C04/C05/C07); the model writes them as `% p` "
        "and the correspondence checks the composite on every domain",
        "mpz_gcdext and Domain::inv are modelled by their contract only: `cof p x` is *some* inverse of x mod p whenever one exists "
        "(theorems quantify over every such function; the driver runs extended Euclid, proved to satisfy the contract)",
        "Integer arithmetic (mulin/addin/sub/mod = mpz_mod) is exact (C01/C02)",
        "RNSsystemFixed: Integer::inv = mpz_invert is modelled by the same cofactor contract reduced into [0,p) (the canonical inverse); "
        "its size() and ith() are modelled as the code behaves (number of levels / the overwritten slot), which is not what the header "
        "comments say; the property does not speak about them",
        "ChineseRemainder over Montgomery<int32_t>, GFqDom<int32_t>, Modular<Log16>: the theorem is for every domain meeting the "
        "init/convert/sub/inv contract (DomOK); that these three classes meet it is C04/C05/C07, and the correspondence checks the composite",
        "Poly1CRT: Poly1Dom::eval/mulin/mul/axpyin are modelled as exact polynomial arithmetic over Z/p on coefficient lists (C08); "
        "the field is Z/p with p prime (extension fields are not modelled)",
        "the special-member-function table is a syntactic reading of clang's AST (member initialisers and assignment statements of the "
        "instantiated / implicitly defined special members, closed under calls to member functions of the same class; the standard "
        "copying primitives std::copy/copy_n/uninitialized_copy/move/memcpy/…, container assign/operator= and range constructors are read as "
        "'reads the source range, writes the destination range'); what the copy "
        "of a *member's own type* does (std::vector, Integer, Array0 deep copy, the domain classes) is C16/C17's subject",
        "Array0 storage management inside RNSsystem is abstracted to value semantics (C17); the histories exercise it under ASan",
    ]
    L = flow.lean_stage(V, ["GivaroModel.Props.C14"], "GivaroModel/Props/C14.lean")
    smf_ok, smf_bad, smf_table = smf_stage(V, L)
    t0 = time.time()
    bins = flow.build_harnesses("h_crt", configs=("S",))
    t_build = time.time() - t0
    lines = None
    if replay:
        lines = [l.split(" = ")[0] for l in json.load(open(replay)).get("lines", []) if l]
    t0 = time.time()
    res = flow.correspond(bins, "crt", lines=lines, harness_args=([] if lines is not None else [tier, str(seed)]), timeout=3000)
    t_corr = time.time() - t0
    counts = flow.decide(V, res, known=report.findings_for(prop))
    if not smf_ok:
        # the table theorem broke: the histories above are the search for a concrete copy-then-use history that differs
        witnesses = [l for v, l, _ in res["results"] if v.startswith("DIFF") and ("kind=SPEC" in v or "kind=BOTH" in v)
                     and len(l.split(" ")) > 1 and (set(l.split(" ")[1]) & COPY_LETTERS)]
        witnesses.sort(key=len)
        V.violation("smf", {"obligation": "Givaro.Props.C14SMF.smf_complete (generated special-member-function table)",
                            "what": "a copy operation of a CRT/RNS class does not copy a member of the model's state from the same member",
                            "rows": smf_bad[:40], "lines": witnesses[:5]}, no_failing_input=not witnesses)

    # coverage bookkeeping: families, domains, histories, list lengths actually exercised
    fam, hists, lens = {}, set(), {}
    for _, l, _ in res["results"]:
        toks = l.split(" ")
        fam[toks[0]] = fam.get(toks[0], 0) + 1
        if len(toks) > 2:
            hists.add((toks[0].split(".")[0], toks[1]))
            if toks[0] in ("irns", "mirns", "fixed") or toks[0].startswith("rns.") or toks[0].startswith("mrns."):
                try:
                    n = int(toks[2], 16)
                    lens[n] = lens.get(n, 0) + 1
                except ValueError:
                    pass

    def nontrivial(l):
        toks = l.split(" = ")[0].split(" ")
        if toks[0] in ("irns", "mirns", "fixed") or toks[0].startswith("rns.") or toks[0].startswith("mrns."):
            try:
                return int(toks[2], 16) >= 2 or len(toks[1]) >= 2
            except ValueError:
                return False
        return any(t not in ("0", "1") for t in toks[2:])

    flow.fill_coverage(
        V, L, res, counts,
        rule="moduli lists of length 1..40 (sorted, reversed, shuffled) drawn just below maxCardinality() as reported by the running code, at the "
             "minimum, around max/2, random, around 2^32 and 2^64 and up to 200 bits; residues 0, p-1, 1, p/2, random; integers 0, M-1, M, -1, "
             "negative and beyond M^2; histories over {construct, template-construct, default+setPrimes, start on other primes then "
             "setPrimes/assign, convert, Reciprocals, product, copy-construct, copy-and-drop, assign to fresh, assign over another system with or "
             "without stale caches} enumerated exhaustively up to 2 (quick) / 3 (thorough) operations after the start and sampled up to 12; "
             "programs of 2..24 operations over four objects (construct, default, copy-construct from another object, assign incl. self, "
             "setPrimes, conversions, Reciprocals, product) sampled; Poly1CRT in both directions (residues -> polynomial, polynomial of degree "
             "< n, = n, > n and un-normalised -> residues -> polynomial); "
             "distinct = distinct input line; non-trivial = at least two moduli or a history of at least two operations",
        nontrivial=nontrivial,
        extra={"lines_per_family": dict(sorted(fam.items())), "distinct_histories": len(hists),
               "smf_table": {"class_instantiations": len(smf_table), "rows": sum(len(t["fields"]) * len(t["ops"]) for t in smf_table),
                             "theorem_ok": bool(smf_ok), "broken_rows": smf_bad[:10]},
               "list_length_histogram": dict(sorted(lens.items())),
               "timing_s": {"lean": round(L["t"], 1), "harness_build": round(t_build, 1), "correspondence": round(t_corr, 1)}})
    V.finish()
