"""C14 — Chinese remaindering and residue number systems reconstruct the unique integer.

Proof: lean/GivaroModel/Props/C14.lean (all-inputs theorems about the executable model of IntRNSsystem,
RNSsystem<RING,Domain> and the ChineseRemainder functor, quantified over every history of the system object).
Tie C (correspondence): harness/h_crt.cpp calls the real classes in-process over every residue domain used by the
library's own CRT test plus the floating-point and 8-bit ones, on structured moduli lists and exhaustively enumerated
histories; lean/Driver/CRT.lean evaluates model and specification on every line.
"""
import json
import time

from vlib import common, report, flow


def run(prop, tier, seed, replay=None):
    V = report.Verdict(prop, tier, seed, "proof")
    V.assumptions = [
        "the operations of a residue domain (Modular<T>, Montgomery<int32_t>, GFqDom<int32_t>, Modular<Log16>) on canonical elements are exact "
        "arithmetic modulo p and init/convert are the canonical maps (that is properties C03/C04/C05/C07); the model writes them as `% p` "
        "and the correspondence checks the composite on every domain",
        "mpz_gcdext and Domain::inv are modelled by their contract only: `cof p x` is *some* inverse of x mod p whenever one exists "
        "(theorems quantify over every such function; the driver runs extended Euclid, proved to satisfy the contract)",
        "Integer arithmetic (mulin/addin/sub/mod = mpz_mod) is exact (C01/C02)",
        "RNSsystemFixed (tree recombination) and Poly1CRT are tied by differential execution against the specification checker and the "
        "(proved) Garner model / the Newton-interpolation model, but have no all-inputs theorem of their own",
        "Array0 storage management inside RNSsystem is abstracted to value semantics (C17); the histories exercise it under ASan",
    ]
    L = flow.lean_stage(V, ["GivaroModel.Props.C14"], "GivaroModel/Props/C14.lean")
    t0 = time.time()
    bins = flow.build_harnesses("h_crt", configs=("S",))
    t_build = time.time() - t0
    lines = None
    if replay:
        lines = [l.split(" = ")[0] for l in json.load(open(replay)).get("lines", []) if l]
    t0 = time.time()
    res = flow.correspond(bins, "crt", lines=lines, harness_args=([] if lines is not None else [tier, str(seed)]), timeout=3000)
    t_corr = time.time() - t0
    counts = flow.decide(V, res, known=report.findings_for(prop))

    # coverage bookkeeping: families, domains, histories, list lengths actually exercised
    fam, hists, lens = {}, set(), {}
    for _, l, _ in res["results"]:
        toks = l.split(" ")
        fam[toks[0]] = fam.get(toks[0], 0) + 1
        if len(toks) > 2:
            hists.add((toks[0].split(".")[0], toks[1]))
            if toks[0] == "irns" or toks[0].startswith("rns.") or toks[0] == "fixed":
                try:
                    n = int(toks[2], 16)
                    lens[n] = lens.get(n, 0) + 1
                except ValueError:
                    pass

    def nontrivial(l):
        toks = l.split(" = ")[0].split(" ")
        if toks[0] == "irns" or toks[0].startswith("rns.") or toks[0] == "fixed":
            try:
                return int(toks[2], 16) >= 2 or len(toks[1]) >= 2
            except ValueError:
                return False
        return any(t not in ("0", "1") for t in toks[2:])

    flow.fill_coverage(
        V, L, res, counts,
        rule="moduli lists of length 1..40 (sorted, reversed, shuffled) drawn just below maxCardinality() as reported by the running code, at the "
             "minimum, around max/2, random, around 2^32 and 2^64 and up to 200 bits; residues 0, p-1, 1, p/2, random; integers 0, M-1, M, -1, "
             "negative and beyond M^2; histories over {construct, template-construct, default+setPrimes, start on other primes then "
             "setPrimes/assign, convert, Reciprocals, product, copy-construct, copy-and-drop, assign to fresh, assign over another system with or "
             "without stale caches} enumerated exhaustively up to 2 (quick) / 3 (thorough) operations after the start and sampled up to 12; "
             "distinct = distinct input line; non-trivial = at least two moduli or a history of at least two operations",
        nontrivial=nontrivial,
        extra={"lines_per_family": dict(sorted(fam.items())), "distinct_histories": len(hists),
               "list_length_histogram": dict(sorted(lens.items())),
               "timing_s": {"lean": round(L["t"], 1), "harness_build": round(t_build, 1), "correspondence": round(t_corr, 1)}})
    V.finish()
