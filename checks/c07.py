"""C07: Montgomery-form residue arithmetic is indistinguishable from plain residues.

Proof: lean/GivaroModel/Props/C07.lean (theorems about Model/Montgomery.lean, a branch-by-branch transcription of
montgomery-int32.{h,inl}, montgomery-ruint.{h,inl} and recint/rmg*.h, rmb*.h, rmadd.h, rmsub.h, rmdiv.h).
Tie C (correspondence): harness/h_montgomery.cpp calls the real code in-process (configurations S and R) and the
Lean driver (mode `montgomery`) evaluates model and plain-residue specification on every line.
"""
import concurrent.futures as cf
import json
import time

from vlib import common, report, flow

PARTS = ("m32", "rec")


def correspond_parallel(bins, tier, seed, lines=None):
    """flow.correspond, with the (configuration, part) jobs run concurrently (at most 4)."""
    jobs = []
    if lines is not None:
        jobs = [(cfg, binp, ["replay"], lines) for cfg, binp in bins.items()]
    else:
        for cfg, binp in bins.items():
            for part in PARTS:
                # K = 10 (1024-bit) under ASan/UBSan alone takes several minutes: in the thorough tier it runs in configuration R only
                if part == "rec" and cfg == "S" and tier == "thorough":
                    part = "rec9"
                jobs.append((cfg, binp, [tier, str(seed), part], None))

    def one(job):
        cfg, binp, args, ls = job
        hout, crash = flow.run_harness(binp, ls, args, timeout=3000)
        verdicts = flow.run_driver("montgomery", hout, 3000) if hout else []
        return cfg, args, hout, crash, verdicts

    results, crashes = [], []
    with cf.ThreadPoolExecutor(4) as ex:
        for cfg, args, hout, crash, verdicts in ex.map(one, jobs):
            if crash is not None:
                crash["config"] = cfg
                crash["args"] = args
                # self-generating harness: the case that crashed is the one after the last printed line
                crash.setdefault("line", None)
                crashes.append(crash)
            if len(verdicts) != len(hout):
                crashes.append({"config": cfg, "line": None, "returncode": "driver",
                                "stderr": "driver printed %d verdicts for %d lines" % (len(verdicts), len(hout))})
            for v, l in zip(verdicts, hout):
                results.append((v, l, cfg))
    return dict(results=results, crashes=crashes)


def run(prop, tier, seed, replay=None):
    V = report.Verdict(prop, tier, seed, "proof")
    V.assumptions = [
        "the ruint<K> primitives called by the RecInt Montgomery code (mul, lmul, lsquare, laddmul, add/sub with carry, cmp, div, "
        "mod_n, unary minus) are modelled by their arithmetic contracts modulo 2^(2^K) (they are the subject of C06); validated "
        "by the correspondence on every run",
        "uint32_t arithmetic is Int with wrapU32 after every C++ operation; `x & 0xFFFF` / `x >> 16` on an unsigned word are "
        "`x % 65536` / `x / 65536`",
        "histories of operations are executed by the driver on a 5-register machine that calls the same model functions the "
        "expression-language theorems (mg32_history_exact, mgR_history_exact) speak about; the destination of a non-in-place call "
        "is never aliased with a source (alias safety is C15)",
        "g++ compiles the transcribed C++ as read (cross-validated in two configurations: -O1 ASan/UBSan and the repository's -O2 -march=native)",
    ]
    L = flow.lean_stage(V, ["GivaroModel.Props.C07"], "GivaroModel/Props/C07.lean")
    t0 = time.time()
    common.shadow_inc()          # re-point the shadow include tree once, before the two concurrent builds
    bins = flow.build_harnesses("h_montgomery", configs=("S", "R"))
    t_build = time.time() - t0
    lines = None
    if replay:
        with open(replay) as fh:
            lines = [l.split(" = ")[0] for l in json.load(fh).get("lines", []) if l]
    t0 = time.time()
    res = correspond_parallel(bins, tier, seed, lines=lines or None)
    t_corr = time.time() - t0
    counts = flow.decide(V, res, known=report.findings_for(prop))
    by_key = {}
    for v, l, cfg in res["results"]:
        k = l.split(" ", 1)[0]
        by_key[k] = by_key.get(k, 0) + 1
    moduli32 = {l.split(" ")[1] for v, l, c in res["results"] if l.startswith("m32k ")}
    moduliR = {tuple(l.split(" ")[1:3]) for v, l, c in res["results"] if l.startswith("mrk ") or l.startswith("rmk ")}

    def nontrivial(l):
        toks = l.split(" = ")[0].split(" ")
        ops = toks[2:] if toks[0].startswith("m32") else toks[3:]
        return any(t not in ("0", "1") for t in ops) or toks[0] in ("m32k", "mrk", "rmk")

    flow.fill_coverage(
        V, L, res, counts,
        rule="32-bit ring: EVERY odd modulus 3 … maxCardinality() (as reported by the running code) with constants, raw reductions "
             "(0, 1, p±1, 2^16±1, (p-1)^2 and neighbours, random), residue triples over the corner set {0,1,2,p-2,p-1,⌊p/2⌋,⌊p/2⌋+1} "
             "and random ones (all triples for tiny p, all corner triples at the edge moduli), units for inv/div, init/convert; "
             "RecInt K = 6…9 (10 in thorough, configuration R): moduli of every bit length 2 … 2^K (all lengths for K = 6, and for K = 7 in thorough; limb-boundary "
             "lengths ±1 and 10 (thorough: 60) random lengths otherwise) in the shapes 2^L-1, 2^(L-1)+1, random, top-limb-all-ones, limb-structured; residues corner set + "
             "limb-structured; exponents {0,1,2,p-2,p-1,2^(2^K)-1,2^(2^K-1),2^64,…}; Montgomery and non-Montgomery rmint on the same "
             "inputs; built-in scalars of both signs; sources FAR OUTSIDE [0,p) for every construction / assignment / conversion path (every magnitude class 0, p-1, p, p+1, 2p-1, 2p, 2p+1, k*p-1, k*p, k*p+1 for the largest and a random k, top, top/2 of: ruint<K> words, the same words read as rint<K> (both signs, the minimum), the eight machine integer types with their minima and maxima, integer-valued doubles, big integers beyond the radix of both signs) for small, medium and maximal moduli, both rmint variants against each other and against c mod p; == with scalars outside [0,p); random histories (3 … 40 steps over 14 operations on 5 registers, sources may coincide).  distinct = distinct (key, arguments); non-trivial = some operand outside {0,1}",
        extra={"lines_by_key": by_key, "moduli_32bit": len(moduli32), "moduli_recint": len(moduliR),
               "configs": sorted(bins), "timing_s": {"lean": round(L["t"], 1), "harness_build": round(t_build, 1),
                                                      "correspondence": round(t_corr, 1)}},
        nontrivial=nontrivial)
    V.finish()
