"""C15, part 2 — the ring / field / rational / polynomial interfaces and RecInt (everything but the gmp++ Integer layer).

Two ties, cross-checked on every run:

 (T) translate/aliasfp.py regenerates `Generated/AliasTable.lean` (+ AliasTasks*, AliasSafe*) from the clang AST of the translation unit
     the alias harness is built from: per (class kind, three-address operation, alias pattern) the operation's body as an event program,
     specialised to the pattern (calls whose written arguments are identified with another argument are descended into, every other
     call is a primitive).  `Props/C15Rings.all_rows_safe` is a kernel evaluation of the read-after-write discipline over the whole table;
     `discipline_sound` / `rings_alias_independent` (Lemmas/AliasProgSound.lean) give it its meaning for every interpretation of the
     primitives, every value type, every store.  Rows that break the discipline are NOT in the table: they are listed (`unsafeRows`) and
     reported here, with a failing input when the dynamic tie has one.
 (C) harness/h_alias.cpp (14 parts, built from the working tree) calls every operation with the destination being one of its inputs and
     on distinct objects holding the same values; the Lean driver (mode `alias`) compares the two results.

`run_rings(V, tier, seed, replay)` adds its findings to the Verdict `V` of checks/c15.py; `python3 -m checks.c15_rings` runs it alone.
"""
import concurrent.futures as cf
import json
import os
import re
import time

from vlib import common, report, flow
from translate import aliasfp

NPARTS = 14
ASSUMPTIONS = [
    "static tie: an object is a block of opaque leaves (RecInt ruint/rint/rmint: one leaf per limb, Rational: num and den; everything else, "
    "including a whole polynomial, is ONE leaf): aliasing between an operand and a SUB-OBJECT of another operand (a polynomial coefficient "
    "passed as the scalar argument, B[0] read through Q) and between an operand and a data member of the domain object is not examined",
    "static tie: pointers are followed only when they are locals initialised from one container / one heap block / one array handed to a "
    "callee together with one object; a function that dereferences anything else is outside the dialect and makes the row unsafe when it "
    "is reached with a conflict, but pointer escapes through data structures are not seen",
    "static tie: an address test (&r == &a) is answered in the distinct-object execution as in the aliased execution; that the guarded path "
    "(through a temporary) and the unguarded path compute the same value on distinct objects is not an aliasing matter and is not part of "
    "the theorem (the dynamic tie compares the real aliased call with the real call on distinct objects)",
    "static tie: primitives (external functions such as the gmp++ Integer operations — whose own alias independence is part 1 of C15 —, "
    "std:: containers, built-in operators, constructors, and library calls whose written arguments are not identified with another "
    "argument) are functions of the values of their inputs; copy construction / operator= / assign copy the value; the element-wise "
    "container loops of Poly1Dom (add, sub, neg, scalar forms, setdegree, …) and the value-dependent paths of Rational *=, /= are "
    "MODELLED (table `assumedRows`), decided by the dynamic tie only",
    "static tie: the distinct-object store initially holds, in a destination, the value of the operand it is identified with in the "
    "aliased call (independence of a pure destination's previous content is not claimed)",
    "dynamic tie: results are compared through the domain's write() (RecInt: the limbs); seeded structured operands, not all operands",
]


def _build_parts(cfg):
    common.lib_objects(cfg)

    def one(i):
        for attempt in range(4):
            try:
                return i, common.build_harness("h_alias", cfg, extra=["-DALIAS_PART=%d" % i])
            except FileNotFoundError:       # two parallel builds pruning the bounded cache at the same time (vlib.common.prune)
                time.sleep(0.5 + attempt)
        return i, common.build_harness("h_alias", cfg, extra=["-DALIAS_PART=%d" % i])
    with cf.ThreadPoolExecutor(6) as ex:
        return dict(ex.map(one, range(NPARTS)))


def _run_parts(bins, tier, seed, replay_keys=None, kind="-", timeout=3000):
    args = [tier, str(seed), kind] + (["replay"] if replay_keys is not None else [])
    lines_in = list(replay_keys) if replay_keys is not None else None

    def one(i):
        out, crash = flow.run_harness(bins[i], lines_in if replay_keys is not None else None, args, timeout)
        if crash is not None and replay_keys is not None:
            crash["line"] = None
        return i, out, crash
    outs, crashes = [], []
    with cf.ThreadPoolExecutor(6) as ex:
        for i, out, crash in ex.map(one, range(NPARTS)):
            outs += out
            if crash is not None:
                crash["part"] = i
                crashes.append(crash)
    return outs, crashes


def key_of(line):
    t = line.split(" ")
    return tuple(t[1:4]) if len(t) > 4 else ("?", "?", "?")


def base_op(k):
    """(kind, op[, pattern]) with the #n of a scalar-type instantiation removed"""
    return (k[0], re.sub(r"#\d+$", "", k[1])) + tuple(k[2:])


def run_rings(V, tier, seed, replay=None):
    t0 = time.time()
    V.assumptions = list(getattr(V, "assumptions", [])) + ASSUMPTIONS
    timing = {}
    # ---- (a) static tie ---------------------------------------------------------------------------------------------------
    meta = None
    try:
        gen, meta = aliasfp.build()
        aliasfp.emit(gen, meta)
    except Exception as e:      # noqa: BLE001
        V.violation("rings_translator", {"obligation": "translate/aliasfp.py (clang AST -> Generated/AliasTable.lean)", "what": str(e)[-3000:]},
                    no_failing_input=True)
    timing["translate"] = round(time.time() - t0, 1)
    t1 = time.time()
    L = flow.lean_stage(V, ["GivaroModel.Props.C15Rings"], "GivaroModel/Props/C15Rings.lean",
                        extra_theorem_files=["GivaroModel/Generated/AliasSafe.lean"])
    timing["lean"] = round(time.time() - t1, 1)
    # ---- (b)(c) dynamic tie ----------------------------------------------------------------------------------------------------
    t2 = time.time()
    configs = ("P",) if tier == "quick" else ("S", "R")
    results, crashes, readable = [], [], {}
    replay_keys = None
    if replay:
        with open(replay) as fh:
            replay_keys = [l.split(" = ")[0] for l in json.load(fh).get("lines", []) if l and l.startswith("al ")]
    bins_by_cfg = {}
    for cfg in configs:
        try:
            bins_by_cfg[cfg] = _build_parts(cfg)
        except common.BuildError as e:
            V.violation("rings_harness_build", {"obligation": "harness/h_alias.cpp compiles against the working tree (%s)" % cfg, "what": str(e)[-3000:]},
                        no_failing_input=True)
    timing["build"] = round(time.time() - t2, 1)
    t3 = time.time()
    for cfg, bins in bins_by_cfg.items():
        outs, cr = _run_parts(bins, tier, seed, replay_keys)
        for c in cr:
            c["config"] = cfg
        crashes += cr
        al = [l for l in outs if l.startswith("al ")]
        for l in outs:
            if l.startswith("# al "):
                readable.setdefault(" ".join(l.split(" ")[1:6]), l[:1500])
        verdicts = flow.run_driver("alias", al) if al else []
        if len(verdicts) != len(al):
            crashes.append({"config": cfg, "line": None, "returncode": "driver", "stderr": "driver printed %d verdicts for %d lines" % (len(verdicts), len(al))})
        results += [(v, l, cfg) for v, l in zip(verdicts, al)]
    timing["run"] = round(time.time() - t3, 1)
    # ---- verdicts of the dynamic tie -------------------------------------------------------------------------------------------
    known = report.findings_for("C15")
    counts = {"OK": 0, "PRE": 0, "DIFF": 0, "BAD": 0}
    by_op, known_hit, failing = {}, {}, set()
    for v, l, cfg in results:
        if v == "OK":
            counts["OK"] += 1
        elif v.startswith("DIFF"):
            counts["DIFF"] += 1
            failing.add(key_of(l))
            e = next((e for e in known if e.get("match") and re.search(e["match"], l)), None)
            if e is not None:
                known_hit.setdefault(e["id"], (e, l))
                continue
            by_op.setdefault(key_of(l)[:2], []).append((l, cfg))
        else:
            counts["BAD"] += 1
            by_op.setdefault(("protocol", "protocol"), []).append((v + " | " + l, cfg))
    for eid, (e, l) in sorted(known_hit.items()):
        V.known_finding("%s (%s; e.g. %s)" % (e.get("what", eid), eid, l[:160]))
    for (kind, op), items in sorted(by_op.items()):
        seen, short = set(), []
        for l, cfg in sorted(items, key=lambda x: (len(x[0]), x[0])):
            if l not in seen:
                seen.add(l)
                short.append((l, cfg))
            if len(short) == 6:
                break
        name = re.sub(r"\W+", "_", "%s_%s" % (kind, op))[:70]
        if kind == "protocol":
            V.violation("rings_protocol", {"obligation": "line protocol h_alias / driver mode alias", "lines": [l for l, _ in short]}, no_failing_input=True)
            continue
        V.violation("impl_" + name, {
            "obligation": "correspondence: the aliased call gives the value of the call on distinct objects (%s %s)" % (kind, op),
            "what": "the real code returns a different value when the destination is the same object as an input",
            "lines": [l for l, _ in short],
            "readable": [readable.get(l.split(" = ")[0], "") for l, _ in short],
            "patterns_failing": sorted({key_of(l)[2] for l, _ in items}),
            "configs": sorted({c for _, c in items}),
            "static_tie": [u["reason"] for u in (meta or {}).get("unsafe", []) if u["kind"] == kind and u["op"] == op][:3] or
                          "the static tie has no unsafe row for this operation (see coverage: assumed rows / outside the static tie's reach)",
        })
    for c in crashes:
        V.violation("rings_crash", {"obligation": "harness run (h_alias part %s, %s)" % (c.get("part"), c.get("config")),
                                    "what": "the implementation crashed, timed out or aborted under the sanitizers in an aliased call",
                                    "lines": c.get("last_output", [])[-1:], "detail": {k: c[k] for k in ("returncode", "stderr", "last_output") if k in c}})
    # ---- (d) cross-check of the two ties ---------------------------------------------------------------------------------------
    cov_extra = {}
    if meta is not None:
        tab_safe = {(e["kind"], e["op"], e["pat"]) for e in meta["entries"]}
        tab_unsafe = {(e["kind"], e["op"], e["pat"]): e for e in meta["unsafe"]}
        assumed = {(a["kind"], a["op"]) for a in meta["assumed"]}
        tab_ops = {base_op(k[:2]) for k in tab_safe} | {base_op(k[:2]) for k in tab_unsafe} | {base_op(k) for k in assumed}
        har = {key_of(l) for _, l, _ in results}
        har_ops = {k[:2] for k in har}
        # unsafe rows: a failing input from the dynamic tie, else a targeted search, else no-failing-input-found
        pending = {}
        for k, e in tab_unsafe.items():
            if k in failing or any(f[:2] == k[:2] for f in failing):
                continue
            pending.setdefault(k[:2], []).append(e)
        if pending and not replay and bins_by_cfg:
            cfg0 = next(iter(bins_by_cfg))
            for kind in sorted({k for k, _ in pending}):
                outs, _cr = _run_parts(bins_by_cfg[cfg0], "thorough", seed, None, kind=kind, timeout=1200)
                al = [l for l in outs if l.startswith("al ")]
                vs = flow.run_driver("alias", al) if al else []
                bad = [l for v, l in zip(vs, al) if v.startswith("DIFF")]
                rd = {" ".join(l.split(" ")[1:6]): l[:1500] for l in outs if l.startswith("# al ")}
                for (k2, op), es in list(pending.items()):
                    if k2 != kind:
                        continue
                    hits = [l for l in bad if key_of(l)[:2] == (k2, op)]
                    if hits:
                        V.violation("impl_" + re.sub(r"\W+", "_", "%s_%s" % (k2, op))[:70], {
                            "obligation": "correspondence (targeted search after the static tie flagged the row): %s %s" % (k2, op),
                            "lines": hits[:6], "readable": [rd.get(l.split(" = ")[0], "") for l in hits[:6]],
                            "static_tie": [e["reason"] for e in es][:3]})
                        del pending[(k2, op)]
        for (kind, op), es in sorted(pending.items()):
            V.violation("static_" + re.sub(r"\W+", "_", "%s_%s" % (kind, op))[:70], {
                "obligation": "Givaro.Props.C15Rings.all_rows_safe: the row (%s, %s) breaks the read-after-write discipline and is not in the table" % (kind, op),
                "what": "an input that may be the destination is read after the destination was written (or the body left the dialect)",
                "patterns": sorted({e["pat"] for e in es}), "reasons": sorted({e["reason"] for e in es})[:6],
                "where": sorted({e["where"] for e in es}),
                "search": "no aliased call of this operation gave a different value (quick and thorough grids of this kind)"}, no_failing_input=True)
        cov_extra = {
            "table_rows": meta["rows"], "table_entries_safe": len(meta["entries"]), "table_entries_unsafe": len(meta["unsafe"]),
            "table_rows_assumed": len(meta["assumed"]), "lean_programs": meta.get("lean_programs"), "primitives": len(meta["prims"]),
            "rows_per_kind": meta["kinds"],
            "unsafe_rows": sorted({"%s %s %s: %s" % (e["kind"], e["op"], e["pat"], e["reason"][:160]) for e in meta["unsafe"]})[:60],
            "assumed_rows": sorted({"%s (%s)" % (a["op"], a["what"]) for a in meta["assumed"]}),
            "modelled_functions_used": meta["modelled_used"],
            "ops_in_table_not_exercised_by_harness": sorted("%s %s" % k for k in tab_ops - har_ops),
            "ops_exercised_by_harness_without_table_row": sorted("%s %s" % k for k in har_ops - tab_ops),
            "patterns_in_table_not_exercised": len({base_op(k) for k in tab_safe if k[2] != "none"} - har),
            "patterns_exercised_without_table_entry": sorted("%s %s %s" % k for k in har - {base_op(k) for k in tab_safe} - {base_op(k) for k in tab_unsafe}
                                                             if k[:2] not in {base_op(a) for a in assumed})[:60],
            "functions_outside_dialect": len(meta.get("outside_dialect", [])),
        }
    res = dict(results=results, crashes=crashes)
    timing["total"] = round(time.time() - t0, 1)
    cov_extra["timing_rings_s"] = timing
    flow.fill_coverage(V, L, res, counts,
                       rule="per kind (harness/alias_kinds.h): every three-address / in-place operation x every alias pattern the signature admits "
                            "(destination = one, several or all inputs; inputs among themselves; second destinations) x seeded operands (boundary values, "
                            "random words; polynomials of random small and of Karatsuba-size degree; RecInt limbs: random, all-ones, single-limb, top-bit, "
                            "half-length); non-trivial = the pattern identifies at least two parameters; distinct = distinct (kind, op, pattern, case)",
                       extra=cov_extra, nontrivial=lambda l: True)
    return L


def main():
    import sys
    tier = os.environ.get("VERIF_TIER", "quick")
    V = report.Verdict("C15R", tier, common.seed_from_env(), "proof")
    run_rings(V, tier, common.seed_from_env(), replay=sys.argv[1] if len(sys.argv) > 1 else None)
    V.finish()


if __name__ == "__main__":
    main()
