"""C10 — rationals are exact, canonical and totally ordered.

Theorems: lean/GivaroModel/Props/C10.lean about the hand-written model lean/GivaroModel/Model/Rational.lean
(mirror of givrat*.C, givrational.inl, qfield.h).  Tie: correspondence (harness/h_rational.cpp calls the real
Rational / QField<Rational> code in-process; lean/Driver/Rational.lean evaluates model and specification).
"""
import json
import os

from vlib import common, report, flow
from translate import gen_rational

GEN_THMS = "GivaroModel/Generated/RationalThms.lean"


def translation_stage(V):
    """Tie T: regenerate the Lean definitions of the Rational bodies from VERIF_REPO's sources and re-prove
    `generated body = hand model` for each linked body.  Returns (meta, {theorem: lean error}, build output)."""
    try:
        meta = gen_rational.generate()
    except Exception as e:                      # clang failed / AST shape unknown: the tie cannot be established
        V.violation("translate_rational", {"obligation": "translate/gen_rational.py regenerates Generated/RationalOps.lean from the sources",
                                           "what": "%s: %s" % (type(e).__name__, str(e)[-1500:])}, no_failing_input=True)
        return None, {}, ""
    ok, out, t = common.lake_build(["GivaroModel.Generated.RationalThms"])
    failing = {}
    if not ok:
        for f, ln, col, msg in common.lean_errors(out):
            failing.setdefault(flow.theorem_at(f, ln) if f.endswith("RationalThms.lean") else "%s:%d" % (f, ln), msg)
        if not failing:
            failing["lake build GivaroModel.Generated.RationalThms"] = out[-1500:]
    else:
        names = [f["theorem"] for f in meta["functions"] if f.get("theorem")]
        axs, missing, txt = common.print_axioms("GivaroModel.Generated.RationalThms", ["Givaro.GenQ." + n for n in names])
        for n in names:
            a = axs.get("Givaro.GenQ." + n, axs.get(n))
            if a is None or a - common.ALLOWED_AXIOMS:
                failing[n] = "axiom audit: %s" % (sorted(a) if a is not None else "not found by #print axioms")
    meta["t_build"] = t
    return meta, failing, out

RULE = ("harness-generated: operands listed in DESIGN.md as failing first; word grids (all pairs) for the word constructors; "
        "big-integer pairs and decimal strings; every class of double (exponent grid x mantissa grid x sign; thorough: every exponent) "
        "plus random doubles; conversions out of Q around the limits of every word type and across double/float magnitudes; histories of 80-120 calls on "
        "six live objects (special doubles, pair constructors, arithmetic, in-place and fused forms, self-aliased forms, comparisons) interleaved with "
        "SetReduce/SetNoReduce, every line carrying the observed mode and the operands' stored pairs; exhaustive square of the small canonical fractions (|num|,den <= 6) and of all pairs n/d (|n|,d <= 4) "
        "without reduction; structured random operands (zero, integers, unit fractions, shared factors, multi-limb) with a second "
        "operand related to the first (equal denominators, equal, opposite, inverse, cross factors, just above/below, very different sizes). "
        "distinct = distinct (operation, mode, operands); non-trivial = some operand token outside {0,1}")


def run(prop, tier, seed, replay=None):
    V = report.Verdict(prop, tier, seed, "proof")
    V.assumptions = [
        "tie T (translate/gen_rational.py): a translated Rational body is the symbolic execution of clang-14's AST with the gmp++ Integer bodies "
        "inlined and the mpz_* calls replaced by the contracts of Prim/Gmp.lean; object lifetime, allocation and the identity of temporaries are not modelled",
        "the Integer layer under Rational (+ - * / gcd pow << floor ceil divmod sign isZero isOne) is exact integer arithmetic: "
        "established per overload by C01/C02, used here as Int operations (Integer::operator/ = truncated quotient, gcd >= 0)",
        "mpz_cmpabs is modelled by its documented contract only (sign of the result); theorems hold for every such function, "
        "the driver evaluates GMP's limb-count-difference behaviour and the +-1-normalised one",
        "text construction is modelled on the token grammar  [blanks] int [blanks / int]  (GMP's decimal integer reader is trusted); "
        "malformed text belongs to C19",
        "the IEEE-754 double is modelled by its three bit fields (sign, biased exponent, mantissa); infinities and NaN are excluded (finite doubles)",
        "in-place operators and field operations are checked with a destination distinct from the operands, plus s += s, s -= s and inv(r,r) "
        "(same object on both sides); the other alias patterns belong to C15",
        "Rational::flags (the process-wide reduction mode) is observed through a derived accessor class before and after every call, and every "
        "machine-level store to it during a call is counted with a hardware write watchpoint (perf_event_open; when the kernel refuses, the "
        "count is reported as unobserved and only the before/after comparison remains)",
        "conversions to double/float: mpz_get_d is modelled as truncation to 53 bits, the division and (float) as IEEE-754 round-to-nearest-even; "
        "overflow, subnormal results and non-finite values are outside the model (precondition)",
    ]
    meta, gen_failing, gen_out = translation_stage(V)
    L = flow.lean_stage(V, ["GivaroModel.Props.C10", "GivaroModel.Props.C10State", "GivaroModel.Props.C10Conv"], "GivaroModel/Props/C10.lean",
                        extra_theorem_files=("GivaroModel/Props/C10State.lean", "GivaroModel/Props/C10Conv.lean"))
    bins = flow.build_harnesses("h_rational", configs=("S", "R") if tier == "thorough" else ("S",))
    lines = None
    if replay:
        with open(replay) as fh:
            lines = [l.split(" = ")[0] for l in json.load(fh).get("lines", []) if l]
    res = flow.correspond(bins, "rational", lines=lines, harness_args=[] if lines is not None else [tier, str(seed)])
    counts = flow.decide(V, res, known=report.findings_for(prop))
    # generated theorems that no longer check: reported after the search (the correspondence run above is the search:
    # a changed body that computes a wrong value shows up there as impl_* with a replay; what is left is reported as thm_*)
    found_input = any("impl_" in os.path.basename(str(p_)) for p_, nf_ in V.violations if not nf_)
    for n, msg in sorted(gen_failing.items()):
        V.violation("thm_%s" % n, {"obligation": "Givaro.GenQ.%s (Generated/RationalThms.lean): the body regenerated from the sources equals the hand model "
                                                 "of Model/Rational.lean for all inputs" % n,
                                   "what": "the regenerated body no longer matches the hand model (the C10 theorems speak about the hand model)"
                                           + ("; the correspondence run of this check reports concrete failing inputs" if found_input else
                                              "; no failing input found by the correspondence run"),
                                   "lean_error": msg[:1500]}, no_failing_input=True)
    if meta is not None:
        for b in meta.get("link_lost", []):
            V.violation("lost_%s" % b["name"].replace("operator", "op"), {
                "obligation": "%s %s is translated and linked to the hand model" % (b["name"], b["type"]),
                "what": "the body left the translator's dialect or is no longer present",
                "untranslatable": [u for u in meta["untranslatable"] if u["name"] == b["name"]][:5]}, no_failing_input=True)
    ops = {}
    watched = unobserved = mode0 = 0
    for _, l, _ in res["results"]:
        k = l.split(" ", 1)[0]
        ops[k] = ops.get(k, 0) + 1
        t = l.rsplit(" ", 1)[-1]
        if t == "-1":
            unobserved += 1
        else:
            watched += 1
        if l.split(" ", 2)[1:2] == ["0"]:
            mode0 += 1
    if unobserved:
        V.note("the hardware watchpoint on Rational::flags was not available for %d of %d calls (perf_event_open refused): "
               "transient writes to the mode are not observed for them, only the mode before/after" % (unobserved, unobserved + watched))
    for n in sorted(flow.UB_NOTES):
        if "givratmisc.C" in n or "std_abs.h" in n:
            V.note("undefined behaviour whose compiled meaning is the right value (DESIGN.md §2.8): pow(Rational, INT64_MIN) negates "
                   "INT64_MIN in int64_t (givratmisc.C) and pow(Integer,int64_t) calls std::abs on it; the result (+-1)^(2^63) is exact: " + n[:160])
    flow.fill_coverage(V, L, res, counts, rule=RULE, extra={
        "operations_exercised": ops, "configs": sorted(bins),
        "mode_frame": {"calls_with_watchpoint_on_Rational_flags": watched, "calls_unobserved": unobserved, "calls_made_in_NoReduce_mode": mode0},
        "translation_tie": None if meta is None else {
            "bodies_translated": len(meta["functions"]),
            "linked_to_hand_model_by_generated_theorem": sorted(f["theorem"] for f in meta["functions"] if f.get("theorem")),
            "translated_without_link": sorted("%s %s" % (f["name"], f["type"]) for f in meta["functions"] if not f.get("theorem")),
            "hand_modelled_but_link_not_proved (correspondence tie only)": ["%s %s" % (b["name"], b["type"]) for b in meta["hand_modelled_not_linked"]],
            "outside_the_dialect": ["%s %s (%s:%s): %s" % (b["name"], b["type"], b["file"], b["line"], b["reason"]) for b in meta["untranslatable"]],
            "generated_theorems_failing": sorted(gen_failing)},
        "uncovered_api": [
            "ratrecon/RationalReconstruction, Rational(f,m,k): C11",
            "malformed text for operator>>: C19",
            "QField::random/nonzerorandom: C20",
            "length(Rational): size accounting, not a value of Q",
            "member comparison operators with Integer/int/double operands (givrational.h:112-330): declared, never defined anywhere in the tree (cannot be called)",
            "aliased calls (s += s, QField::inv(r,r), axpy(r,a,b,r)): C15",
        ]})
    V.finish()
