"""C10 — rationals are exact, canonical and totally ordered.

Theorems: lean/GivaroModel/Props/C10.lean about the hand-written model lean/GivaroModel/Model/Rational.lean
(mirror of givrat*.C, givrational.inl, qfield.h).  Tie: correspondence (harness/h_rational.cpp calls the real
Rational / QField<Rational> code in-process; lean/Driver/Rational.lean evaluates model and specification).
"""
import json

from vlib import common, report, flow

RULE = ("harness-generated: operands listed in DESIGN.md as failing first; word grids (all pairs) for the word constructors; "
        "big-integer pairs and decimal strings; every class of double (exponent grid x mantissa grid x sign; thorough: every exponent) "
        "plus random doubles; exhaustive square of the small canonical fractions (|num|,den <= 6) and of all pairs n/d (|n|,d <= 4) "
        "without reduction; structured random operands (zero, integers, unit fractions, shared factors, multi-limb) with a second "
        "operand related to the first (equal denominators, equal, opposite, inverse, cross factors, just above/below, very different sizes). "
        "distinct = distinct (operation, mode, operands); non-trivial = some operand token outside {0,1}")


def run(prop, tier, seed, replay=None):
    V = report.Verdict(prop, tier, seed, "proof")
    V.assumptions = [
        "the Integer layer under Rational (+ - * / gcd pow << floor ceil divmod sign isZero isOne) is exact integer arithmetic: "
        "established per overload by C01/C02, used here as Int operations (Integer::operator/ = truncated quotient, gcd >= 0)",
        "mpz_cmpabs is modelled by its documented contract only (sign of the result); theorems hold for every such function, "
        "the driver evaluates GMP's limb-count-difference behaviour and the +-1-normalised one",
        "text construction is modelled on the token grammar  [blanks] int [blanks / int]  (GMP's decimal integer reader is trusted); "
        "malformed text belongs to C19",
        "the IEEE-754 double is modelled by its three bit fields (sign, biased exponent, mantissa); infinities and NaN are excluded (finite doubles)",
        "in-place operators and field operations are checked with a destination distinct from the operands (aliasing belongs to C15)",
    ]
    L = flow.lean_stage(V, ["GivaroModel.Props.C10"], "GivaroModel/Props/C10.lean")
    bins = flow.build_harnesses("h_rational", configs=("S", "R") if tier == "thorough" else ("S",))
    lines = None
    if replay:
        with open(replay) as fh:
            lines = [l.split(" = ")[0] for l in json.load(fh).get("lines", []) if l]
    res = flow.correspond(bins, "rational", lines=lines, harness_args=[] if lines is not None else [tier, str(seed)])
    counts = flow.decide(V, res, known=report.findings_for(prop))
    ops = {}
    for _, l, _ in res["results"]:
        k = l.split(" ", 1)[0]
        ops[k] = ops.get(k, 0) + 1
    for n in sorted(flow.UB_NOTES):
        if "givratmisc.C" in n or "std_abs.h" in n:
            V.note("undefined behaviour whose compiled meaning is the right value (DESIGN.md §2.8): pow(Rational, INT64_MIN) negates "
                   "INT64_MIN in int64_t (givratmisc.C) and pow(Integer,int64_t) calls std::abs on it; the result (+-1)^(2^63) is exact: " + n[:160])
    flow.fill_coverage(V, L, res, counts, rule=RULE, extra={
        "operations_exercised": ops, "configs": sorted(bins),
        "uncovered_api": [
            "Rational cast operators (short/int/uint64_t/float/double/std::string): conversions out of Q are not part of C10's text",
            "Rational::operator%(Integer), ratrecon/RationalReconstruction, Rational(f,m,k): C11",
            "print / operator<< and malformed text for operator>>: C19",
            "QField::random/nonzerorandom: C20",
            "length(Rational): size accounting, not a value of Q",
            "member comparison operators with Integer/int/double operands (givrational.h:112-330): declared, never defined anywhere in the tree (cannot be called)",
            "aliased calls (s += s, QField::inv(r,r), axpy(r,a,b,r)): C15",
        ]})
    V.finish()
