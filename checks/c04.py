"""C04 is decided by the shared residue-ring pipeline (checks/c03.py, harness section `C04`, driver mode `modinit`)."""
from .c03 import run  # noqa: F401
