"""C04: init/convert implement the canonical map Z -> Z/m for every source type.

Two correspondence pipelines, both compiled from the tree under test and run in the S (sanitizers) and R (repository flags) builds:
  * the shared residue-ring pipeline of C03/C04 (harness/h_modring.cpp section `C04`, driver mode `modinit`): every ring as a map on residues;
  * round 2 (harness/h_c04x.cpp, driver mode `modinitx`): the rings that are Z/p behind another representation -- Montgomery<int32_t>,
    Montgomery<ruint<6|7|8>>, GFqDom<int32_t|int64_t> (exponent k >= 1) -- at the level of the STORED word / table index, against the
    line-by-line models of Model/ModInitMont.lean and Model/GFqInitInt.lean (theorems: Props/C04Mont.lean, Props/C04GFq.lean;
    Props/C04Ext.lean: ModularExtended init from narrow integers under the quotient-estimate contract).
"""
import json
import os
import time

from vlib import common, report, flow
from .c03 import ASSUME, RULE

X_TAGS = ("mgx32", "mgr6", "mgr7", "mgr8", "gfx32", "gfx64")
EXTRA_PROPS = ["GivaroModel/Props/C04Mont.lean", "GivaroModel/Props/C04GFq.lean", "GivaroModel/Props/C04Ext.lean"]

ASSUME_X = [
    "round 2 (Montgomery rings, GFqDom): the models take the source as an integer; std::fmod, float/double -> integer truncation and Integer % word are exact on "
    "integer-valued sources (IEEE-754 / gmp++ contracts, C01/C02); RecInt ruint primitives (mul, laddmul, sub, %, conversions from uint64_t / Integer) by their "
    "contracts (C06); the Montgomery theorems are about the ring objects the constructors compute (mk32 p, mkR n p: C07's constants_exact, mgR_p1_exact, "
    "mgR_constants_exact are reused)",
    "GFqDom: theorems for any tables satisfying Tables.tablesValid (log2pol/pol2log mutually inverse on [0,q), log2pol[0] = 0 ...); that the constructors build "
    "valid tables is C05's (tied there on dumped tables); here the tie compares _log2pol[init(x)] (read from the live object) with the index the model looks up, "
    "which determines the element because the tables are a bijection; for k > 1 init is the documented reduction modulo q = p^k followed by p-adic decoding "
    "(convert(init(x)) = x mod q, hence congruent to x mod p), not a ring homomorphism",
    "outside the property: -INT32_MIN in Montgomery<int32_t>'s template init is undefined behaviour that both builds resolve by wrapping (modelled as wrapS32; "
    "fixes/C04_11.patch removes it); convert of a Montgomery<ruint<K>> element into float/double when the lift exceeds 2^24 / 2^53 (ruint -> double keeps the low "
    "limb only: RecInt conversion, C06)",
]
RULE_X = ("round 2: per ring x modulus (3, 7, 101, 2^15+1, max, max-2, max/2, 2^63-25, 2^64-59, 2^64+13, random odd of random size; prime fields and extension fields "
          "p^k of every small shape up to the storage type's maxCardinality / 10^6 table entries) x source type (int8..uint64, float, double, Integer): limits of the "
          "type, 0, +-1, m+-1, 2m+-1, m^2+-1, radix+-1, radix^2, +-2^k+-1 for k up to 999, exact multiples of m of random size, random of random magnitude; "
          "init(convert(e)) and convert to every type for boundary and random stored words e (every e for q <= 64); reduce on arbitrary words; constants")


def run(prop, tier, seed, replay=None):
    V = report.Verdict(prop, tier, seed, "proof")
    V.assumptions = ASSUME[prop] + ASSUME_X
    extra = [f for f in EXTRA_PROPS if os.path.exists(os.path.join(common.LEAN_DIR, f))]
    mods = ["GivaroModel.Props." + prop] + [f[:-5].replace("/", ".") for f in extra]
    L = flow.lean_stage(V, mods, "GivaroModel/Props/%s.lean" % prop, extra_theorem_files=extra)
    t0 = time.time()
    cfgs = ("S", "R")
    common.shadow_inc()          # once, before the build threads race to re-point the shadow include tree
    bins = flow.build_harnesses("h_modring", configs=cfgs)
    binsx = flow.build_harnesses("h_c04x", configs=cfgs)
    t_build = time.time() - t0
    lines = linesx = None
    if replay:
        with open(replay) as fh:
            allr = [l.split(" = ")[0] for l in json.load(fh).get("lines", []) if l]
        linesx = [l for l in allr if l.split(".", 1)[0] in X_TAGS]
        lines = [l for l in allr if l.split(".", 1)[0] not in X_TAGS]
    t0 = time.time()
    res = dict(results=[], crashes=[])
    if lines is None or lines:
        res = flow.correspond(bins, "modinit", lines=lines, harness_args=[prop, tier, str(seed)], timeout=3000)
    t_corr = time.time() - t0
    t0 = time.time()
    if linesx is None or linesx:
        resx = flow.correspond(binsx, "modinitx", lines=linesx, harness_args=[tier, str(seed)], timeout=3000)
        res["results"] += resx["results"]
        res["crashes"] += resx["crashes"]
    t_corrx = time.time() - t0
    counts = flow.decide(V, res, known=report.findings_for(prop))
    rings = sorted({l.split(".", 1)[0] for _, l, _ in res["results"]})
    ops = sorted({l.split(" ", 1)[0].split(".", 1)[-1] for _, l, _ in res["results"]})
    flow.fill_coverage(V, L, res, counts, rule=RULE[prop] + "; " + RULE_X,
                       extra={"rings": rings, "operations": ops, "configs": list(cfgs),
                              "timing_s": {"lean": round(L["t"], 1), "harness_build": round(t_build, 1), "correspondence": round(t_corr, 1),
                                           "correspondence_round2": round(t_corrx, 1)}})
    V.finish()
