"""C01 / C02: big-integer operations and division conventions.

Tie T (translation): every run regenerates the Lean model of all gmp++ `Integer` bodies from
/repo's working tree and re-checks one theorem per overload against the hand-written
specification table.  Tie C (correspondence): the same overloads are called in-process on a
boundary grid and the outputs are compared with the generated model and the specification
checker by the compiled Lean driver (validates the translator and the GMP contracts).
"""
import itertools
import json
import os
import re
import subprocess
import sys
import time

from vlib import common, report
from vlib.common import log
from translate import gen_integer, integer_spec
from translate.gmpxx import RANGE

GEN = os.path.join(common.CACHE, "gen")
THMS = "GivaroModel/Generated/IntegerThms.lean"

BASELINE = os.path.join(common.VERIF, "translate", "integer_baseline.json")


# ------------------------------------------------------------------------------------------
# input generation
# ------------------------------------------------------------------------------------------
def z_grid(rng, tier):
    g = [0, 1, 2, 3, 7, 10, 255, 256, 2**15, 2**16 - 1, 2**16, 2**31 - 1, 2**31, 2**31 + 1, 2**32 - 1, 2**32, 2**32 + 1,
         2**53, 2**62, 2**63 - 1, 2**63, 2**63 + 1, 2**64 - 1, 2**64, 2**64 + 1, 2**127 - 1, 2**128, 2**128 + 2**64 + 1,
         (2**64 - 1) * 2**64, 2**192 - 2**64, 10**20, 10**41 + 1]
    # limb-structured multi-limb values
    limbs = [0, 1, 2**63, 2**64 - 1]
    for _ in range(6 if tier == "quick" else 40):
        n = 2 + rng.below(3)
        v = 0
        for i in range(n):
            l = rng.choice(limbs + [rng.next()])
            v = (v << 64) | l
        g.append(v)
    for _ in range(6 if tier == "quick" else 60):
        bits = 1 + rng.below(260 if tier == "quick" else 4096)
        v = 0
        while v.bit_length() < bits:
            v = (v << 64) | rng.next()
        g.append(v >> (v.bit_length() - bits))
    out = []
    for v in g:
        out.append(v)
        if v:
            out.append(-v)
    return out


def w_grid(tag, rng, tier):
    lo, hi = RANGE[tag]
    base = {0, 1, 2, 3, 5, 7, 10, hi, hi - 1, hi // 2, hi // 2 + 1, 2**15, 2**16, 2**31 - 1, 2**31, 2**32 - 1, 2**32, 2**62}
    if lo < 0:
        base |= {-1, -2, -3, -7, lo, lo + 1, lo // 2, -(2**15), -(2**31), -(2**31) - 1, -(2**32)}
    g = sorted(v for v in base if lo <= v <= hi)
    for _ in range(4 if tier == "quick" else 40):
        g.append(lo + rng.below(hi - lo + 1))
    return g


SMALL = [0, 1, 2, 3, 5, 31, 32, 33, 63, 64, 65, 127, 128, 129, 200]


def gen_inputs(meta, which_prop, seed, tier, only_keys=None, per_fn=None):
    """yields input lines `key arg…` (hex).  Every random choice derives from `seed`."""
    rng = common.SplitMix(seed * 1000003 + 17)
    zg = z_grid(rng, tier)
    wg = {tag: w_grid(tag, rng, tier) for tag in RANGE}
    per_fn = per_fn or (250 if tier == "quick" else 6000)
    lines = []
    stats = {}
    for f in meta["functions"]:
        sp = f["spec"]
        if not sp:
            continue
        if which_prop and sp["prop"] != which_prop:
            continue
        if only_keys is not None and f["key"] not in only_keys:
            continue
        names = [p[0] for p in f["params"]]
        pre = [tuple(p) for p in sp["pre"]]
        small_vars = {p[1]: p[2] for p in pre if p[0] == "small"}
        doms = []
        for n, code, ct in f["params"]:
            if ct == "Integer":
                d = zg
            else:
                d = wg[ct]
            if n in small_vars:
                lo, hi = (RANGE[ct] if ct != "Integer" else (-10**9, 10**9))
                d = [v for v in SMALL if lo <= v <= hi and v <= small_vars[n]]
            doms.append(d)
        # outputs-only parameters (pure destinations) need no variety: detect by name absence in spec? keep simple:
        total = 1
        for d in doms:
            total *= max(1, len(d))
        combos = []
        if total <= per_fn:
            combos = list(itertools.product(*doms)) if doms else [()]
        else:
            seen = set()
            # corner diagonal first, then random sample of the product
            m = max(len(d) for d in doms)
            for i in range(m):
                c = tuple(d[i % len(d)] for d in doms)
                if c not in seen:
                    seen.add(c)
                    combos.append(c)
            tries = 0
            while len(combos) < per_fn and tries < per_fn * 4:
                tries += 1
                c = tuple(d[rng.below(len(d))] for d in doms)
                if c not in seen:
                    seen.add(c)
                    combos.append(c)
        kept = 0
        for c in combos:
            env = dict(zip(names, c))
            # make divisibility preconditions satisfiable: n := d * n
            for p in pre:
                if p[0] == "dvd":
                    env[p[2]] = env[p[1]] * env[p[2]]
            ok = True
            for p in pre:
                try:
                    if not integer_spec.pre_py(p, env):
                        ok = False
                        break
                except Exception:
                    ok = False
                    break
            if not ok:
                continue
            for n, code, ct in f["params"]:
                if ct != "Integer":
                    lo, hi = RANGE[ct]
                    if not (lo <= env[n] <= hi):
                        ok = False
            if not ok:
                continue
            kept += 1
            lines.append(f["key"] + " " + " ".join(hexs(env[n]) for n in names))
        stats[f["key"]] = kept
    return lines, stats


def hexs(v):
    return ("-%x" % -v) if v < 0 else ("%x" % v)


# ------------------------------------------------------------------------------------------
# running harness + driver
# ------------------------------------------------------------------------------------------
UB_NOTES = set()


def run_harness(binp, lines, timeout=5400):
    """returns (output_lines, crash_info or None).  A crash (sanitizer abort, signal) is bisected to one line."""
    env = dict(os.environ)
    env["ASAN_OPTIONS"] = "detect_leaks=0:abort_on_error=0"
    env["UBSAN_OPTIONS"] = "print_stacktrace=0"
    p = subprocess.run([binp], input="\n".join(lines) + "\n", stdout=subprocess.PIPE, stderr=subprocess.PIPE, text=True,
                       timeout=timeout, env=env)
    out = p.stdout.split("\n")
    out = [l for l in out if l]
    for m in re.finditer(r"^(\S+:\d+:\d+: runtime error: .*)$", p.stderr, re.M):
        UB_NOTES.add(m.group(1)[:300])
    if p.returncode == 0:
        return out, None
    # crashed: the first line without output is the culprit (output is in input order)
    idx = len(out)
    bad = lines[idx] if idx < len(lines) else None
    crash = {"line": bad, "returncode": p.returncode, "stderr": p.stderr[-3000:]}
    rest = lines[idx + 1:]
    if rest:
        more, crash2 = run_harness(binp, rest, timeout)
        out += more
        if crash2 is not None:
            crash.setdefault("more", []).append(crash2)
    return out, crash


def _run_driver_one(mode, lines, timeout):
    p = subprocess.run([common.driver_path(), mode], input="\n".join(lines) + "\n", stdout=subprocess.PIPE,
                       stderr=subprocess.PIPE, text=True, timeout=timeout)
    if p.returncode != 0:
        raise RuntimeError("driver failed: " + p.stderr[-2000:])
    out = [l for l in p.stdout.split("\n") if l]
    if len(out) != len(lines):
        raise RuntimeError("driver printed %d verdicts for %d lines" % (len(out), len(lines)))
    return out


def run_driver(mode, lines, timeout=5400):
    """One verdict per line; the lines are independent of each other in this mode, so large inputs are judged by several
    driver processes in parallel (the thorough tier has millions of lines)."""
    if len(lines) < 40000:
        return _run_driver_one(mode, lines, timeout)
    import concurrent.futures as cf
    n = min(12, max(2, len(lines) // 40000))
    size = (len(lines) + n - 1) // n
    shards = [lines[i:i + size] for i in range(0, len(lines), size)]
    with cf.ThreadPoolExecutor(len(shards)) as ex:
        parts = list(ex.map(lambda sh: _run_driver_one(mode, sh, timeout), shards))
    return [v for part in parts for v in part]


# ------------------------------------------------------------------------------------------
# the check
# ------------------------------------------------------------------------------------------
def failing_theorems(build_output, pfx="Integer"):
    """map `error: …<pfx>ThmsNN.lean:LINE` to theorem names."""
    srcs = {}
    names = {}
    other = []
    for f, ln, col, msg in common.lean_errors(build_output):
        if not re.search("/" + pfx + r"Thms\d\d\.lean$", f):
            other.append((f, ln, msg))
            continue
        base = os.path.basename(f)
        if base not in srcs:
            with open(os.path.join(common.LEAN_DIR, "GivaroModel", "Generated", base)) as fh:
                srcs[base] = fh.read().split("\n")
        src = srcs[base]
        i = ln
        while i > 0 and not src[i - 1].startswith("theorem "):
            i -= 1
        if i > 0:
            nm = src[i - 1].split()[1]
            names.setdefault(nm, msg)
    return names, other


SETS = {
    # which generated set decides which property
    "C01": dict(prefix="Integer", meta="integer_meta.json", mode="integer", hflags=[], by_prop=True),
    "C02": dict(prefix="Integer", meta="integer_meta.json", mode="integer", hflags=[], by_prop=True),
    "C15": dict(prefix="IntegerAlias", meta="integerAlias_meta.json", mode="integer_alias", hflags=["-DALIAS_STUBS"], by_prop=False),
}


def run(prop, tier, seed, replay=None, finish=True):
    SET = SETS[prop]
    PFX = SET["prefix"]
    V = report.Verdict(prop, tier, seed, "proof")
    V.assumptions = [
        "GMP's mpz_* functions are modelled by their documented contracts (Prim/Gmp.lean), not verified",
        "clang-14's typed AST is a faithful account of what g++ compiles (cross-validated by the correspondence on every run)",
        "signed overflow has two's-complement meaning in the compiled binary",
        "the specification table translate/integer_spec.py + Spec/IntegerSpec.lean states the documented Z-operation of each overload",
    ]
    # 1. regenerate the model, specs, theorems, driver table and harness stubs from the working tree
    t0 = time.time()
    try:
        meta = gen_integer.generate(common.LEAN_DIR, GEN)
        with open(os.path.join(GEN, SET["meta"])) as fh:
            meta = json.load(fh)
    except Exception as e:  # clang cannot parse the tree, translator crash
        V.violation("translator", {"obligation": "translation of the gmp++ layer", "error": str(e)[-3000:]}, no_failing_input=True)
        V.coverage = {"obligations": 1, "discharged": 0, "checker_cmd": "translate/gen_integer.py", "trusted_base": report.TRUSTED_BASE_COMMON,
                      "evaluations": 1, "distinct_nontrivial": 0}
        V.finish()
    t_gen = time.time() - t0
    mine = [f for f in meta["functions"] if f["spec"] and (f["spec"]["prop"] == prop or not SET["by_prop"])]
    keys = {f["key"] for f in mine}

    # 2. Lean: build the theorems and the driver
    chunks = ["GivaroModel.Generated.%sThms%02d" % (PFX, i) for i in range(meta["nchunk"])]
    props_mod = "GivaroModel.Props.%s" % prop
    ok, out, t_lean = common.lake_build(chunks + ["driver"])
    ok_p, out_p, t_p = common.lake_build([props_mod]) if ok else (False, "generated theorems failed; %s not built" % props_mod, 0)
    t_lean += t_p
    failing, other = failing_theorems(out, PFX)
    bad_chunks = {int(m.group(1)) for m in re.finditer(PFX + r"Thms(\d\d)\.lean:\d+:\d+", out)} if not ok else set()
    if not ok and not failing:
        # the model or the spec file itself does not elaborate: nothing is proved
        V.violation("lean_build", {"obligation": "lake build GivaroModel.Generated.IntegerThms driver", "output": out[-4000:]}, no_failing_input=True)
    if not ok and not os.path.exists(common.driver_path()):
        V.coverage = {"obligations": len(mine), "discharged": 0, "checker_cmd": "lake build", "trusted_base": report.TRUSTED_BASE_COMMON,
                      "evaluations": 1, "distinct_nontrivial": 0}
        V.finish()
    failing_mine = {n: m for n, m in failing.items() if n[:-len("_exact")] in keys}

    # 3. audit
    forb = common.grep_forbidden()
    ax_bad = {}
    audited = 0
    by_chunk = {}
    for f in mine:
        if not f.get("translated", True):
            continue
        ci = meta["thm_chunk"].get(f["key"])
        if ci is None or ci in bad_chunks:
            continue   # a chunk with a failing theorem has no compiled module; its theorems are reported below
        by_chunk.setdefault(ci, []).append("Givaro.Gen.%s_exact" % f["key"])
    if os.path.exists(common.driver_path()) or ok:
        import concurrent.futures as cf
        def audit(item):
            ci, names = item
            return common.print_axioms("GivaroModel.Generated.%sThms%02d" % (PFX, ci), names)
        with cf.ThreadPoolExecutor(8) as ex:
            for axs, missing, txt in ex.map(audit, sorted(by_chunk.items())):
                audited += len(axs)
                for n, a in axs.items():
                    extra = a - common.ALLOWED_AXIOMS
                    if extra:
                        ax_bad[n] = sorted(extra)
                for n in missing:
                    ax_bad[n] = ["<not found by #print axioms>"]
    # the hand-written property theorems (conventions, overload agreement)
    prop_thms = common.theorems_in("GivaroModel/Props/%s.lean" % prop)
    prop_ok = 0
    if ok_p:
        axs, missing, txt = common.print_axioms(props_mod, prop_thms)
        for n in prop_thms:
            a = axs.get(n)
            if a is None:
                ax_bad[n] = ["<not found by #print axioms>"]
            elif a - common.ALLOWED_AXIOMS:
                ax_bad[n] = sorted(a - common.ALLOWED_AXIOMS)
            else:
                prop_ok += 1
    elif ok:
        V.violation("props_build", {"obligation": "lake build %s" % props_mod, "theorems": prop_thms, "output": out_p[-3000:]}, no_failing_input=True)
    if forb:
        V.violation("audit_forbidden", {"obligation": "no sorry/admit/native_decide/... in the Lean library", "hits": forb[:50]}, no_failing_input=True)
    if ax_bad:
        V.violation("audit_axioms", {"obligation": "axioms ⊆ {propext, Classical.choice, Quot.sound}", "theorems": ax_bad}, no_failing_input=True)
    if ok and ok_p and tier == "thorough":
        rechecked = common.leancheck(chunks + [props_mod], jobs=6)
        bad = {m: o for m, (k, o) in rechecked.items() if not k}
        if bad:
            V.violation("audit_leanchecker", {"obligation": "leanchecker (independent kernel re-check of the compiled .olean files) accepts every module",
                                               "modules": bad}, no_failing_input=True)
        V.note("leanchecker re-checked %d modules" % len(rechecked))

    # 4. baseline: overloads that used to be translated and specified must still be
    lost = []
    if os.path.exists(BASELINE):
        with open(BASELINE) as fh:
            base = json.load(fh)
        want = set(base.get(prop, []))
        have = {f["key"] for f in mine if f.get("translated", True)}
        lost = sorted(want - have)

    # 5. correspondence
    # two builds of the real code: S = -O1 with ASan/UBSan, R = the repository's own flags (-O2 -march=native);
    # undefined behaviour can compile differently in the two (it did: absCompare(x, INT32_MIN))
    import concurrent.futures as cf
    with open(os.path.join(GEN, PFX[0].lower() + PFX[1:] + "_calls.inc"), "rb") as fh:
        stub_hash = common.sha(fh.read())
    with cf.ThreadPoolExecutor(2) as ex:
        futs = {c: ex.submit(common.build_harness, "h_integer", c, ["-I", GEN, "-DSTUBS_" + stub_hash] + SET["hflags"]) for c in ("S", "R")}
        bins = {c: f.result() for c, f in futs.items()}
    binp = bins["S"]
    lines, stats = gen_inputs(meta, prop if SET["by_prop"] else None, seed, tier)
    if replay:
        with open(replay) as fh:
            rp = json.load(fh)
        lines = [l.split(" = ")[0] for l in rp.get("lines", []) if l] or lines
    hout, crash = run_harness(bins["S"], lines)
    hout_r, crash_r = run_harness(bins["R"], lines)
    crash = crash or crash_r
    n_S = len(hout)
    hout = hout + [l for l in hout_r]
    verdicts = run_driver(SET["mode"], hout)
    cfg_of = ["S"] * n_S + ["R"] * len(hout_r)
    n_ok = n_pre = 0
    diffs = []
    bad = []
    for v, l in zip(verdicts, hout):
        if v == "OK":
            n_ok += 1
        elif v == "PRE":
            n_pre += 1
        elif v.startswith("DIFF"):
            diffs.append((v, l))
        else:
            bad.append((v, l))
    # group disagreements per overload
    by_fn = {}
    for v, l in diffs:
        k = l.split(" ", 1)[0]
        by_fn.setdefault(k, []).append((v, l))
    for k, items in sorted(by_fn.items()):
        spec_items = [x for x in items if "kind=SPEC" in x[0] or "kind=BOTH" in x[0]]
        if spec_items:
            # the implementation's output is rejected by the specification: a real failing input
            items_s = sorted(spec_items, key=lambda x: len(x[1]))[:5]
            V.violation("impl_%s" % k, {"obligation": "%s_exact / correspondence" % k, "overload": k,
                                        "what": "implementation output rejected by the specification checker",
                                        "lines": [l for _, l in items_s], "driver": [v for v, _ in items_s],
                                        "theorem_status": "fails" if (k + "_exact") in failing else "holds (model and implementation differ)"})
        else:
            items_s = sorted(items, key=lambda x: len(x[1]))[:5]
            V.violation("corr_%s" % k, {"obligation": "correspondence model vs implementation for %s" % k, "overload": k,
                                        "what": "implementation meets the specification on every generated input but differs from the regenerated model",
                                        "lines": [l for _, l in items_s], "driver": [v for v, _ in items_s]}, no_failing_input=True)
    if crash is not None:
        V.violation("crash", {"obligation": "harness run", "what": "the implementation crashed (signal / sanitizer abort)", "lines": [crash.get("line")],
                              "detail": crash})
    for v, l in bad[:5]:
        V.violation("protocol", {"obligation": "line protocol", "driver": v, "line": l}, no_failing_input=True)
    # failing theorems without a concrete failing input
    for n, msg in sorted(failing_mine.items()):
        k = n[:-len("_exact")]
        if k in by_fn and any("kind=SPEC" in x[0] or "kind=BOTH" in x[0] for x in by_fn[k]):
            continue
        # targeted search: thorough grid on this overload only
        l2, _ = gen_inputs(meta, prop if SET["by_prop"] else None, seed + 7919, "thorough", only_keys={k}, per_fn=20000)
        h2, c2 = run_harness(binp, l2)
        h2r, c2r = run_harness(bins["R"], l2)
        h2 = h2 + h2r
        v2 = run_driver(SET["mode"], h2)
        hit = [(v, l) for v, l in zip(v2, h2) if v.startswith("DIFF") and ("kind=SPEC" in v or "kind=BOTH" in v)]
        if hit:
            hit = sorted(hit, key=lambda x: len(x[1]))[:5]
            V.violation("impl_%s" % k, {"obligation": n, "overload": k, "what": "theorem no longer checks; failing input found by the targeted search",
                                        "lines": [l for _, l in hit], "driver": [v for v, _ in hit], "lean_error": msg})
        else:
            V.violation("thm_%s" % k, {"obligation": n, "overload": k, "what": "theorem no longer checks against the regenerated model; no failing input found on %d targeted cases" % len(l2),
                                       "lean_error": msg}, no_failing_input=True)
    sig_only = {f["key"]: f for f in mine if not f.get("translated", True)}
    for k in list(lost):
        if k not in sig_only:
            continue
        lost.remove(k)
        # the body left the translator's dialect: no model, no theorem.  Search the implementation against the specification.
        if k in by_fn and any("kind=SPEC" in x[0] or "kind=BOTH" in x[0] for x in by_fn[k]):
            continue     # already reported with a concrete failing input
        l2, _ = gen_inputs(meta, prop if SET["by_prop"] else None, seed + 7919, "thorough", only_keys={k}, per_fn=20000)
        h2, c2 = run_harness(binp, l2)
        h2r, c2r = run_harness(bins["R"], l2)
        h2 = h2 + h2r
        v2 = run_driver(SET["mode"], h2)
        hit = [(v, l) for v, l in zip(v2, h2) if v.startswith("DIFF") and ("kind=SPEC" in v or "kind=BOTH" in v)]
        why = sig_only[k].get("untranslatable")
        if hit:
            hit = sorted(hit, key=lambda x: len(x[1]))[:5]
            V.violation("impl_%s" % k, {"obligation": "%s_exact" % k, "overload": k,
                                        "what": "the body is outside the translator's dialect (%s), so its theorem cannot be stated; "
                                                "the targeted search found inputs on which the implementation violates the specification" % why,
                                        "lines": [l for _, l in hit], "driver": [v for v, _ in hit]})
        else:
            V.violation("thm_%s" % k, {"obligation": "%s_exact" % k, "overload": k,
                                       "what": "the body is outside the translator's dialect (%s): the theorem can no longer be stated; "
                                               "no failing input found on %d targeted cases (implementation vs specification)" % (why, len(h2))},
                        no_failing_input=True)
    for k in lost:
        V.violation("lost_%s" % k, {"obligation": "overload %s is translated and specified (baseline translate/integer_baseline.json)" % k,
                                    "what": "the overload is no longer in the translator's dialect or no longer present",
                                    "untranslatable": [u for u in meta["untranslatable"]][:40]}, no_failing_input=True)

    # 6. evidence
    distinct = set()
    for l in hout:
        toks = l.split(" = ")[0].split(" ")
        if any(t not in ("0", "1") for t in toks[1:]):
            distinct.add(l.split(" = ")[0])
    sample = [l for l in hout[:: max(1, len(hout) // 12)]][:12]
    V.coverage = {
        "obligations": len(mine) + len(prop_thms) + 2,
        # a theorem counts as discharged only if its module compiled (a failing theorem leaves the others of its chunk unchecked)
        "discharged": sum(len(v) for v in by_chunk.values()) - len([n for n in ax_bad if n.startswith("Givaro.Gen.")]) + prop_ok
                      + (0 if forb else 1) + (0 if ax_bad else 1),
        "unchecked_because_module_failed": sorted(f["key"] for f in mine if f.get("translated", True)
                                                  and meta["thm_chunk"].get(f["key"]) in bad_chunks and (f["key"] + "_exact") not in failing_mine),
        "property_theorems": prop_thms,
        "checker_cmd": "python3 translate/gen_integer.py && lake build GivaroModel.Generated.IntegerThms (one theorem per overload, regenerated from /repo) + #print axioms audit",
        "trusted_base": report.TRUSTED_BASE_COMMON + V.assumptions,
        "theorems": len(mine),
        "theorems_failing": sorted(failing_mine),
        "evaluations": len(hout),
        "distinct_nontrivial": len(distinct),
        "rule": "boundary grid (0, ±1, word limits ±1, 2^63, 2^64±1, limb-structured multi-limb) × every specified overload, product sampled per overload; "
                "non-trivial = some operand outside {0,1}; distinct = distinct (overload, operand tuple)",
        "samples": sample,
        "traces_validated_against_impl": n_ok,
        "build_configurations": {"S": "g++ -O1 -fsanitize=address,undefined", "R": "g++ -O2 -march=native (the repository's flags)"},
        "axiom_audit": {"theorems_audited": audited, "offending": ax_bad},
        "undefined_behaviour_notes": sorted(UB_NOTES)[:40],
        "precondition_rejected": n_pre,
        "overloads_exercised": len([k for k, n in stats.items() if n > 0]),
        "overloads_translated": len(meta["functions"]),
        "untranslatable_bodies": [u["name"] + " " + u["type"] + " : " + u["reason"] for u in meta["untranslatable"]
                                  if "rand" not in (u.get("file") or "")],
        "unspecified_overloads": [f["key"] for f in meta["functions"] if not f["spec"]],
        "timing_s": {"translate": round(t_gen, 1), "lean": round(t_lean, 1)},
    }
    if finish:
        V.finish()
    return V
