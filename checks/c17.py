"""C17 — containers and the pooled allocator preserve contents; nothing leaks or dangles.

Lean: Props/C17.lean (invariants of the Array0 model over all operation lists, smallest-fit of search_binary over the
table extracted from givaromm.C, free-list discipline, allocation balance of the RecInt casts).
Tie: correspondence. harness/h_array.cpp drives Array0<int>, Array0<Integer>, GivMMFreeList, GivMMRefCount and the
conversion/arithmetic scopes in-process; the driver (mode `array`) evaluates model and specification per line."""
import json
import time

from vlib import common, report, flow
from . import c17_tables


def key_of(line):
    t = line.split(" ")
    if t[0] == "hist":
        return "hist_" + t[1]
    if t[0] == "leak":
        return "leak_" + t[1]
    return t[0]


def classify_known(entry, line, verdict):
    """A known finding of the history stream matches only when the *first failing step* is the operation it is about
    (entry["step_op"]), so that an unrelated failure in a history that merely contains such an operation is still reported."""
    import re
    if not entry.get("match") or re.search(entry["match"], line) is None:
        return False
    if not entry.get("step_op"):
        return True
    m = re.search(r"\bstep=(\d+)\b", verdict)
    if not m:
        return False
    toks = line.split(" = ")[0].split(" ")[3:]
    k = int(m.group(1))
    return k < len(toks) and toks[k].startswith(entry["step_op"] + ".")


def refptr_cases(tier, seed):
    """RefCountPtr histories: every sequence up to length 3 (quick) / 4 (thorough) over 3 slots, plus seeded longer ones.
    The value given to `new` is the position in the history, so that objects are distinguishable."""
    L = 4 if tier == "thorough" else 3
    out = []

    def alpha(pos):
        ops = []
        for k in range(3):
            ops.append("n.%x.%x" % (k, pos + 1))
            ops.append("d.%x" % k)
            for j in range(3):
                ops.append("a.%x.%x" % (k, j))
                if j != k:
                    ops.append("c.%x.%x" % (k, j))
        return ops

    def rec(cur):
        if cur:
            out.append("rp " + " ".join(cur))
        if len(cur) == L:
            return
        for o in alpha(len(cur)):
            if not cur and not o.startswith("n.0"):
                continue            # nothing can happen before the first `new`; slots are interchangeable
            rec(cur + [o])
    rec([])
    R = common.SplitMix(seed * 7919 + 3)
    for _ in range(20000 if tier == "thorough" else 3000):
        n = 5 + R.below(10)
        out.append("rp " + " ".join(R.choice(alpha(i)) for i in range(n)))
    return out


def run(prop, tier, seed, replay=None):
    V = report.Verdict(prop, tier, seed, "proof")
    V.assumptions = [
        "the hand transcription of givarray0.inl / givaromm.h,.C / givpointer.h into Model/Array0.lean, Model/FreeList.lean, Model/RefPtr.lean "
        "is tied to the code by correspondence only",
        "Model/Array0Pool.lean reads the pool calls of an Array0 operation off the abstract step (blocks that appeared / died) and orders "
        "them as the code does (reallocate: new data block, releases, new counter); block identities are not compared with the real pool "
        "(the property does not determine them), the class indices found in the block headers are",
        "blocks above TabSize[511] = 8054880 bytes make GivMMFreeList::allocate throw: the composition theorems assume FitsPool",
        "GMP is modelled, not verified: only the number of outstanding limb blocks is counted (mp_set_memory_functions in the harness, "
        "Model/Leak.lean in Lean); the harness's GMP allocator overwrites released limbs with 0xDD so that a read after release is visible",
        "element constructors/destructors of T are modelled as cell creation/removal; Integer's own copy/assignment is C01's subject",
        "the harness reads the private table BlocFreeList::TabFree through an explicit template instantiation and counts the pool's "
        "physical allocations with -Wl,--wrap=malloc (no change to /repo)",
        "GivMMRefCount is tied to an executable model by correspondence only (no theorem)",
        "cells beyond the logical size (retained storage) are left open by the property: the value-semantics machine of the simulation "
        "theorem records what the code does with them; the correspondence's SPEC verdict ignores them (MODEL verdict compares them)",
    ]
    t0 = time.time()
    vals, ntab = c17_tables.write_lean()
    if ntab != len(vals):
        V.violation("table_len", {"obligation": "lenTables equals the number of entries of TabSize", "lenTables": ntab, "entries": len(vals)},
                    no_failing_input=True)
    L = flow.lean_stage(V, ["GivaroModel.Props.C17"], "GivaroModel/Props/C17.lean")
    t1 = time.time()
    bins = flow.build_harnesses("h_array", configs=("S",), extra=("-Wl,--wrap=malloc",))
    t2 = time.time()
    rp_bins = None
    try:
        rp_bins = flow.build_harnesses("h_refptr", configs=("S",))
    except common.BuildError as e:
        V.violation("refptr_build", {"obligation": "harness/h_refptr.cpp compiles against givaro/givpointer.h",
                                     "what": "RefCountPtr<T> cannot be instantiated (or the header does not compile) in the current tree",
                                     "compiler": str(e)[-1500:]}, no_failing_input=True)
    if replay:
        with open(replay) as fh:
            lines = [l.split(" = ")[0] for l in json.load(fh).get("lines", []) if l]
        rp_lines = [l for l in lines if l.startswith("rp ")]
        lines = [l for l in lines if not l.startswith("rp ")]
        res = flow.correspond(bins, "array", lines=lines, harness_args=["-"]) if lines else dict(results=[], crashes=[])
    else:
        rp_lines = refptr_cases(tier, seed)
        res = flow.correspond(bins, "array", lines=None, harness_args=[tier, str(seed)])
    if rp_bins and rp_lines:
        try:
            r2 = flow.correspond(rp_bins, "array", lines=rp_lines)
        except RecursionError:
            r2 = dict(results=[], crashes=[{"line": None, "returncode": "many", "stderr": "h_refptr crashed on very many histories"}])
        res["results"] += r2["results"]
        res["crashes"] += r2["crashes"]
    t3 = time.time()
    counts = flow.decide(V, res, known=report.findings_for(prop), key_of=key_of, classify_known=classify_known)
    kinds = {}
    for _, l, _ in res["results"]:
        k = key_of(l)
        k = "leak" if k.startswith("leak_") else k
        kinds[k] = kinds.get(k, 0) + 1

    if not replay:
        # an empty section would make the check pass vacuously
        missing = [k for k in ("hist_i", "hist_Z", "fl", "rc", "leak") + (("rp",) if rp_bins else ()) if kinds.get(k, 0) < 100]
        if missing:
            V.violation("empty_section", {"obligation": "every section of the correspondence produces cases", "sections": missing,
                                          "cases_by_kind": kinds}, no_failing_input=True)

    def nontrivial(l):
        toks = l.split(" = ")[0].split(" ")
        return len(toks) >= (5 if toks[0] == "hist" else 3)      # history length >= 2 / at least two allocator operations

    flow.fill_coverage(
        V, L, res, counts,
        rule="hist: every operation sequence up to the tier's length over 2 and 3 handles (handles introduced in increasing order) and sizes "
             "{0,1,2,5}, for int and Integer elements, plus seeded random histories of length 5-16 over 2-4 handles and sizes up to 33; "
             "fl/rc: every class boundary T[i]-1,T[i],T[i]+1 of the extracted table, every short alloc/free/resize sequence over 3 slots, "
             "random longer ones; leak: each conversion/arithmetic scope on a boundary grid and random multi-limb operands; "
             "rp: every RefCountPtr new/copy/assign/delete sequence up to the tier's length over 3 slots plus random longer ones. "
             "non-trivial = history of at least 2 operations; distinct = distinct input line",
        extra={"cases_by_kind": kinds, "tabsize_entries": len(vals)},
        nontrivial=nontrivial)
    V.coverage["timing_s"].update({"tables+lean": round(t1 - t0, 1), "harness_build": round(t2 - t1, 1), "correspondence": round(t3 - t2, 1)})
    V.finish()
