"""C06: fixed-precision recursive integers (RecInt ruint<K>/rint<K>) compute exactly modulo 2^(2^K).

Theorems: lean/GivaroModel/Props/C06.lean about the hand-written model lean/GivaroModel/Model/RecInt.lean (all sizes K,
all operands).  Tie C (correspondence): harness/h_recint.cpp instantiates the real templates for K = 6..11 (12 in the
thorough tier), once with __RECINT_THRESHOLD_KARA at its source value and once lowered to 7 so that Karatsuba runs at
every size, on limb-structured operands; the compiled Lean driver evaluates model and specification on every line.
"""
import json

from vlib import common, report, flow


MIXED_FORMS = ("add_xt add_tx sub_xt sub_tx mul_xt mul_tx div_xt mod_xt and_xt or_xt xor_xt shl_xt shr_xt addeq subeq muleq diveq modeq andeq oreq "
               "xoreq shleq shreq rel_xt rel_tx cmp add3 add3c add2 sub3 sub3c sub2 mul3 mul2 divq divr div lmul3 addmul expmod").split()
MIXED_TYPES = "u8 s8 u16 s16 u32 s32 u64 s64 bool".split()


def build_mixed(cfg="S"):
    """h_recint_mixed.cpp instantiates every (form, class, K, scalar type).  Templates that are declared but never defined only
    show up at link time, and bodies that do not compile are hard errors: build with everything first, read the linker's
    undefined references / the compiler's errors, and rebuild with those combinations switched off (they are reported, not hidden).
    Returns (binary, {"nolink": [...], "nobody": bool})."""
    import hashlib, os, re
    src = os.path.join(common.VERIF, "harness", "h_recint_mixed.cpp")
    with open(src, "rb") as fh, open(os.path.join(common.VERIF, "harness", "proto.h"), "rb") as ph:
        key = common.sha(common.tree_hash(), " ".join(common.CFG[cfg]), fh.read(), ph.read())
    bdir = os.path.join(common.CACHE, "bin", "mixed_" + key)
    binp, meta = os.path.join(bdir, "h_recint_mixed"), os.path.join(bdir, "meta.json")
    if os.path.exists(binp) and os.path.exists(meta):
        os.utime(bdir)
        return binp, json.load(open(meta))
    os.makedirs(bdir, exist_ok=True)
    inc = common.inc_flags() + ["-I", os.path.join(common.VERIF, "harness")]
    fast = ["-std=gnu++17", "-O0", "-DNDEBUG", "-UDEBUG", "-D" + common.GUARD, "-w"]       # discovery passes: no optimisation, no sanitizers
    tyc = {'h': 0, 'a': 1, 't': 2, 's': 3, 'j': 4, 'i': 5, 'm': 6, 'l': 7, 'b': 8}
    tyn = {"unsigned char": 0, "signed char": 1, "unsigned short": 2, "short": 3, "unsigned int": 4, "int": 5, "unsigned long": 6, "long": 7, "bool": 8}
    info = {"nolink": [], "nobody": False}

    def defs():
        d = ["-DMX_NOBODY=%d" % (1 if info["nobody"] else 0)]
        if info["nolink"]:
            d.append("-DMX_DISABLED=" + " ".join("D(%d,%d,%d,%d)" % tuple(x) for x in info["nolink"]) + " false")
        return d

    def attempt(flags):
        rc, o, e = common.sh(["g++"] + flags + inc + defs() + [src, "-o", binp + ".tmp", "-lgmpxx", "-lgmp"])
        if rc == 0:
            return True
        errs = [l for l in e.split("\n") if " error: " in l and "ld returned" not in l]
        if errs:
            if not info["nobody"] and any("cannot bind non-const lvalue reference" in l for l in errs):
                info["nobody"] = True          # rint % scalar: `return -r;` through a T&
                return False
            raise common.BuildError("harness h_recint_mixed does not compile against the current tree:\n" + "\n".join(errs[:20]))
        combos = set(tuple(x) for x in info["nolink"])
        n0 = len(combos)
        for m in re.finditer(r"_ZN3RunILi(\d+)EN6RecInt(4rint|5ruint)ILm(\d+)EEE([hatsjimlb])E2go", e):
            combos.add((int(m.group(1)), 1 if m.group(2) == "4rint" else 0, int(m.group(3)) - 6, tyc[m.group(4)]))
        for m in re.finditer(r"Run<(\d+), RecInt::(rint|ruint)<(\d+)ul>, ([a-z ]+)>::go", e):
            combos.add((int(m.group(1)), 1 if m.group(2) == "rint" else 0, int(m.group(3)) - 6, tyn[m.group(4)]))
        if len(combos) == n0:
            raise common.BuildError("harness h_recint_mixed does not link against the current tree:\n" + e[-3000:])
        info["nolink"] = sorted(combos)
        return False

    for _ in range(4):                      # what does not link / whose body does not compile is found with the fast flags
        if attempt(fast):
            break
    for _ in range(3):                      # the real build
        if attempt(common.CFG[cfg]):
            break
    else:
        raise common.BuildError("harness h_recint_mixed could not be built against the current tree")
    info["nolink"] = [list(x) for x in info["nolink"]]
    os.rename(binp + ".tmp", binp)
    json.dump(info, open(meta, "w"))
    return binp, info


def run(prop, tier, seed, replay=None):
    V = report.Verdict(prop, tier, seed, "proof")
    V.assumptions = [
        "longlong.h primitives (recint_add_ssaaaa, recint_sub_ddmmss, recint_umul_ppmm, recint_udiv_qrnnd) are modelled by their arithmetic contracts; "
        "the contracts are validated by the correspondence at K = 6, 7 where the code is nothing but these macros",
        "in-place overloads (a += b, add(r, a, b), ...) are tied to the same model function as the three-operand ones (same body with b := a); "
        "aliasing beyond that is property C15",
        "rint<K> is modelled as its field Value (the two's-complement image) and the theorems read results with the signed reading sval; the wrappers "
        "modelled branch by branch are add/sub/mul/addmul/neg/~/cmp/lmul/lsquare/div_q/div_r/<</>>/sign extension/mod_n (both widths)/inv_mod; the "
        "mixed rint (x) built-in scalar division, shift, comparison and bit forms are checked against the specification by correspondence only",
        "conversions to/from built-in types: the C casts of a limb to a narrower or signed type and uint64_t -> double (round to nearest even) are "
        "modelled by their arithmetic contracts; ruint<6>(double b) for b < 0 is undefined in C++ (the model takes the x86-64 result b mod 2^64); "
        "(double) of a ruint/rint converts only the least significant limb: exact below 2^53, and for values >= 2^64 the result is the double of "
        "the value mod 2^64 (theorem to_double_is_low_limb; the specification only covers values < 2^64)",
        "__RECINT_USE_FAST_128 is not defined in this configuration (the __uint128_t path is compiled out)",
        "mpz_import/mpz_export/mpz_fdiv_r_2exp/mpz_class arithmetic used by the conversions and by the harness are GMP (trusted); doubles are compared exactly as integers (mpz_set_d)",
    ]
    L = flow.lean_stage(V, ["GivaroModel.Props.C06"], "GivaroModel/Props/C06.lean")
    thorough = tier == "thorough"
    bins = {}
    for tag, extra in (("kara_src", ()), ("kara7", ("-D__RECINT_THRESHOLD_KARA=7",))):
        cfgs = ("S", "R") if (thorough and tag == "kara_src") else ("S",)
        built = flow.build_harnesses("h_recint", configs=cfgs, extra=extra, link_lib=False)
        for c, b in built.items():
            bins["%s/%s" % (c, tag)] = b
    # conversions (links the library: Integer); ruint<6>(const char*) does not link on a tree without fixes/C06_7
    try:
        bins["S/conv"] = flow.build_harnesses("h_recint_conv", configs=("S",), extra=("-DC06_STR6",), link_lib=True)["S"]
    except common.BuildError as e:
        if "ruint(char const*)" not in str(e):
            raise
        V.violation("impl_cvu_from_str6", {"obligation": "correspondence: implementation vs specification (cvu_from / cvs_from, K = 6, const char*)",
                                          "what": "RecInt::ruint<6>::ruint(const char*) is declared but not defined: ruint<6>(\"1\") / rint<6>(\"1\") do not link",
                                          "lines": ["cvu_from 6 0 1", "cvs_from 6 0 1"], "driver": [str(e)[-400:]]})
        bins["S/conv"] = flow.build_harnesses("h_recint_conv", configs=("S",), extra=(), link_lib=True)["S"]
    # mixed operands: recursive integer (x) built-in scalar, every operator / named form, every scalar type
    mixed_bin, mixed_info = build_mixed("S")
    bins["S/mixed"] = mixed_bin
    lines = None
    if replay:
        lines = [l.split(" = ")[0] for l in json.load(open(replay)).get("lines", []) if l]
    res = {"results": [], "crashes": []}
    for i, (cfg, b) in enumerate(bins.items()):
        # a different seed stream per build so that the builds do not repeat each other's cases
        mine = lines
        if lines is not None:            # replay: conversion lines go to the conversion harness, the others to the arithmetic ones
            kind = lambda l: "conv" if l.startswith("cv") else "mixed" if l.startswith("mx_") else "arith"
            mine = [l for l in lines if kind(l) == ("conv" if cfg.endswith("/conv") else "mixed" if cfg.endswith("/mixed") else "arith")]
            if not mine:
                continue
        r = flow.correspond({cfg: b}, "recint", lines=mine, harness_args=([] if mine is not None else [tier, str(seed * 16 + i)]))
        res["results"] += r["results"]
        res["crashes"] += r["crashes"]
    if lines is None or any(l.startswith("mx_expmod") for l in lines):
        # exp_mod with a bool exponent is not generated with the others: on a tree without fixes/C06_15 it never terminates
        probe = ["mx_expmod %x 0 0 8 %s %x %s" % (K, x, w, y) for K in (6, 7, 8, 9) for (x, w, y) in (("3", 1, "7"), ("5", 0, "b"), ("2", 1, "1"))]
        r = flow.correspond({"S/mixed": mixed_bin}, "recint", lines=probe, timeout=20)
        res["results"] += r["results"]
        for c in r["crashes"]:
            c["what"] = "exp_mod(a, b, bool exponent, n) does not terminate (or crashed)"
            c["line"] = c.get("line") or probe[0]
        res["crashes"] += r["crashes"]
    notcompiling = {}
    for v, l, cfg in res["results"]:
        if l.startswith("mx_"):
            t = l.split(" ")
            rt = l.split(" = ")[1].split(" ")[0] if " = " in l else ""
            if rt in ("0", "8", "9"):
                k = "%s %s: %s" % ("rint" if t[3] == "1" else "ruint", t[0][3:], {"0": "no viable / ambiguous overload", "8": "declared, never defined (link error)",
                                                                               "9": "body does not compile"}[rt])
                notcompiling.setdefault(k, set()).add(MIXED_TYPES[int(t[4], 16)])
    counts = flow.decide(V, res, known=report.findings_for(prop), key_of=lambda line: " ".join(line.split(" ", 2)[:1]))
    ops = {}
    for _, l, _ in res["results"]:
        t = l.split(" ", 3)
        k = "%s K=%d" % (t[0], int(t[1], 16))
        ops[k] = ops.get(k, 0) + 1
    flow.fill_coverage(
        V, L, res, counts,
        rule="per size K and operation: boundary values (0, 1, 2^(bits-1)+-1, 2^bits-1-j), limb-structured operands (each limb from "
             "{0,1,2^63,2^64-1,random}), complements (b + c = 2^bits and 2^bits - 1), normalised divisors with top limb 2^63 / 2^63+1 / 2^64-1 and "
             "dividends q*b + r built so that div_2_1/div_3_2 preconditions hold, shift counts 0,1,63,64,65,bits/2+-1,bits+-1,2*bits,2^63; "
             "bezout_mod on coprime, non-coprime and boundary pairs (1,1), (1,d), (c,1), c = d, c | d, 2^bits-1; rint wrappers on the signed grid "
             "{0, +-1, +-2, MAX, MAX-1, MIN, MIN+1, +-2^(bits/2)}^2 through every form; word conversions on limits of int32/uint32/int64, doubles "
             "around 2^53..2^64 (ties, odd/even neighbours); non-trivial = some operand outside {0,1}; distinct = distinct (operation, K, threshold, operands)",
        extra={"operations_by_size": dict(sorted(ops.items())), "harness_builds": sorted(bins),
               "mixed_forms_not_compiling": {k: sorted(v, key=MIXED_TYPES.index) for k, v in sorted(notcompiling.items())}},
        nontrivial=lambda l: any(t not in ("0", "1") for t in l.split(" = ")[0].split(" ")[3:]))
    V.finish()
