"""C06: fixed-precision recursive integers (RecInt ruint<K>/rint<K>) compute exactly modulo 2^(2^K).

Theorems: lean/GivaroModel/Props/C06.lean about the hand-written model lean/GivaroModel/Model/RecInt.lean (all sizes K,
all operands).  Tie C (correspondence): harness/h_recint.cpp instantiates the real templates for K = 6..11 (12 in the
thorough tier), once with __RECINT_THRESHOLD_KARA at its source value and once lowered to 7 so that Karatsuba runs at
every size, on limb-structured operands; the compiled Lean driver evaluates model and specification on every line.
"""
import json

from vlib import common, report, flow


def run(prop, tier, seed, replay=None):
    V = report.Verdict(prop, tier, seed, "proof")
    V.assumptions = [
        "longlong.h primitives (recint_add_ssaaaa, recint_sub_ddmmss, recint_umul_ppmm, recint_udiv_qrnnd) are modelled by their arithmetic contracts; "
        "the contracts are validated by the correspondence at K = 6, 7 where the code is nothing but these macros",
        "in-place overloads (a += b, add(r, a, b), ...) are tied to the same model function as the three-operand ones (same body with b := a); "
        "aliasing beyond that is property C15",
        "Tier C operations (gcd, inv_mod, bezout_mod, exp_mod, mod_n, arazi_qi, div and general shifts, rint wrappers, mpz conversions) are modelled and/or "
        "checked against the specification by correspondence only; no all-inputs theorem is claimed for them",
        "__RECINT_USE_FAST_128 is not defined in this configuration (the __uint128_t path is compiled out)",
        "mpz_import/mpz_export/mpz_fdiv_r_2exp/mpz_class arithmetic used by the conversions and by the harness are GMP (trusted); conversions to/from double are only checked on integers of magnitude < 2^53",
    ]
    L = flow.lean_stage(V, ["GivaroModel.Props.C06"], "GivaroModel/Props/C06.lean")
    thorough = tier == "thorough"
    bins = {}
    for tag, extra in (("kara_src", ()), ("kara7", ("-D__RECINT_THRESHOLD_KARA=7",))):
        cfgs = ("S", "R") if (thorough and tag == "kara_src") else ("S",)
        built = flow.build_harnesses("h_recint", configs=cfgs, extra=extra, link_lib=False)
        for c, b in built.items():
            bins["%s/%s" % (c, tag)] = b
    # conversions (links the library: Integer); ruint<6>(const char*) does not link on a tree without fixes/C06_7
    try:
        bins["S/conv"] = flow.build_harnesses("h_recint_conv", configs=("S",), extra=("-DC06_STR6",), link_lib=True)["S"]
    except common.BuildError as e:
        if "ruint(char const*)" not in str(e):
            raise
        V.violation("impl_cvu_from_str6", {"obligation": "correspondence: implementation vs specification (cvu_from / cvs_from, K = 6, const char*)",
                                          "what": "RecInt::ruint<6>::ruint(const char*) is declared but not defined: ruint<6>(\"1\") / rint<6>(\"1\") do not link",
                                          "lines": ["cvu_from 6 0 1", "cvs_from 6 0 1"], "driver": [str(e)[-400:]]})
        bins["S/conv"] = flow.build_harnesses("h_recint_conv", configs=("S",), extra=(), link_lib=True)["S"]
    lines = None
    if replay:
        lines = [l.split(" = ")[0] for l in json.load(open(replay)).get("lines", []) if l]
    res = {"results": [], "crashes": []}
    for i, (cfg, b) in enumerate(bins.items()):
        # a different seed stream per build so that the builds do not repeat each other's cases
        mine = lines
        if lines is not None:            # replay: conversion lines go to the conversion harness, the others to the arithmetic ones
            mine = [l for l in lines if l.startswith("cv") == cfg.endswith("/conv")]
            if not mine:
                continue
        r = flow.correspond({cfg: b}, "recint", lines=mine, harness_args=([] if mine is not None else [tier, str(seed * 16 + i)]))
        res["results"] += r["results"]
        res["crashes"] += r["crashes"]
    counts = flow.decide(V, res, known=report.findings_for(prop), key_of=lambda line: " ".join(line.split(" ", 2)[:1]))
    ops = {}
    for _, l, _ in res["results"]:
        t = l.split(" ", 3)
        k = "%s K=%d" % (t[0], int(t[1], 16))
        ops[k] = ops.get(k, 0) + 1
    flow.fill_coverage(
        V, L, res, counts,
        rule="per size K and operation: boundary values (0, 1, 2^(bits-1)+-1, 2^bits-1-j), limb-structured operands (each limb from "
             "{0,1,2^63,2^64-1,random}), complements (b + c = 2^bits and 2^bits - 1), normalised divisors with top limb 2^63 / 2^63+1 / 2^64-1 and "
             "dividends q*b + r built so that div_2_1/div_3_2 preconditions hold, shift counts 0,1,63,64,65,bits/2+-1,bits+-1,2*bits,2^63; "
             "non-trivial = some operand outside {0,1}; distinct = distinct (operation, K, threshold, operands)",
        extra={"operations_by_size": dict(sorted(ops.items())), "harness_builds": sorted(bins)},
        nontrivial=lambda l: any(t not in ("0", "1") for t in l.split(" = ")[0].split(" ")[3:]))
    V.finish()
