"""C19: text output read back yields the same value.

Proof: lean/GivaroModel/Props/C19.lean (round-trip theorems about Model/Text.lean, the executable model of the
stream operators, string constructors and domain read/write functions).
Tie C: harness/h_text.cpp calls the real operators in-process on structured grids (values x following text x
separators, plus a malformed stream); the Lean driver (mode `text`) recomputes the exact output text, the value
read back, the stream flags and the unread characters with the model, and applies the round-trip specification
(Spec/TextSpec.lean) to the implementation's output.
"""
import json
import re

from vlib import common, report, flow

RULE = ("values: 0, +-1, digit-count boundaries 10^k-1/10^k/10^k+1, 2^k-1/2^k/2^k+1 around word and limb sizes, limb-structured and random "
        "multi-limb magnitudes (to 4200 bits in thorough), both signs; rationals: those numerators over denominators 1, small, 2^64 boundaries and "
        "multi-limb, reduced; each followed by 32 continuations (end of stream, blanks, newline, separators, '/', signs, letters, digits) and in "
        "sequences of 1-6 values with 12 separators; ring elements: per ring type the moduli min/max as reported by the code and values 0,1,p-1,"
        "p/2+-1 (balanced: both ends), 24 ring types (Modular<int8..uint64,float,double,Integer,ruint<7>>, ModularBalanced<int32,int64,float,double>, "
        "ModularExtended<float,double>, Montgomery<int32,ruint<7>>, Modular<Log16>, GFqDom p, p^2, p^3) + ZRing<Integer>; RecInt K=6..12 incl. 2^(2^K)-1 and 10^k; "
        "polynomials over 4 domains and 4 indeterminate names (read-back half: prt); write half (pw): 5 domains x 3 moduli x 4 names x coefficient "
        "patterns stored with 0..3 trailing zero coefficients, all-zero vectors of size 1..3, the empty vector, and (prw) the library's own read of "
        "un-normalised input (`2 101 1 1` over Z/101, `2 0 0 0`, ...) followed by write - text compared with the model and parsed by the reference parser; "
        "RecInt string constructors on printed forms, both signs and the extremes (ustr, sstr); a malformed "
        "stream (fixed list + seeded random strings over a 19-character alphabet) compares rejection behaviour of model and code. "
        "distinct = distinct input line; non-trivial = value outside {0,1} or non-empty continuation")


def run(prop, tier, seed, replay=None):
    V = report.Verdict(prop, tier, seed, "proof")
    V.assumptions = [
        "libstdc++ istream/istringstream mechanics (get, peek, putback, sentry, num_get for native integers and integer-valued floating text) and GMP's "
        "operator<< / operator>> for mpz_t, mpz_set_str are modelled as contracts (Model/Text.lean), validated on every run by the correspondence incl. the malformed stream",
        "ring elements: the canonical map init(Integer) and convert are taken at their C03/C04/C05 specification (value mod p, balanced or positive representative); "
        "element lines identify an element by its printed representative",
        "RecInt: division of a ruint by the limb 10 is exact (C06); display_dec is modelled as repeated exact division",
        "the default stream flags (dec, skipws, precision 6) are assumed: hex/oct/showbase output modes are outside the property",
        "lines whose outcome depends on an uninitialised local of the library (`Element tmp;`, `TT t;`, `long deg;` left untouched by a native extractor whose "
        "sentry fails) are not judged: the driver evaluates the model with two values of that local (RingIO.uninit) and answers PRE when they differ",
        "a known finding excuses a line only when the driver verdict is kind=SPEC (implementation = model of the defect); C19-poly-format concerns the read-back half "
        "(prt) only - every written polynomial text (pw, prw, and the text field of prt) must be the model's and is parsed by the reference parser",
        "ModularBalanced<float>::write still prints the float itself: same text as the integer because representatives stay below 10^6 (maxCardinality 8191)",
        "Rational reader: blanks after an integer-valued rational are consumed (known finding C19-rational-eats-blanks); rational sequences are "
        "therefore checked with a separator consumption that tolerates already-eaten blanks (harness dropsep_tol = model dropSepTol)",
    ]
    L = flow.lean_stage(V, ["GivaroModel.Props.C19"], "GivaroModel/Props/C19.lean")
    # quick: the harness translation unit itself at -O0 (19 ring types x Poly1Dom x RecInt K<=12 under ASan/UBSan take 100 s to
    # compile at -O1, 17 s at -O0; the library objects stay at the S configuration); thorough: S as is, and R (the repository's flags)
    common.shadow_inc()    # bring the shadow include tree up to date once, before the two configurations are built in parallel threads
    if tier == "quick":
        bins = flow.build_harnesses("h_text", configs=("S",), extra=("-O0",))
    else:
        bins = flow.build_harnesses("h_text", configs=("S", "R"))
    lines = None
    if replay:
        lines = [l.split(" = ")[0] for l in json.load(open(replay)).get("lines", []) if l]
    res = flow.correspond(bins, "text", lines=lines, harness_args=[] if lines is not None else [tier, str(seed)])
    # A known finding excuses a line only when the implementation does *exactly* what the model of that defect says
    # (driver verdict kind=SPEC: model = implementation, specification violated).  A line on which the implementation
    # also departs from the model (kind=BOTH: e.g. a polynomial whose written text is no longer the model's) is new
    # behaviour and is reported, whatever its key.
    def classify_known(entry, line, verdict):
        return bool(entry.get("match")) and re.search(entry["match"], line) is not None and "kind=SPEC" in verdict
    counts = flow.decide(V, res, known=report.findings_for(prop), classify_known=classify_known)

    def nontrivial(l):
        toks = l.split(" = ")[0].split(" ")[1:]
        return any(t not in ("0", "1", "x") for t in toks)
    keys = {}
    for _, l, _ in res["results"]:
        k = l.split(" ", 1)[0]
        keys[k] = keys.get(k, 0) + 1
    uncovered = [
        "GF2::write/read (bool), QField<Rational>::write/read (forward to the Rational operators, which are covered), Extension<>::write/read "
        "(forward to Poly1Dom: same known finding)",
        "domain descriptions F.write(os) / F.read(is) (type names; Modular_implem::read reads `(z, p)` which no writer produces) - not element values",
        "Modular<ruint<K>> / Montgomery<ruint<K>> for K other than 7; hex output mode of RecInt (display_hex)",
    ]
    flow.fill_coverage(V, L, res, counts, rule=RULE, extra={"lines_per_operation": keys, "uncovered_api": uncovered}, nontrivial=nontrivial)
    V.finish()
