"""C02 is decided by the shared Integer pipeline (checks/integer.py)."""
from .integer import run  # noqa: F401
