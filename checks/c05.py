"""C05: extension fields GF(p^k) behave as F_p[X]/(f) with f irreducible.

Proof: lean/GivaroModel/Props/C05.lean (every Zech macro / member function of GFqDom is the ring operation for all
canonical operands in any commutative ring in which the object's tables satisfy `ZechHyp`; array forms; dotprod; GF2).
Tie C: harness/h_gfq.cpp constructs the real field objects, dumps their tables and calls every operation in-process;
lean/Driver/GFq.lean checks `tablesValid` on the dumped tables (the hypothesis of the theorems, for F_p[X]/(f) in
coefficient-list arithmetic), runs the macro model on the same operands and compares with schoolbook arithmetic
modulo the object's polynomial.
"""
import json

from vlib import common, report, flow


def key_of(line):
    t = line.split(" ")
    if t[0] == "arr" and len(t) > 7:
        return "arr_" + t[7]
    if t[0] == "qad" and len(t) > 5:
        return "qad_" + t[5]
    if t[0] == "kro" and len(t) > 4:
        return "kro_" + t[4]
    return t[0]          # fld ops dot vin ext krh gf2


def kronecker_compiles():
    """gfqkronecker.h is one of the anchored files; on the pinned tree it does not compile (repair C05_2).  The harness is
    then built without it and reports `kro … = NOBUILD`, which the driver rejects (a replayable violation)."""
    import os
    import subprocess
    d = os.path.join(common.CACHE, "probe")
    os.makedirs(d, exist_ok=True)
    src = os.path.join(d, "c05_kro_%s.cpp" % common.tree_hash())
    ok = src + ".ok"
    bad = src + ".bad"
    if os.path.exists(ok):
        return True
    if os.path.exists(bad):
        return False
    with open(src, "w") as fh:
        fh.write("#include <givaro/gfqkronecker.h>\n#include <givaro/givinteger.h>\n"
                 "template struct Givaro::GFqKronecker<int64_t, Givaro::Integer>;\nint main() { return 0; }\n")
    p = subprocess.run(["g++"] + common.CFG["P"] + common.inc_flags() + ["-fsyntax-only", src],
                       stdout=subprocess.PIPE, stderr=subprocess.PIPE, text=True)
    open(ok if p.returncode == 0 else bad, "w").close()
    return p.returncode == 0


def run(prop, tier, seed, replay=None):
    V = report.Verdict(prop, tier, seed, "proof")
    V.assumptions = [
        "machine words: the theorems speak about the plain-Int model; word_level_macros_agree proves that the transcription with every (TT)/(Rep) conversion "
        "written out (wrapS32 / wrapS64, two's-complement reading of signed overflow) computes the same values for canonical operands when 4(q-1) fits the word "
        "(q <= 65536 for int32_t, q <= 2^32 for int64_t) and the table entries lie in [-(q-1), 0]; this is proved for the eight macros the member functions use, "
        "the compositions (maxpyin, axmy, ...) and the (UT) index conversion are not restated at word level; the driver evaluates both models",
        "that the dumped tables of a constructed object satisfy the hypotheses of zech_ops_correct is *checked* per object by the executable tablesValid, not derived "
        "from the constructor's loop (construction_valid is not proved); tablesValid => ZechHyp in (ZMod p)[X]/(f) is a theorem (tablesValid_sound_adjoinRoot), with "
        "p prime as a hypothesis; that this quotient is a field / f irreducible / the decoding is onto is not a Lean theorem (checked per object: chain of exact period q-1 "
        "through all q codes; for q <= 128 every non-zero class is inverted by exhaustion)",
        "the search for the irreducible / primitive polynomial (givpoly1factor.inl, givpoly1proot.inl) is C09's; here its *result* is checked per constructed object "
        "(generator chain closes with period exactly q-1, every non-zero class invertible for q <= 128)",
        "Extension<>: the member functions are modelled as the compositions of Poly1Dom calls written in extension.h; the Poly1Dom operations themselves "
        "(add, mul, modin, invmod, maxpy) enter the theorem through their C08 laws (PolyLaws) and the driver through coefficient-list arithmetic that is not proved to satisfy those laws",
        "GFqKronecker: table lookups (_log2bin, _bin2log, _Xk) are the GFqDom bijection; the model works on coefficient lists; Ints = arbitrary-precision naturals",
        "GFqExt/GFqExtFast q-adic conversions: correspondence against the packing formula only (floating point; no Lean theorem beyond the defensive pre-reduction)",
        "GFqDom::init(vector): Pdom.mod is taken by its C08 meaning (remainder modulo the reported polynomial); lowest_prim_root: phi(p) = p-1 and the prime factor list of p-1 are inputs (C13/C12)",
    ]
    L = flow.lean_stage(V, ["GivaroModel.Props.C05"], "GivaroModel/Props/C05.lean")
    configs = ("S",) if tier == "quick" else ("S", "R")
    extra = () if kronecker_compiles() else ("-DC05_NO_KRONECKER",)
    try:
        bins = flow.build_harnesses("h_gfq", configs=configs, extra=extra)
    except common.BuildError as e:
        V.violation("build", {"obligation": "harness h_gfq compiles against the tree", "what": str(e)[-3000:]}, no_failing_input=True)
        flow.fill_coverage(V, L, {"results": [], "crashes": []}, {}, rule="harness did not build")
        V.finish()
        return
    lines = None
    if replay:
        with open(replay) as fh:
            lines = [l.split(" = ")[0] for l in json.load(fh).get("lines", []) if l]
    if lines is None and tier == "thorough" and "R" in bins:
        # the sanitizer build runs the whole thorough generator; the repository-flags build (which matters for the floating-point
        # q-adic conversions and for what -O2 makes of undefined behaviour) runs the quick generator at a different seed
        res = flow.correspond({"S": bins["S"]}, "gfq", lines=None, harness_args=[tier, str(seed)], timeout=3000)
        res2 = flow.correspond({"R": bins["R"]}, "gfq", lines=None, harness_args=["quick", str(seed + 1000)], timeout=3000)
        res = dict(results=res["results"] + res2["results"], crashes=res["crashes"] + res2["crashes"])
    else:
        res = flow.correspond(bins, "gfq", lines=lines, harness_args=([] if lines is not None else [tier, str(seed)]), timeout=3000)
    counts = flow.decide(V, res, known=report.findings_for(prop), key_of=key_of)
    kinds = {}
    for _, l, _ in res["results"]:
        k = key_of(l)
        kinds[k] = kinds.get(k, 0) + 1
    fields = sum(1 for _, l, _ in res["results"] if l.startswith("fld "))
    flow.fill_coverage(
        V, L, res, counts,
        rule="fields: every (p,k) with p^k <= 2^10 (quick; k>=2 up to 2^12) / 2^12 (thorough; k>=2 up to 2^16) by GFqDom(p,k) in int32_t and a sample in int64_t, "
             "q = maxCardinality() as reported by the running code (2^16) and the largest prime below it, the fields of tests/test-ffarith.C, user-supplied irreducible "
             "and generator polynomials chosen by an independent brute-force search; operands: all triples for q <= 16, all pairs for q <= 64, beyond that the grid "
             "{0,1,2,3,mOne-1,mOne,mOne+1,q-3,q-2,q-1,(q-1)/2(+1),q/3} closed under x -> q-1-x, with c in {0, one, mOne, ab, -ab, random}; arrays of length 0 (child process),1,2,7 "
             "for all sixteen forms; dot products of length 0,1,2,3,7; init from polynomials of every degree 0..2k+2 with leading coefficient 1 and p-1, stored leading zeros, the zero polynomial and "
             "multiples of the defining polynomial, for every field with k >= 2; Extension<> over prime and non-prime base fields (special pool pairs, random triples, all pairs for tiny fields); "
             "GFqKronecker histories: every sequence of setShift/setMaxn of length <= 2 over a ten-letter alphabet and sampled longer ones, then init from 1, 2, maxn-1, maxn accumulated products "
             "(all-(p-1) operands, random, mixed); array-by-scalar forms with the scalar running over the code values 0, 1 (generator), 2, q-2, one, mOne, mOne+1 on the "
             "fixed array (0, 1, one, mOne, 2); fields whose modulus comes from ixe_irreducible2 (degrees 2,3,4,6,8,9); Extension meta data (cardinality, characteristic, exponent, order) of "
             "towers over prime and non-prime bases of the four GFqDom storage types; the modulus chosen by every Extension object re-checked by Ben-Or's test; GFqExt q-adic dot products of "
             "1, 2, 3, maxdot/2, maxdot-1, maxdot terms for int32_t and int64_t storage; a line is non-trivial when an operand is outside {0,1}",
        extra={"lines_by_kind": kinds, "field_objects_with_tables_validated": fields},
        nontrivial=lambda l: l.split(" ")[0] != "fld" and any(t not in ("0", "1") for t in l.split(" = ")[0].split(" ")[7:]))
    V.finish()
