"""C15 — results do not depend on whether the destination aliases an operand.

Part 1 (Integer layer; translation tie, all-inputs theorems): every specified overload of the gmp++ Integer layer and of ZRing<Integer>
is re-executed symbolically with its reference parameters sharing one location, for every alias pattern (set partitions of
the Integer reference parameters incl. *this, no two outputs identified); one theorem per (overload, pattern) states that the
aliased call returns the specification of the operand VALUES — i.e. exactly what the call with distinct objects returns
(generated/IntegerAliasThms*.lean, same proof scripts as C01/C02).  The same aliased calls are executed on the real code.

Part 2 (ring / field / rational / polynomial interfaces and RecInt; checks/c15_rings.py): a table of event programs per
(kind, operation, alias pattern) regenerated from the clang AST on every run (translate/aliasfp.py), a decidable read-after-write
discipline evaluated by the Lean kernel over the whole table (all_rows_safe), its soundness theorem for every interpretation of the
primitives (discipline_sound, rings_alias_independent), and harness/h_alias.cpp calling every operation aliased and on distinct objects.
"""
from . import integer, c15_rings


def run(prop, tier, seed, replay=None):
    V = integer.run(prop, tier, seed, replay=replay, finish=False)
    part1 = dict(V.coverage)
    part1["rule"] = ("every alias pattern (set partitions of the Integer reference parameters incl. *this; no two outputs identified) of every "
                     "specified overload × boundary grid; " + part1.get("rule", ""))
    c15_rings.run_rings(V, tier, seed, replay=replay)
    part2 = dict(V.coverage)
    cov = dict(part2)
    for k in ("obligations", "discharged", "evaluations", "distinct_nontrivial", "traces_validated_against_impl", "precondition_rejected", "disagreements"):
        cov[k] = (part1.get(k) or 0) + (part2.get(k) or 0)
    cov["property_theorems"] = list(part1.get("property_theorems", [])) + list(part2.get("property_theorems", []))
    cov["rule"] = "Integer layer: " + part1["rule"] + " || ring/polynomial/RecInt interfaces: " + part2.get("rule", "")
    cov["integer_layer"] = {k: v for k, v in part1.items() if k not in ("trusted_base", "property_theorems")}
    cov["checker_cmd"] = part1.get("checker_cmd", "") + " ; " + part2.get("checker_cmd", "")
    V.coverage = cov
    V.finish()
