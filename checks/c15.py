"""C15 — results do not depend on whether the destination aliases an operand.

Part 1 (translation tie, all-inputs theorems): every specified overload of the gmp++ Integer layer and of ZRing<Integer>
is re-executed symbolically with its reference parameters sharing one location, for every alias pattern (set partitions of
the Integer reference parameters incl. *this, no two outputs identified); one theorem per (overload, pattern) states that the
aliased call returns the specification of the operand VALUES — i.e. exactly what the call with distinct objects returns
(generated/IntegerAliasThms*.lean, same proof scripts as C01/C02).  The same aliased calls are executed on the real code.
"""
from . import integer


def run(prop, tier, seed, replay=None):
    V = integer.run(prop, tier, seed, replay=replay, finish=False)
    V.coverage["rule"] = ("every alias pattern (set partitions of the Integer reference parameters incl. *this; no two outputs identified) of every "
                          "specified overload × boundary grid; " + V.coverage.get("rule", ""))
    V.finish()
