"""C03 / C04: residue rings Z/m (all storage/compute pairs the library instantiates).

Tie C (correspondence): harness/h_modring.cpp calls every ring operation of the real library on a
structured grid (moduli at / just below maxCardinality() *as reported by the running code*, operands
0, 1, m-1, floor(m/2)+-1, sqrt(m), random); the Lean driver evaluates the exact specification and the
hand-written model (GivaroModel/Model/ModRing.lean) on every line.  Theorems: Props/C03.lean (C04.lean).
"""
import json
import os
import time

from vlib import common, report, flow

ASSUME = {
    "C03": [
        "IEEE-754 binary32/binary64 arithmetic of the hardware is exact on representable integers; std::fmod is exact; "
        "floor(u3/v3) in the floating extended_euclid equals the exact floor quotient (operands are integers below 2^mantissa: the rounded quotient "
        "of two such integers has the same floor)",
        "RecInt add/sub/mul/addmul/lmul/div/mod_n are taken by their contracts over Z (arithmetic modulo 2^(2^K), lmul exact, mod_n the non-negative "
        "remainder): C06; GMP below Modular<Integer>: C01/C02",
        "ModularBalanced<int32_t|int64_t> mul/axpy/axmy and ModularExtended mul: theorems hold for every quotient estimate within the stated distance of the "
        "true quotient (and, for ModularExtended, a rounded product within 2^(mant-4) of the product: the FMA contract); that the IEEE double/float "
        "operations produce such estimates is tied by correspondence with a soft-float (round-to-nearest-even) model in both build configurations; "
        "the Dekker/Veltkamp path of ModularExtended (no FMA) is tied by correspondence only",
        "Modular<Log16>: theorems for any generator chain satisfying L16.Valid; that the constructor's search produces a valid chain for a prime p is tied by "
        "correspondence at the representation level (raw_* lines: generator, raw operands and raw result against the table model)",
        "the harness converts elements to integers itself (casts, mpz import/export of ruint limbs through RecInt::ruint_to_mpz)",
    ],
    "C04": [
        "std::fmod is exact; static_cast<int64_t>(y) and Integer(double) truncate a finite floating value toward zero exactly; conversions of an "
        "integer of magnitude <= 2^mantissa to float/double are exact (IEEE-754 hypotheses of the exact-integer model)",
        "Integer::mod (Euclidean remainder), Integer % word (remainder of the truncating division) and Integer -> word casts are the gmp++ operations "
        "verified in C01/C02; RecInt <-> Integer conversions by their contracts (C06)",
        "Modular<Log16>: theorems for any valid generator chain (L16.Valid); Montgomery<int32_t> / Montgomery<ruint<K>> init/convert theorems are C07's "
        "(mg32_init_convert_id, mgR_init_*): here they are tied by correspondence; GFqDom (exponent 1) by correspondence",
        "init of ModularExtended from machine integers narrower than the element type goes through the FMA reduce(): correspondence only",
        "outside the property: even modulus for Montgomery<int32_t>; float sources beyond 2^32 for Montgomery<int32_t>'s template init (header: the source must fit an Element); "
        "convert into a type that cannot hold the lift; non-integer floating sources for every ring but the machine-word Modular rings (which truncate: modelled); "
        "GFqDom with exponent > 1; ZRing<T> (characteristic 0, not anchored)",
    ],
}

RULE = {
    "C03": "per ring: moduli = min..min+2, max-2..max (as reported by the running code), largest prime <= max, max/2, sqrt(max)+-1, "
           "powers of two +-1, small composites/primes, random; operands = 0,1,2,m-1,m-2,floor(m/2),floor(m/2)+-1,sqrt(m),random mapped to the "
           "canonical range; every pair for binary, corner triples for ternary operations; random histories (programs of up to 16/48 API calls over "
           "4 registers, sources may coincide, the destination never aliases a source); representation-level lines for the log-table ring; "
           "non-trivial = some operand outside {0,1}",
    "C04": "per ring x source type: limits of the source type, +-2^k+-1 (k up to 999 for double/Integer), values around m, 2m, m^2, negatives, random of "
           "random magnitude (floating sources: exactly representable integers, plus half-integers k+1/2); convert to every target type on the operand grid; "
           "constants per modulus; the ring assigned onto a default-constructed ring and onto rings of three other moduli, then zero/one/mOne, init(-1), "
           "isMOne, maxElement, minElement, cardinality of the assigned object",
}


def run(prop, tier, seed, replay=None):
    V = report.Verdict(prop, tier, seed, "proof")
    V.assumptions = ASSUME[prop]
    L = flow.lean_stage(V, ["GivaroModel.Props." + prop], "GivaroModel/Props/%s.lean" % prop)
    t0 = time.time()
    cfgs = ("S", "R")
    common.shadow_inc()          # once, before the two build threads race to re-point the shadow include tree
    bins = flow.build_harnesses("h_modring", configs=cfgs)
    t_build = time.time() - t0
    lines = None
    if replay:
        with open(replay) as fh:
            lines = [l.split(" = ")[0] for l in json.load(fh).get("lines", []) if l]
    t0 = time.time()
    mode = "modring" if prop == "C03" else "modinit"
    res = flow.correspond(bins, mode, lines=lines, harness_args=[prop, tier, str(seed)], timeout=3000)
    t_corr = time.time() - t0
    counts = flow.decide(V, res, known=report.findings_for(prop))
    rings = sorted({l.split(".", 1)[0] for _, l, _ in res["results"]})
    ops = sorted({l.split(" ", 1)[0].split(".", 1)[-1] for _, l, _ in res["results"]})
    flow.fill_coverage(V, L, res, counts, rule=RULE[prop],
                       extra={"rings": rings, "operations": ops, "configs": list(cfgs),
                              "timing_s": {"lean": round(L["t"], 1), "harness_build": round(t_build, 1), "correspondence": round(t_corr, 1)}})
    V.finish()
