"""C11 — rational reconstruction is sound, and complete inside the uniqueness bound.

Lean: lean/GivaroModel/Props/C11.lean (theorems about the model of givratreconstruct.C / givpoly1ratrecon.inl).
Tie:  correspondence (harness/h_ratrecon.cpp -> driver mode `ratrecon`): exhaustive small grid, structured large moduli,
      every fraction of the uniqueness envelope for small moduli, polynomial instances over Z/p.
"""
import json

from vlib import common, report, flow


def run(prop, tier, seed, replay=None):
    V = report.Verdict(prop, tier, seed, "proof")
    V.assumptions = [
        "Integer arithmetic used by ratrecon (operator/=, %, maxpyin, gcd, sqrt, comparisons) is modelled by its GMP contract over Int "
        "(truncated division, mpz_gcd >= 0, mpz_sqrt = floor square root); those contracts are the subject of C01/C02",
        "Poly1Dom primitives called by the polynomial variant (degree, divmodin, maxpyin, gcd, leadcoef, divin) are interpreted by "
        "Mathlib's Polynomial F operations (any field F) in the full-strength theorems and by list polynomials over Z/p in the driver; "
        "that Poly1Dom's primitives compute those operations is C08 (the driver compares the compiled code with the list model on every case)",
        "diagnostics written to std::cerr are not modelled; QField::ratrecon/Rational(f,m,k,recurs) return no success flag "
        "(soundness is checked on the flag-returning entry points, completeness and the model on all)",
    ]
    L = flow.lean_stage(V, ["GivaroModel.Props.C11"], "GivaroModel/Props/C11.lean")
    bins = flow.build_harnesses("h_ratrecon", configs=("S", "R") if tier == "thorough" else ("S",))
    lines = None
    if replay:
        lines = [l.split(" = ")[0] for l in json.load(open(replay)).get("lines", []) if l]
    res = flow.correspond(bins, "ratrecon", lines=lines, harness_args=[] if lines is not None else [tier, str(seed)])
    counts = flow.decide(V, res, known=report.findings_for(prop))
    keys = {}
    for _, l, _ in res["results"]:
        k = l.split(" ", 1)[0]
        keys[k] = keys.get(k, 0) + 1
    flow.fill_coverage(
        V, L, res, counts,
        rule="exhaustive (f,m,k,reduce) for m <= 36 (quick) / 64 (thorough), f in [-2m-1,2m+1], k in [1,m]; 6-argument wrapper exhaustive "
             "for m <= 11/16; every fraction of the uniqueness envelope for all m <= 1500/6000 and a stride of larger m; structured "
             "random moduli of 5..512 bits (prime, prime power, power of two, smooth, arbitrary) with residues that are canonical, "
             "negative, >= m, < -m, multiples of m, and bounds {1,2,isqrt,isqrt+1,m/2,m-1,m,random}; polynomials over Z/p exhaustive "
             "for p = 2,3(,5) up to small degree and structured random for p up to 2^31-1; uniqueness stream: every reduced n/d with "
             "|n| < k, 2kd <= m for all m <= 44/72 and all k, structured large moduli at the edges of the bounds, several representatives "
             "of the residue; polynomial completeness stream: every A/B within the degree bounds with gcd(B,M)=1 for small fields, "
             "structured random up to degree 40; reported failures are checked exact by brute force (integers m <= 64, polynomials "
             "p <= 5 with <= 700 denominators). distinct = distinct input lines with a non-trivial operand",
        extra={"lines_per_entry_point": keys})
    return V.finish()
