"""Stand-alone entry for the ring part of C15 (`./check C15R`): for the builder's own testing, not registered in the manifest."""
from vlib import report
from . import c15_rings


def run(prop, tier, seed, replay=None):
    V = report.Verdict(prop, tier, seed, "proof")
    c15_rings.run_rings(V, tier, seed, replay=replay)
    V.finish()
