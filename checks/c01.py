"""C01 — big-integer operations are exact over Z, identically across all overloads.

Part 1 (translation tie): the shared Integer pipeline (checks/integer.py): one theorem per overload whose body lies in the
translator's dialect, regenerated from the source on every run.
Part 2 (correspondence tie): the overloads outside the dialect -- comparisons of an Integer with float/double (24 operators,
absCompare), fact, limb access and limb-vector conversions, length, size_in_base, isperfectpower, pp -- are transcribed by hand
(Model/IntegerExtra.lean), their meaning is proved in Props/C01Extra.lean (exact comparison with the rational value of the double for
every integer and every finite double, agreement with the Integer overload, factorial, limb round trips, pp), and
harness/h_integer_x.cpp runs the real functions on boundary grids (the doubles adjacent to each integer, subnormals, infinities)."""
import json

from vlib import flow
from . import integer


def run(prop, tier, seed, replay=None):
    V = integer.run(prop, tier, seed, replay=replay, finish=False)
    part1 = dict(V.coverage)
    L = flow.lean_stage(V, ["GivaroModel.Props.C01Extra"], "GivaroModel/Props/C01Extra.lean")
    bins = flow.build_harnesses("h_integer_x", configs=("S", "R"))
    lines = None
    if replay:
        try:
            lines = [l.split(" = ")[0] for l in json.load(open(replay)).get("lines", []) if l and l.split(" ")[0] in
                     ("cd", "cf", "acd", "acf", "fact", "limb", "len", "vec", "ofvec", "sib", "ipp", "pp", "ctd", "asd", "zinit", "tod")]
        except Exception:
            lines = []
    if lines is None or lines:
        res = flow.correspond(bins, "integer_x", lines=lines, harness_args=(["replay"] if lines is not None else [tier, str(seed)]))
    else:
        res = dict(results=[], crashes=[])
    counts = flow.decide(V, res, known=())
    by_key = {}
    for _, l, _ in res["results"]:
        by_key[l.split(" ", 1)[0]] = by_key.get(l.split(" ", 1)[0], 0) + 1
    cov = part1
    cov["obligations"] = cov.get("obligations", 0) + len(L["theorems"])
    cov["discharged"] = cov.get("discharged", 0) + L["proved"]
    cov["property_theorems"] = list(cov.get("property_theorems", [])) + L["theorems"]
    cov["evaluations"] = cov.get("evaluations", 0) + len(res["results"])
    cov["part2_outside_dialect"] = {
        "lines_by_key": by_key, "ok": counts.get("OK", 0), "precondition_rejected": counts.get("PRE", 0), "disagreements": counts.get("DIFF", 0),
        "rule": "every integer of a boundary grid (0, ±1, ±2^k±1 for k around the float/double mantissa and the limb sizes, random multi-limb) × "
                "the doubles/floats adjacent to it ((double)z and its two neighbours) and a fixed list (±0, subnormals, 2^53, 2^63, 2^64, DBL_MAX, ±inf) × "
                "12 operators on each side; construction/assignment/init from the same doubles (and z±0.5, z/3) and conversion back to double; factorials 0…120 (300 thorough); limb vectors with leading zero limbs; perfect powers b^e±1; pp on "
                "products of small primes of both signs; NaN is outside GMP's contract (PRE)",
        "theorems": L["theorems"], "configs": sorted(bins)}
    V.coverage = cov
    V.assumptions = list(V.assumptions) + [
        "Part 2: the bodies are hand transcriptions (each is one GMP call or a short loop); `mpz_cmp_d`/`mpz_cmpabs_d` by their documented contract "
        "(exact comparison, no rounding of the integer; infinities ordered; NaN undefined), `mpz_perfect_power_p` and `mpz_sizeinbase` "
        "judged by reference functions of the driver, not by a theorem; the tie to the code is the correspondence only"]
    V.finish()
